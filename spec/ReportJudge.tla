----------------------------- MODULE ReportJudge ----------------------------
(* Trace validation for C12 (subset construction over the nondeterministic monitor ReportMon).    *)
(* TRACE_FILE: JSON array of [id, steps : Seq([inp, obs])], obs = [ack, rpt, sent, abort,          *)
(*             reports, links] -- reports/links are the equipment's public tables after the step.   *)
EXTENDS ReportMon, Json, IOUtils

Traces == JsonDeserialize(IOEnv.TRACE_FILE)

SameFun(f, g) == Dom(f) = Dom(g) /\ \A x \in Dom(f) : f[x] = g[x]

Matches(r, obs) ==
  /\ ~obs.abort
  /\ obs.ack = r.out.ack
  /\ obs.sent = r.out.sent
  /\ obs.rpt = r.out.rpt
  /\ SameFun(obs.reports, r.s.reports)
  /\ SameFun(obs.links, r.s.links)

Why(outs, obs) ==
  IF obs.abort THEN "abort-S6F0-instead-of-report"
  ELSE IF \A r \in outs : obs.ack # r.out.ack THEN "acknowledge-code"
  ELSE IF \A r \in outs : obs.sent # r.out.sent THEN "event-report-sent-or-missing"
  ELSE IF \A r \in outs : obs.rpt # r.out.rpt THEN "report-content"
  ELSE IF \A r \in outs : ~SameFun(obs.reports, r.s.reports) THEN "report-table"
  ELSE IF \A r \in outs : ~SameFun(obs.links, r.s.links) THEN "link-table"
  ELSE "combination"

RECURSIVE Run(_, _, _)
Run(S, steps, l) ==
  IF l > Len(steps) THEN [at |-> 0, clause |-> "ok", integrity |-> \A s \in S : Integrity(s)]
  ELSE LET i == steps[l].inp
           obs == steps[l].obs
           outs == UNION {Eff(s, i) : s \in S}
           S2 == {r.s : r \in {r \in outs : Matches(r, obs)}}
       IN IF S2 = {} THEN [at |-> l, clause |-> Why(outs, obs), integrity |-> TRUE]
          ELSE Run(S2, steps, l + 1)

ASSUME \A n \in 1..Len(Traces) :
         LET v == Run({S0}, Traces[n].steps, 1)
         IN PrintT(<<"V", ToJson([id |-> Traces[n].id, at |-> v.at, clause |-> v.clause])>>)
=============================================================================
