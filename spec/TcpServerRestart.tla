--------------------------- MODULE TcpServerRestart --------------------------
(* C09 (after the link was lost and disable() / enable() were called the endpoint accepts a new connection): the restart of the  *)
(* listening thread by the close handling of a connection (TcpServerConnection._disconnected: "if self._enabled: start the      *)
(* server thread") against disable() / enable() of the application (secsgem/common/tcp_server_connection.py).                   *)
(*   receiver thread (close handling)   R1 read _enabled; R2 start the server thread if it was set; R3 _thread_running = False    *)
(*   disable()                          _enabled = False; [disconnect()]; stop the server thread if one is alive; disconnect()    *)
(*   enable()                           _enabled = True; start the server thread                                                *)
(*   server thread                      socket(); self._server_sock = it; bind (EADDRINUSE kills the thread); listen; loop on      *)
(*                                      self._server_sock (the attribute, shared by all server threads) until stopped             *)
(*   DisconnectFirst = FALSE : as originally coded disable() looks for a server thread BEFORE it waits for the connection's          *)
(*     receiver thread: a close handling that read _enabled = True just before starts a server thread behind disable()'s back;       *)
(*     it still listens after disable() returned, the thread started by the next enable() dies in bind(), and the stray thread        *)
(*     now waits on the dead thread's socket (the attribute was overwritten): nobody accepts any more.  Regression witness.           *)
(*     TRUE: after fix: disable() waits for the receiver thread first.                                                            *)
EXTENDS Naturals, FiniteSets, TLC
CONSTANTS DisconnectFirst

Srv == {"x", "y"}             \* x: started by the close handling, y: started by enable()
VARIABLES enabled, running,   \* _enabled, _thread_running (receiver thread of the lost connection)
          rpc, enread,        \* receiver thread: "r1" | "r2" | "r3" | "end"; the value of _enabled it read
          app,                \* "a1" | "a1b" | "a2" | "a2w" | "a3" | "a4" | "a5" | "done"
          spc,                \* server thread pc: "none" | "new" | "bind" | "loop" | "dead" | "exit"
          attr,               \* self._server_sock: the thread whose socket the attribute refers to ("-" before any)
          thr,                \* self._server_thread: the thread object the attribute refers to
          port,               \* thread whose socket is bound to the port and listening ("-" if free)
          stopflag
vars == <<enabled, running, rpc, enread, app, spc, attr, thr, port, stopflag>>

Init == /\ enabled = TRUE /\ running = TRUE /\ rpc = "r1" /\ enread = FALSE /\ app = "a1"
        /\ spc = [s \in Srv |-> "none"] /\ attr = "-" /\ thr = "-" /\ port = "-" /\ stopflag = FALSE

(* ---- close handling of the lost connection (receiver thread)                                                     *)
R1 == rpc = "r1" /\ enread' = enabled /\ rpc' = "r2" /\ UNCHANGED <<enabled, running, app, spc, attr, thr, port, stopflag>>
R2 == /\ rpc = "r2" /\ rpc' = "r3"
      /\ IF enread THEN spc' = [spc EXCEPT !["x"] = "new"] /\ thr' = "x" ELSE UNCHANGED <<spc, thr>>
      /\ UNCHANGED <<enabled, running, enread, app, attr, port, stopflag>>
R3 == rpc = "r3" /\ running' = FALSE /\ rpc' = "end" /\ UNCHANGED <<enabled, enread, app, spc, attr, thr, port, stopflag>>

(* ---- application: disable(), then enable()                                                                       *)
Alive(s) == spc[s] \in {"new", "bind", "loop"}
A1 == /\ app = "a1" /\ enabled' = FALSE /\ app' = (IF DisconnectFirst THEN "a1b" ELSE "a2")
      /\ UNCHANGED <<running, rpc, enread, spc, attr, thr, port, stopflag>>
A1b == app = "a1b" /\ ~running /\ app' = "a2" /\ UNCHANGED <<enabled, running, rpc, enread, spc, attr, thr, port, stopflag>>
A2 == /\ app = "a2"                                                 \* if self._server_thread and it is alive: set the flag, close the socket
      /\ IF thr # "-" /\ Alive(thr)
           THEN /\ stopflag' = TRUE /\ app' = "a2w"
                /\ port' = (IF attr # "-" /\ port = attr THEN "-" ELSE port)       \* self._server_sock.close()
           ELSE app' = "a3" /\ UNCHANGED <<stopflag, port>>
      /\ UNCHANGED <<enabled, running, rpc, enread, spc, attr, thr>>
A2w == /\ app = "a2w" /\ (~stopflag \/ ~Alive(thr)) /\ stopflag' = FALSE /\ app' = "a3"
       /\ UNCHANGED <<enabled, running, rpc, enread, spc, attr, thr, port>>
A3 == app = "a3" /\ ~running /\ app' = "a4" /\ UNCHANGED <<enabled, running, rpc, enread, spc, attr, thr, port, stopflag>>      \* disconnect()
A4 == app = "a4" /\ enabled' = TRUE /\ app' = "a5" /\ UNCHANGED <<running, rpc, enread, spc, attr, thr, port, stopflag>>         \* enable()
A5 == /\ app = "a5" /\ spc' = [spc EXCEPT !["y"] = "new"] /\ thr' = "y" /\ app' = "done"
      /\ UNCHANGED <<enabled, running, rpc, enread, attr, port, stopflag>>

(* ---- server threads                                                                                              *)
SNew(s) == spc[s] = "new" /\ attr' = s /\ spc' = [spc EXCEPT ![s] = "bind"] /\ UNCHANGED <<enabled, running, rpc, enread, app, thr, port, stopflag>>
SBind(s) == /\ spc[s] = "bind"
            /\ IF port = "-" THEN port' = s /\ spc' = [spc EXCEPT ![s] = "loop"]
               ELSE spc' = [spc EXCEPT ![s] = "dead"] /\ UNCHANGED port                       \* EADDRINUSE
            /\ UNCHANGED <<enabled, running, rpc, enread, app, attr, thr, stopflag>>
SStop(s) == /\ spc[s] = "loop" /\ stopflag
            /\ stopflag' = FALSE /\ spc' = [spc EXCEPT ![s] = "exit"]
            /\ port' = (IF attr # "-" /\ port = attr THEN "-" ELSE port)                      \* closes self._server_sock
            /\ UNCHANGED <<enabled, running, rpc, enread, app, attr, thr>>

Next == R1 \/ R2 \/ R3 \/ A1 \/ A1b \/ A2 \/ A2w \/ A3 \/ A4 \/ A5 \/ \E s \in Srv : SNew(s) \/ SBind(s) \/ SStop(s)
Spec == Init /\ [][Next]_vars /\ WF_vars(Next)

(* once everything has settled, a live server thread waits on its own, listening socket: a peer that connects is accepted        *)
Settled == app = "done" /\ rpc = "end" /\ \A s \in Srv : spc[s] \in {"none", "loop", "dead", "exit"}
Accepting(s) == spc[s] = "loop" /\ attr = s /\ port = s
ListensAfterEnable == Settled => \E s \in Srv : Accepting(s)
(* while disable() has returned and enable() was not yet called nobody listens                                                   *)
QuietWhileDisabled == (app = "a4" /\ rpc = "end") => \A s \in Srv : ~Alive(s)
DisableReturns == <>(app = "done")
=============================================================================
