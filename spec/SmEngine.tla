------------------------------ MODULE SmEngine ------------------------------
(* Implementation-shaped model of secsgem/common/state_machine.py (C18).                       *)
(* One action per shared-variable access of StateMachine._perform_transition, State.enter and   *)
(* State.leave, an explicit call stack per thread for requests issued by enter handlers, and    *)
(* up to two threads interleaving at step granularity.                                         *)
(*                                                                                             *)
(*   Locked = FALSE  : the code as it is (no mutual exclusion around a transition)              *)
(*   Locked = TRUE   : the same steps under a re-entrant lock (what serializability needs)      *)
(*                                                                                             *)
(* Phase "seq": thread 1 performs up to K top-level requests one after the other; each is      *)
(* compared with SmAbs when it returns.  Phase "par": threads 1 and 2 perform one request each  *)
(* concurrently; the outcome must equal one of the two serial orders of SmAbs.                 *)
EXTENDS SmAbs, SmMachines, TLC

CONSTANTS Locked, K, NM, Par

VARIABLES m,        \* machine index
          cur,      \* StateMachine._current_state
          active,   \* set of states whose _active flag is True
          log,      \* events seen by recording handlers since the phase/request began
          stk,      \* stk[th] : call stack (sequence of frames), top = last
          res,      \* res[th] : result of the thread's top-level request ("-" while running)
          req,      \* req[th] : top-level request of the thread ("-" none)
          c0,       \* current state when the request(s) began
          n,        \* sequential requests done
          phase,    \* "seq" | "par" | "done"
          owner     \* lock owner (0 = free)

vars == <<m, cur, active, log, stk, res, req, c0, n, phase, owner>>

M == Machines[m]
Th == {1, 2}
Alphabet == DOMAIN M.trans \cup {"UNKNOWN"}

Chain(s, other) == IF s = other THEN <<s>> ELSE SelectSeq(AncSeq(M, s), LAMBDA x : x \notin AncSet(M, other))

Frame(t, nested) == [t |-> t, pc |-> "lookup", chain |-> <<>>, old |-> "-", hq |-> <<>>, nested |-> nested]

Top(th) == stk[th][Len(stk[th])]
SetTop(th, f) == [stk EXCEPT ![th] = [@ EXCEPT ![Len(@)] = f]]
Pop(th) == [stk EXCEPT ![th] = SubSeq(@, 1, Len(@) - 1)]
Push(th, f) == [stk EXCEPT ![th] = Append(@, f)]

Init == /\ m \in 1..NM
        /\ cur = Machines[m].init
        /\ active = AncSet(Machines[m], Machines[m].init)
        /\ log = <<>>
        /\ stk = [th \in Th |-> <<>>]
        /\ res = [th \in Th |-> "-"]
        /\ req = [th \in Th |-> "-"]
        /\ c0 = Machines[m].init
        /\ n = 0 /\ phase = "seq" /\ owner = 0

(* ---- a top-level request begins                                                             *)
StartSeq(t) == /\ phase = "seq" /\ stk[1] = <<>> /\ req[1] = "-" /\ n < K
               /\ req' = [req EXCEPT ![1] = t] /\ res' = [res EXCEPT ![1] = "-"]
               /\ stk' = Push(1, Frame(t, FALSE))
               /\ c0' = cur /\ log' = <<>> /\ n' = n + 1
               /\ UNCHANGED <<m, cur, active, phase, owner>>

(* the sequential request has returned and was compared (invariant SeqConforms): forget it     *)
AckSeq == /\ phase = "seq" /\ stk[1] = <<>> /\ req[1] # "-"
          /\ req' = [req EXCEPT ![1] = "-"] /\ res' = [res EXCEPT ![1] = "-"] /\ log' = <<>>
          /\ UNCHANGED <<m, cur, active, stk, c0, n, phase, owner>>

StartPar(t1, t2) == /\ Par /\ phase = "seq" /\ stk[1] = <<>> /\ req[1] = "-"
                    /\ phase' = "par"
                    /\ req' = [th \in Th |-> IF th = 1 THEN t1 ELSE t2]
                    /\ res' = [th \in Th |-> "-"]
                    /\ stk' = [th \in Th |-> <<Frame(IF th = 1 THEN t1 ELSE t2, FALSE)>>]
                    /\ c0' = cur /\ log' = <<>>
                    /\ UNCHANGED <<m, cur, active, n, owner>>

Finished == phase = "par" /\ \A th \in Th : stk[th] = <<>>

(* ---- engine steps of thread th                                                              *)
LockOK(th) == ~Locked \/ owner \in {0, th}

Return(th, f, r) ==    \* frame f returns r ("ok" or an error class)
  /\ stk' = Pop(th)
  /\ IF f.nested
       THEN /\ log' = IF r = "ok" THEN log ELSE Append(log, <<"nested_err", f.t, r>>)
            /\ UNCHANGED <<res, owner>>
       ELSE /\ res' = [res EXCEPT ![th] = r]
            /\ owner' = IF Locked THEN 0 ELSE owner
            /\ UNCHANGED log

Step(th) ==
  /\ stk[th] # <<>>
  /\ LockOK(th)
  /\ LET f == Top(th) IN
     CASE f.pc = "lookup" ->
            IF f.t \notin DOMAIN M.trans
              THEN /\ Return(th, f, "UnknownTransitionError")
                   /\ UNCHANGED <<cur, active>>
              ELSE /\ stk' = SetTop(th, [f EXCEPT !.pc = "check"])
                   /\ owner' = IF Locked THEN th ELSE owner
                   /\ UNCHANGED <<cur, active, log, res>>
       [] f.pc = "check" ->
            IF cur \notin M.trans[f.t].src
              THEN /\ Return(th, f, "WrongSourceStateError")
                   /\ UNCHANGED <<cur, active>>
              ELSE \* self._current_state.leave(destination): the chain is computed from cur *now*
                   /\ stk' = SetTop(th, [f EXCEPT !.pc = "leave", !.chain = Chain(cur, M.trans[f.t].dst)])
                   /\ UNCHANGED <<cur, active, log, res, owner>>
       [] f.pc = "leave" ->
            IF f.chain = <<>>
              THEN \* old_state = self._current_state ; self._current_state = destination
                   /\ stk' = SetTop(th, [f EXCEPT !.pc = "activate", !.old = cur,
                                                  !.chain = Chain(M.trans[f.t].dst, cur)])
                   /\ cur' = M.trans[f.t].dst
                   /\ UNCHANGED <<active, log, res, owner>>
              ELSE \* fire leave, then _active = False
                   /\ log' = Append(log, <<"leave", Head(f.chain)>>)
                   /\ active' = active \ {Head(f.chain)}
                   /\ stk' = SetTop(th, [f EXCEPT !.chain = Tail(f.chain)])
                   /\ UNCHANGED <<cur, res, owner>>
       [] f.pc = "activate" ->
            \* for state in chain: state._active = True   (before any enter handler runs)
            /\ active' = active \cup SeqToSet(f.chain)
            /\ stk' = SetTop(th, [f EXCEPT !.pc = "enter"])
            /\ UNCHANGED <<cur, log, res, owner>>
       [] f.pc = "enter" ->
            IF f.chain = <<>>
              THEN /\ stk' = SetTop(th, [f EXCEPT !.pc = "called"])
                   /\ UNCHANGED <<cur, active, log, res, owner>>
              ELSE /\ log' = Append(log, <<"enter", Head(f.chain)>>)
                   /\ stk' = SetTop(th, [f EXCEPT !.pc = "handler", !.hq = M.handler[Head(f.chain)],
                                                  !.chain = Tail(f.chain)])
                   /\ UNCHANGED <<cur, active, res, owner>>
       [] f.pc = "handler" ->
            IF f.hq = <<>>
              THEN /\ stk' = SetTop(th, [f EXCEPT !.pc = "enter"])
                   /\ UNCHANGED <<cur, active, log, res, owner>>
              ELSE \* the enter handler issues a nested request
                   /\ stk' = [stk EXCEPT ![th] = Append([@ EXCEPT ![Len(@)] = [f EXCEPT !.hq = Tail(f.hq)]],
                                                        Frame(Head(f.hq), TRUE))]
                   /\ UNCHANGED <<cur, active, log, res, owner>>
       [] f.pc = "called" ->
            /\ log' = Append(log, <<"called", f.t>>)
            /\ stk' = Pop(th)
            /\ IF f.nested THEN UNCHANGED <<res, owner>>
                           ELSE /\ res' = [res EXCEPT ![th] = "ok"]
                                /\ owner' = IF Locked THEN 0 ELSE owner
            /\ UNCHANGED <<cur, active>>
  /\ UNCHANGED <<m, req, c0, n, phase>>

DoStartSeq == \E t \in Alphabet : StartSeq(t)
DoStartPar == \E t1, t2 \in Alphabet : StartPar(t1, t2)
DoStep     == \E th \in Th : Step(th)

Next == DoStartSeq \/ AckSeq \/ DoStartPar \/ DoStep

Spec == Init /\ [][Next]_vars

(* ---- refinement obligations against the monitor SmAbs                                       *)
SeqConforms ==
  (phase = "seq" /\ req[1] # "-" /\ stk[1] = <<>>) =>
      Conforms(M, c0, req[1], [cur |-> cur, active |-> active, res |-> res[1], ev |-> log])

ParSerializable ==
  Finished => SerialConforms(M, c0, req[1], req[2],
                             [cur |-> cur, active |-> active, res1 |-> res[1], res2 |-> res[2], ev |-> log])

(* at quiescence the flags are exactly the current state and its ancestors                      *)
QuiescentActive == (\A th \in Th : stk[th] = <<>>) /\ phase = "seq" => active = AncSet(M, cur)

StackBound == \A th \in Th : Len(stk[th]) <= 6
=============================================================================
