------------------------------- MODULE SmGen -------------------------------
(* Generator behaviour over SmAbs: every (machine, current state, request) with the expected   *)
(* observation, dumped as a labelled transition relation for replay into the real engine.      *)
EXTENDS SmAbs, SmMachines, TLC, Json

VARIABLES m, cur, inp, out
vars == <<m, cur, inp, out>>

Alphabet(M) == DOMAIN M.trans \cup {"UNKNOWN"}

Init == /\ m \in 1..Len(Machines)
        /\ cur = Machines[m].init
        /\ inp = "-" /\ out = [cur |-> Machines[m].init, active |-> {}, res |-> "-", ev |-> <<>>]

Request(t) == /\ inp' = t
              /\ out' = Expected(Machines[m], cur, t)
              /\ cur' = out'.cur
              /\ UNCHANGED m

Next == \E t \in Alphabet(Machines[m]) : Request(t)

View == <<m, cur>>

Dump == PrintT(<<"TR", ToJson([m |-> m, from |-> cur, t |-> inp', exp |-> out'])>>)

(* sanity theorems about the monitor itself, checked on every reachable pair                   *)
CurIsState    == cur \in Machines[m].states
ActiveClosed  == out.res = "-" \/ (cur \in out.active /\
                   \A s \in out.active : Machines[m].parent[s] = "-" \/ Machines[m].parent[s] \in out.active)
ErrorIsNoop   == out.res \in {"UnknownTransitionError", "WrongSourceStateError"} => out.ev = <<>>
CalledOnce    == out.res = "ok" => Cardinality({i \in 1..Len(out.ev) : out.ev[i] = <<"called", inp>>}) >= 1
=============================================================================
