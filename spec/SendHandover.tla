---------------------------- MODULE SendHandover ----------------------------
(* Hand-over of outbound blocks from sending threads to the protocol's receiver thread (C09, C10):                      *)
(*   Protocol.send_message          BlockSendInfo -> _send_queue.put; trigger_receiver(); block_send_info.wait()          *)
(*   ProtocolDispatcher receiver     while not stop: trigger.wait(); trigger.clear(); target()                             *)
(*   HsmsProtocol._process_send_queue   while not empty: get; send_data(packet)...; resolve(True | False)                   *)
(*   BlockSendInfo.resolve / wait    result + Event                                                                       *)
(* Senders: application threads, and -- once the connection notices the link loss -- the connection's own thread,          *)
(* which sends Separate.req from the "disconnecting" handler and finishes the close sequence only after that send returned. *)
(*   ReturnOnFailure = TRUE : as originally coded: after a failed send_data the queue processing returns and leaves the     *)
(*     blocks behind it in the queue; with two of them the second pass strands the last one (its trigger was consumed by    *)
(*     the pass before): the thread that queued it -- the connection thread with Separate.req -- waits forever and the       *)
(*     close sequence never ends.  Regression witness; FALSE: after fix: every queued block is resolved.                    *)
(*   SendMayRaise = TRUE : as originally coded send_data raises (ValueError from select on a closed socket) instead of returning     *)
(*     False once the connection thread has closed the socket: the exception leaves the queue processing, the block that was taken   *)
(*     is never resolved and its sender -- in the field: the dispatcher thread answering a primary -- waits forever.  Witness.        *)
(*   WaitTimesOut = TRUE : BlockSendInfo.wait gives up after a while and treats "no result yet" as success (seeded change    *)
(*     C10-6); witness for ReportedSuccessMeansSent.                                                                      *)
EXTENDS Naturals, Sequences, FiniteSets, TLC

CONSTANTS NS, ReturnOnFailure, WaitTimesOut, SendMayRaise

App == 1..NS
Conn == NS + 1                 \* the connection thread (Separate.req)
Senders == 1..(NS + 1)

VARIABLES pc,        \* per sender: "idle" | "put" | "trig" | "wait" | "done"
          res,       \* BlockSendInfo._result: "none" | "ok" | "err"
          ret,       \* what send_message returned: "-" | "T" | "F"
          sq,        \* _send_queue
          rtrig,     \* receiver trigger
          rpc,       \* receiver loop: "wait" | "clear" | "check" | "send"
          ritem,     \* block taken from the queue
          link,      \* "up" | "down" (the peer closed / reset)
          noticed,   \* the connection thread noticed the loss and runs the disconnecting handler
          sent,      \* senders whose block went out on the live link
          closed     \* the close sequence finished (session NOT CONNECTED, receiver loop stopped)
vars == <<pc, res, ret, sq, rtrig, rpc, ritem, link, noticed, sent, closed>>

Init == /\ pc = [s \in Senders |-> "idle"] /\ res = [s \in Senders |-> "none"] /\ ret = [s \in Senders |-> "-"]
        /\ sq = <<>> /\ rtrig = FALSE /\ rpc = "wait" /\ ritem = 0 /\ link = "up" /\ noticed = FALSE /\ sent = {} /\ closed = FALSE

(* ---- senders                                                                                                   *)
Start(s) == /\ pc[s] = "idle" /\ ~closed
            /\ (s = Conn => noticed)                   \* Separate.req is sent from the disconnecting handler
            /\ pc' = [pc EXCEPT ![s] = "put"] /\ UNCHANGED <<res, ret, sq, rtrig, rpc, ritem, link, noticed, sent, closed>>
Put(s) == /\ pc[s] = "put" /\ sq' = Append(sq, s) /\ pc' = [pc EXCEPT ![s] = "trig"]
          /\ UNCHANGED <<res, ret, rtrig, rpc, ritem, link, noticed, sent, closed>>
Trig(s) == /\ pc[s] = "trig" /\ rtrig' = TRUE /\ pc' = [pc EXCEPT ![s] = "wait"]
           /\ UNCHANGED <<res, ret, sq, rpc, ritem, link, noticed, sent, closed>>
Got(s) == /\ pc[s] = "wait" /\ res[s] # "none"
          /\ ret' = [ret EXCEPT ![s] = IF res[s] = "ok" THEN "T" ELSE "F"] /\ pc' = [pc EXCEPT ![s] = "done"]
          /\ UNCHANGED <<res, sq, rtrig, rpc, ritem, link, noticed, sent, closed>>
GiveUp(s) == /\ WaitTimesOut /\ pc[s] = "wait" /\ res[s] = "none"
             /\ ret' = [ret EXCEPT ![s] = "T"] /\ pc' = [pc EXCEPT ![s] = "done"]      \* result != SENT_ERROR
             /\ UNCHANGED <<res, sq, rtrig, rpc, ritem, link, noticed, sent, closed>>

(* ---- environment / connection thread                                                                            *)
PeerCloses == /\ link = "up" /\ link' = "down" /\ UNCHANGED <<pc, res, ret, sq, rtrig, rpc, ritem, noticed, sent, closed>>
Notice == /\ link = "down" /\ ~noticed /\ noticed' = TRUE /\ UNCHANGED <<pc, res, ret, sq, rtrig, rpc, ritem, link, sent, closed>>
(* the close sequence ends once the Separate.req send came back (whatever its result)                                   *)
Finish == /\ noticed /\ pc[Conn] = "done" /\ ~closed /\ closed' = TRUE
          /\ UNCHANGED <<pc, res, ret, sq, rtrig, rpc, ritem, link, noticed, sent>>

(* the receiver trigger is also set when inbound data arrived (and by stop()): a wake-up without a block                  *)
Kick == ~rtrig /\ rtrig' = TRUE /\ UNCHANGED <<pc, res, ret, sq, rpc, ritem, link, noticed, sent, closed>>

(* ---- receiver loop                                                                                              *)
RWake == rpc = "wait" /\ rtrig /\ ~closed /\ rpc' = "clear" /\ UNCHANGED <<pc, res, ret, sq, rtrig, ritem, link, noticed, sent, closed>>
RClear == rpc = "clear" /\ rtrig' = FALSE /\ rpc' = "check" /\ UNCHANGED <<pc, res, ret, sq, ritem, link, noticed, sent, closed>>
RCheck == /\ rpc = "check"
          /\ IF sq = <<>> THEN rpc' = "wait" /\ UNCHANGED <<sq, ritem>>
             ELSE rpc' = "send" /\ ritem' = Head(sq) /\ sq' = Tail(sq)
          /\ UNCHANGED <<pc, res, ret, rtrig, link, noticed, sent, closed>>
RSend == /\ rpc = "send"
         /\ IF link = "up"
              THEN /\ sent' = sent \cup {ritem} /\ res' = [res EXCEPT ![ritem] = "ok"] /\ rpc' = "check"
              ELSE /\ res' = [res EXCEPT ![ritem] = "err"] /\ UNCHANGED sent
                   /\ rpc' = IF ReturnOnFailure THEN "wait" ELSE "check"
         /\ UNCHANGED <<pc, ret, sq, rtrig, ritem, link, noticed, closed>>

RSendRaises == /\ SendMayRaise /\ rpc = "send" /\ link = "down" /\ noticed
               /\ rpc' = "wait" /\ UNCHANGED <<pc, res, ret, sq, rtrig, ritem, link, noticed, sent, closed>>

Next == \/ RSendRaises
        \/ \E s \in Senders : Start(s) \/ Put(s) \/ Trig(s) \/ Got(s) \/ GiveUp(s)
        \/ PeerCloses \/ Notice \/ Finish \/ Kick \/ RWake \/ RClear \/ RCheck \/ RSend
Fair == /\ \A s \in Senders : WF_vars(Put(s)) /\ WF_vars(Trig(s)) /\ WF_vars(Got(s))
        /\ WF_vars(Start(Conn)) /\ WF_vars(Notice) /\ WF_vars(Finish)
        /\ WF_vars(RWake) /\ WF_vars(RClear) /\ WF_vars(RCheck) /\ WF_vars(RSend)
Spec == Init /\ [][Next]_vars /\ Fair

(* ---- properties                                                                                                 *)
TypeOK == rpc \in {"wait", "clear", "check", "send"} /\ link \in {"up", "down"}
ReportedSuccessMeansSent == \A s \in Senders : ret[s] = "T" => s \in sent                 \* C10
ResultMatches == \A s \in Senders : (res[s] = "ok") = (s \in sent)
(* a queued block whose sender waits has its trigger set, or the loop is on its way to it                              *)
NoStrandedBlock == (sq # <<>> /\ rpc = "wait" /\ ~closed /\ \A s \in Senders : pc[s] # "trig") => rtrig
(* C09: once the peer closed, the close sequence finishes; C10: every send_message call returns                        *)
CloseFinishes == (link = "down") ~> closed
(* (a block queued while the close sequence ends stays queued until the next connection: outside C09 / C10, see DESIGN)       *)
EverySendReturns == \A s \in Senders : (pc[s] = "wait") ~> (pc[s] = "done" \/ closed)
=============================================================================
