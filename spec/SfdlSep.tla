------------------------------- MODULE SfdlSep -------------------------------
(* Layout vectors for C19: every text of up to K characters over {blank, line break, #, name character, <} that the  *)
(* documented lexical rules (SfdlLex.RefTokens) read as "nothing" between two given tokens -- the complete set of       *)
(* separators of that size.  The driver puts each of them into real definitions; the structure that is read must not    *)
(* change.                                                                                                           *)
EXTENDS SfdlLex
CONSTANT K
SepChars == {" ", "n", "#", "w", "<"}
Strs(k) == UNION {[1..m -> SepChars] : m \in 0..k}
Ends == {"w", "<", ">"}
RECURSIVE EndsInComment(_, _)
EndsInComment(t, c) == IF t = <<>> THEN c ELSE EndsInComment(Tail(t), IF c THEN Head(t) # "n" ELSE Head(t) = "#")
(* s separates a and b: it adds no token of its own, leaves no comment open, and a, b are read as two tokens                 *)
Seps(a, b) == {s \in Strs(K) : /\ RefTokens(<<a>> \o s) = <<<<a>>>>
                                /\ ~EndsInComment(<<a>> \o s, FALSE)
                                /\ RefTokens(<<a>> \o s \o <<b>>) = <<<<a>>, <<b>>>>}
ASSUME \A a \in Ends : \A b \in Ends : PrintT(<<"SEP", ToJson([a |-> a, b |-> b, seps |-> Seps(a, b)])>>)
(* sanity: between two names something must separate; brackets need nothing; a comment alone separates only with its line break *)
ASSUME <<>> \notin Seps("w", "w") /\ <<>> \in Seps("w", "<") /\ <<>> \in Seps(">", "w")
ASSUME <<"#", "n">> \in Seps("w", "w") /\ <<"#", "w">> \notin Seps("w", "w") /\ <<"#", "<", "n">> \in Seps("w", "<")
=============================================================================
