---------------------------- MODULE SecsILineJudge --------------------------
(* Trace validation for C17: one record per transfer executed between two real SecsIProtocol          *)
(* stations over an in-memory line.  The reference blocks are computed here from SecsIBlock.          *)
(* TRACE_FILE: JSON array of                                                                        *)
(*  [id, h (header fields), n (body = Pattern(n), or -- custom = TRUE -- the bytes in body), writes : Seq([who:"S"|"R", bytes]),                  *)
(*   corrupt : 0 | index of the block whose copy on the line was altered, result : BOOLEAN | "none",     *)
(*   delivered : Seq([h, n, same])   messages handed over at the receiver (same = body equals Pattern)   *)
(*   lenbyte : BOOLEAN (the altered byte is the length byte), wedged : BOOLEAN]                                                                               *)
EXTENDS SecsIBlock, Json, IOUtils

Traces == JsonDeserialize(IOEnv.TRACE_FILE)
ENQ == <<5>>  EOT == <<4>>  ACK == <<6>>  NAK == <<21>>

W(who, b) == [who |-> who, bytes |-> b]
RECURSIVE Expected(_, _, _)
Expected(blocks, i, upto) ==     \* the writes of blocks i..upto, all acknowledged
  IF i > upto THEN <<>> ELSE <<W("S", ENQ), W("R", EOT), W("S", blocks[i]), W("R", ACK)>> \o Expected(blocks, i + 1, upto)

Norm(ws) == [i \in 1..Len(ws) |-> W(ws[i].who, ws[i].bytes)]

Clause(t) ==
  LET hdr == [r |-> t.h.r, dev |-> t.h.dev, w |-> t.h.w, s |-> t.h.s, f |-> t.h.f, e |-> FALSE, blk |-> 0, sys |-> t.h.sys]
      blocks == Split(hdr, IF t.custom THEN t.body ELSE Pattern(t.n))      \* custom: the body bytes are given explicitly
      ws == Norm(t.writes)
      okRun == Expected(blocks, 1, Len(blocks))
      \* up to the transmission of the altered block everything is regular; then the receiver answers NAK (after a
      \* framing error -- altered length byte -- it may react to left-over bytes as well: the line state is undefined)
      nakPre == Expected(blocks, 1, t.corrupt - 1) \o <<W("S", ENQ), W("R", EOT), W("S", blocks[t.corrupt])>>
      nakOK == /\ Len(ws) > Len(nakPre) /\ SubSeq(ws, 1, Len(nakPre)) = nakPre
               /\ (t.lenbyte \/ \E i \in (Len(nakPre) + 1)..Len(ws) : ws[i] = W("R", NAK))
               /\ \A i \in (Len(nakPre) + 1)..Len(ws) : ws[i] # W("R", ACK)
               /\ (t.lenbyte \/ ws[Len(nakPre) + 1] = W("R", NAK))
  IN IF t.wedged THEN "transfer-did-not-terminate"
     ELSE IF t.corrupt = 0
       THEN IF ws # okRun THEN "handshake-order-or-block-bytes"
            ELSE IF t.result # TRUE THEN "send-reported-failure-without-fault"
            ELSE IF Len(t.delivered) # 1 THEN "not-delivered-exactly-once"
            ELSE IF ~(t.delivered[1].same /\ t.delivered[1].n = t.n /\ t.delivered[1].h = t.h) THEN "delivered-message-differs"
            ELSE "ok"
       ELSE IF ~nakOK THEN "bad-block-not-answered-with-NAK-or-handshake-order"
            ELSE IF t.result # FALSE THEN "send-reported-success-although-NAK"
            ELSE IF Len(t.delivered) # 0 THEN "corrupted-message-delivered"
            ELSE "ok"

ASSUME \A k \in 1..Len(Traces) : PrintT(<<"V", ToJson([id |-> Traces[k].id, clause |-> Clause(Traces[k])])>>)
=============================================================================
