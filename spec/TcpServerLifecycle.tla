-------------------------- MODULE TcpServerLifecycle -------------------------
(* C09 (disable() returns; a new connection is accepted afterwards): the stop-flag handshake between      *)
(* TcpServerConnection.disable (application thread) and the server thread                               *)
(* (secsgem/common/tcp_server_connection.py), one action per shared-variable access.                     *)
(*   Fixed = FALSE : the original handshake -- disable waits for the flag only; the server thread dies on  *)
(*                   EBADF / does not close its socket when stopped                                       *)
(*   Fixed = TRUE  : as repaired (re-check the flag after a failing select/accept, close the socket when    *)
(*                   stopped, disable also stops waiting when the thread has ended)                        *)
EXTENDS Naturals, TLC
CONSTANTS Fixed
VARIABLES st,      \* server thread pc: "new","created","bound","loop","selecting","accept","exit","done","dead","connected"
          sock,    \* listening socket: "none" | "open" | "listening" | "closed"
          flag,    \* _stop_server_thread
          app,     \* application thread pc: "idle","d1","d2","d3","wait","returned"
          peerc    \* a peer connection request is pending
vars == <<st, sock, flag, app, peerc>>
Alive == st \notin {"done", "dead", "connected"}

Init == st = "new" /\ sock = "none" /\ flag = FALSE /\ app = "idle" /\ peerc = FALSE

(* ---- server thread                                                                                     *)
SCreate == st = "new" /\ st' = "created" /\ sock' = "open" /\ UNCHANGED <<flag, app, peerc>>
SBind == /\ st = "created"
         /\ IF sock = "closed" THEN st' = "dead" /\ UNCHANGED sock           \* bind on a closed socket: EBADF, thread dies
                               ELSE st' = "loop" /\ sock' = "listening"
         /\ UNCHANGED <<flag, app, peerc>>
SLoop == /\ st = "loop"
         /\ st' = IF flag THEN "exit" ELSE "selecting"
         /\ UNCHANGED <<sock, flag, app, peerc>>
SSelect == /\ st = "selecting"
           /\ \/ /\ sock = "closed"                                          \* select raises / reports the closed socket
                 /\ st' = IF Fixed THEN "loop" ELSE "accept"
              \/ /\ sock = "listening" /\ peerc /\ st' = "accept"
              \/ /\ sock = "listening" /\ st' = "loop"                       \* select timed out
           /\ UNCHANGED <<sock, flag, app, peerc>>
SAccept == /\ st = "accept"
           /\ IF sock = "closed" THEN st' = (IF Fixed THEN "loop" ELSE "dead") /\ UNCHANGED <<sock, peerc>>
              ELSE st' = "connected" /\ sock' = "closed" /\ peerc' = FALSE
           /\ UNCHANGED <<flag, app>>
SExit == /\ st = "exit"
         /\ sock' = IF Fixed THEN "closed" ELSE sock
         /\ flag' = FALSE /\ st' = "done" /\ UNCHANGED <<app, peerc>>

(* ---- application thread: disable()                                                                     *)
D1 == app = "idle" /\ app' = "d1" /\ UNCHANGED <<st, sock, flag, peerc>>
D2 == /\ app = "d1"                                                         \* if thread alive: set the flag
      /\ IF Alive THEN flag' = TRUE /\ app' = "d2" ELSE app' = "returned" /\ UNCHANGED flag
      /\ UNCHANGED <<st, sock, peerc>>
D3 == /\ app = "d2"                                                         \* if self._server_sock: close()
      /\ sock' = IF sock \in {"open", "listening"} THEN "closed" ELSE sock
      /\ app' = "wait" /\ UNCHANGED <<st, flag, peerc>>
DWait == /\ app = "wait"
         /\ (~flag \/ (Fixed /\ ~Alive))
         /\ flag' = FALSE /\ app' = "returned" /\ UNCHANGED <<st, sock, peerc>>
PeerConnects == ~peerc /\ peerc' = TRUE /\ UNCHANGED <<st, sock, flag, app>>

Next == SCreate \/ SBind \/ SLoop \/ SSelect \/ SAccept \/ SExit \/ D1 \/ D2 \/ D3 \/ DWait \/ PeerConnects
Spec == Init /\ [][Next]_vars /\ WF_vars(SCreate) /\ WF_vars(SBind) /\ WF_vars(SLoop) /\ WF_vars(SSelect)
        /\ WF_vars(SAccept) /\ WF_vars(SExit) /\ WF_vars(D2) /\ WF_vars(D3) /\ WF_vars(DWait)

DisableReturns == (app = "d1") ~> (app = "returned")
(* once disable has returned and the server thread is gone nothing keeps listening (the next enable can bind) *)
NoLeakedListener == (app = "returned" /\ ~Alive) => sock # "listening"
=============================================================================
