------------------------------- MODULE SmlRef -------------------------------
(* Reference for C15 at token level (SML text -> tokens is done by the harness' own tokenizer:       *)
(* operators < > [ ], quoted literals as one token, anything else split at white space).             *)
(*                                                                                                *)
(* (1) MustReject(toks): the property forbids returning an item for a text whose first item is       *)
(*     never closed, or in which a '<' of that item is not followed by a known type name.            *)
(* (2) Shape(toks): the type / nesting / value-count structure of a well-formed item text, to be      *)
(*     compared with the structure of the item that was printed.                                     *)
EXTENDS Naturals, Sequences, FiniteSets, TLC

Types == {"L", "B", "BOOLEAN", "A", "J", "I1", "I2", "I4", "I8", "U1", "U2", "U4", "U8", "F4", "F8"}
Upper(t) == t          \* the harness upper-cases type tokens before handing them over

(* running bracket depth after token i (quoted literals are single tokens and never brackets)         *)
RECURSIVE DepthAt(_, _)
DepthAt(toks, i) == IF i = 0 THEN 0
                    ELSE DepthAt(toks, i - 1) + (IF toks[i] = "<" THEN 1 ELSE 0) - (IF toks[i] = ">" /\ DepthAt(toks, i - 1) > 0 THEN 1 ELSE 0)
(* position of the token that closes the first item, 0 if it is never closed                         *)
ClosePos(toks) == IF Len(toks) = 0 \/ toks[1] # "<" THEN 0
                  ELSE IF \E i \in 2..Len(toks) : DepthAt(toks, i) = 0
                         THEN CHOOSE i \in 2..Len(toks) : DepthAt(toks, i) = 0 /\ \A j \in 2..(i - 1) : DepthAt(toks, j) # 0
                         ELSE 0
StartsItem(toks) == Len(toks) > 0 /\ toks[1] = "<"
MissingClose(toks) == StartsItem(toks) /\ ClosePos(toks) = 0
Extent(toks) == IF ClosePos(toks) = 0 THEN Len(toks) ELSE ClosePos(toks)
UnknownType(toks) == StartsItem(toks) /\
                     \E i \in 1..Extent(toks) : toks[i] = "<" /\ (i = Len(toks) \/ toks[i + 1] \notin Types)
MustReject(toks) == MissingClose(toks) \/ UnknownType(toks)

(* ---- structure of a well-formed text: [t, n, kids]; n = number of value tokens of a leaf            *)
Bad == [ok |-> FALSE, sh |-> [t |-> "?", n |-> 0, kids |-> <<>>], next |-> 0]
RECURSIVE ParseItem(_, _), ParseKids(_, _, _), CountVals(_, _, _)
ParseItem(toks, p) ==
  IF p + 1 > Len(toks) \/ toks[p] # "<" \/ toks[p + 1] \notin Types THEN Bad
  ELSE LET t == toks[p + 1]
           q == IF p + 4 <= Len(toks) /\ toks[p + 2] = "[" /\ toks[p + 4] = "]" /\ toks[p + 3] \notin {"<", ">", "[", "]"}
                  THEN p + 5 ELSE p + 2
       IN IF t = "L" THEN ParseKids(toks, q, <<>>) ELSE CountVals(toks, q, [t |-> t, n |-> 0, kids |-> <<>>])
ParseKids(toks, p, acc) ==
  IF p > Len(toks) THEN Bad
  ELSE IF toks[p] = ">" THEN [ok |-> TRUE, sh |-> [t |-> "L", n |-> Len(acc), kids |-> acc], next |-> p + 1]
  ELSE LET r == ParseItem(toks, p) IN IF ~r.ok THEN Bad ELSE ParseKids(toks, r.next, Append(acc, r.sh))
CountVals(toks, p, sh) ==
  IF p > Len(toks) \/ toks[p] \in {"<", "[", "]"} THEN Bad
  ELSE IF toks[p] = ">" THEN [ok |-> TRUE, sh |-> sh, next |-> p + 1]
  ELSE CountVals(toks, p + 1, [sh EXCEPT !.n = @ + 1])
Shape(toks) == ParseItem(toks, 1)
=============================================================================
