---------------------------- MODULE ContainerJudge --------------------------
(* C03 (configurations): judge of recorded lookups, the resolution rule of Containers over a history.      *)
(* TRACE_FILE = [base : Seq([s,f,cls]), ops : Seq([c,s,f,cls]),                                             *)
(*               lookups : Seq([id, after (number of ops done), c, s, f, got])]                              *)
EXTENDS Naturals, Sequences, FiniteSets, TLC, Json, IOUtils
T == JsonDeserialize(IOEnv.TRACE_FILE)
BaseOf(s, f) == LET m == {i \in 1..Len(T.base) : T.base[i].s = s /\ T.base[i].f = f}
                IN IF m = {} THEN "none" ELSE T.base[CHOOSE i \in m : TRUE].cls
Expected(n, c, s, f) == LET m == {i \in 1..n : T.ops[i].c = c /\ T.ops[i].s = s /\ T.ops[i].f = f}
                        IN IF m = {} THEN BaseOf(s, f) ELSE T.ops[CHOOSE i \in m : \A j \in m : j <= i].cls
ASSUME \A n \in 1..Len(T.lookups) :
           LET l == T.lookups[n] e == Expected(l.after, l.c, l.s, l.f)
           IN PrintT(<<"V", ToJson([id |-> l.id, ok |-> l.got = e, expected |-> e])>>)
=============================================================================
