------------------------------- MODULE GemPair ------------------------------
(* C20: a secsgem host and a secsgem equipment connected to each other (abstract pair).               *)
(* Each side: enabled flag, selected flag, communication state; one side is the HSMS active side.       *)
(* The link delivers messages in order per direction with arbitrary delay; the active side retries the   *)
(* TCP connect (T5) while the passive side is not listening.  The establish-communication timers (T3,     *)
(* delay) are not needed on the fault-free path and are left out of this model (C07 covers them).          *)
(* Property: whenever both sides stay enabled they eventually are both COMMUNICATING -- in either role      *)
(* assignment, either enable order, after any disable/enable cycles.                                      *)
EXTENDS Naturals, Sequences, FiniteSets, TLC

CONSTANTS Active,          \* "H" or "E": which side is HSMS-active
          MaxCycles        \* bound on disable actions (so that "stays enabled" eventually holds)

Sides == {"H", "E"}
Other(x) == IF x = "H" THEN "E" ELSE "H"
Passive == Other(Active)

VARIABLES en,       \* en[x]
          conn,     \* TCP connection exists
          sel,      \* sel[x] : HSMS selected
          cm,       \* cm[x] \in {"NC", "WCRA", "COMM"}
          q,        \* q[x] : messages in flight towards x
          cycles
vars == <<en, conn, sel, cm, q, cycles>>

Init == /\ en = [x \in Sides |-> FALSE] /\ conn = FALSE /\ sel = [x \in Sides |-> FALSE]
        /\ cm = [x \in Sides |-> "NC"] /\ q = [x \in Sides |-> <<>>] /\ cycles = 0

Enable(x) == /\ ~en[x] /\ en' = [en EXCEPT ![x] = TRUE] /\ UNCHANGED <<conn, sel, cm, q, cycles>>
(* disable closes the connection: both sides fall back, everything in flight is lost                     *)
Disable(x) == /\ en[x] /\ cycles < MaxCycles
              /\ en' = [en EXCEPT ![x] = FALSE] /\ cycles' = cycles + 1
              /\ conn' = FALSE /\ sel' = [y \in Sides |-> FALSE] /\ cm' = [y \in Sides |-> "NC"]
              /\ q' = [y \in Sides |-> <<>>]
(* the active side connects as soon as the passive side listens (otherwise it retries after T5)          *)
Connect == /\ ~conn /\ en["H"] /\ en["E"]
           /\ conn' = TRUE /\ q' = [q EXCEPT ![Passive] = Append(@, "SelReq")]
           /\ UNCHANGED <<en, sel, cm, cycles>>

Send(qq, to, m) == [qq EXCEPT ![to] = Append(@, m)]
Deliver(x) ==
  /\ conn /\ q[x] # <<>>
  /\ LET m == Head(q[x])
         q1 == [q EXCEPT ![x] = Tail(@)]
     IN CASE m = "SelReq" ->     \* answer, become selected, start establishing communication
               /\ sel' = [sel EXCEPT ![x] = TRUE]
               /\ cm' = [cm EXCEPT ![x] = IF cm[x] = "NC" THEN "WCRA" ELSE cm[x]]
               /\ q' = Send(Send(q1, Other(x), "SelRsp"), Other(x), "S1F13")
          [] m = "SelRsp" ->
               /\ sel' = [sel EXCEPT ![x] = TRUE]
               /\ cm' = [cm EXCEPT ![x] = IF cm[x] = "NC" THEN "WCRA" ELSE cm[x]]
               /\ q' = Send(q1, Other(x), "S1F13")
          [] m = "S1F13" ->
               IF ~sel[x] THEN /\ q' = q1 /\ UNCHANGED <<sel, cm>>             \* rejected, not selected
               ELSE /\ q' = Send(q1, Other(x), "S1F14")
                    /\ cm' = [cm EXCEPT ![x] = IF cm[x] = "WCRA" THEN "COMM" ELSE cm[x]]
                    /\ UNCHANGED sel
          [] m = "S1F14" ->
               /\ cm' = [cm EXCEPT ![x] = IF cm[x] = "WCRA" THEN "COMM" ELSE cm[x]]
               /\ q' = q1 /\ UNCHANGED sel
  /\ UNCHANGED <<en, conn, cycles>>

DoEnable == \E x \in Sides : Enable(x)
DoDisable == \E x \in Sides : Disable(x)
DoDeliver == \E x \in Sides : Deliver(x)
Next == DoEnable \/ DoDisable \/ Connect \/ DoDeliver
Spec == Init /\ [][Next]_vars /\ WF_vars(Connect) /\ WF_vars(DoDeliver) /\ WF_vars(DoEnable)

Both == cm["H"] = "COMM" /\ cm["E"] = "COMM"
TypeOK == \A x \in Sides : cm[x] \in {"NC", "WCRA", "COMM"}
CommNeedsLink == \A x \in Sides : cm[x] # "NC" => (conn /\ sel[x])
(* both enabled for good (no disable budget left or simply never disabled again) => eventually both communicate *)
ReachCommunication == <>[](en["H"] /\ en["E"]) => <>[]Both
=============================================================================
