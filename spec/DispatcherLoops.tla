---------------------------- MODULE DispatcherLoops --------------------------
(* The two trigger-driven loops of secsgem/common/protocol_dispatcher.py that carry every inbound message     *)
(* from the connection's receiver thread to the application (C04 "none lost", C08 "every primary answered"):     *)
(*                                                                                                            *)
(*   receiver loop    while not stop: trigger.wait(); trigger.clear(); target()                                 *)
(*                    target = Protocol._process_data: frames complete in the receive buffer are put into the     *)
(*                    dispatch queue (queue_block: put, then set the dispatcher's trigger)                       *)
(*   dispatcher loop  while not stop: trigger.wait(); trigger.clear(); while queue.qsize() > 0: get(); target()   *)
(*   environment      the connection's receiver thread appends data to the buffer and sets the receiver trigger;  *)
(*                    senders set the receiver trigger too (send queue), without data                            *)
(*                                                                                                            *)
(* One action per operation on a shared object (Event.wait/clear/set, Queue.put/qsize/get, buffer).              *)
(*   RClearFirst / DClearFirst = TRUE: as coded (clear right after wait).  FALSE: the trigger is cleared after     *)
(*   the work was done -- a set that happens between the last look at the buffer / queue and the clear is lost     *)
(*   (seeded changes C04-2 and C08-3); kept as witnesses TLC must refute.                                        *)
EXTENDS Naturals, Sequences, FiniteSets, TLC

CONSTANTS RClearFirst, DClearFirst, MaxF, MaxKick

VARIABLES buf,      \* complete frames in the receive buffer, not yet framed (ids)
          pend,     \* frames whose data arrived but whose trigger set is still to come (environment pc)
          rtrig, dtrig,
          rpc,      \* receiver loop: "wait" | "clear" | "call" | "in" | "dset" | "leaving" | "postclear"
          dq,       \* dispatch queue (ids)
          dpc,      \* dispatcher loop: "wait" | "clear" | "check" | "get" | "postclear"
          handed,   \* ids handed to the dispatcher target, in order
          nextF,    \* next frame id to arrive
          kicks     \* number of data-less receiver trigger sets so far
vars == <<buf, pend, rtrig, dtrig, rpc, dq, dpc, handed, nextF, kicks>>

Init == /\ buf = <<>> /\ pend = FALSE /\ rtrig = FALSE /\ dtrig = FALSE /\ rpc = "wait" /\ dq = <<>> /\ dpc = "wait"
        /\ handed = <<>> /\ nextF = 1 /\ kicks = 0

(* ---- environment                                                                                           *)
Data(n) == /\ ~pend /\ nextF + n - 1 <= MaxF
           /\ buf' = buf \o [i \in 1..n |-> nextF + i - 1] /\ nextF' = nextF + n /\ pend' = TRUE
           /\ UNCHANGED <<rtrig, dtrig, rpc, dq, dpc, handed, kicks>>
DataSet == pend /\ pend' = FALSE /\ rtrig' = TRUE /\ UNCHANGED <<buf, dtrig, rpc, dq, dpc, handed, nextF, kicks>>
Kick == kicks < MaxKick /\ kicks' = kicks + 1 /\ rtrig' = TRUE /\ UNCHANGED <<buf, pend, dtrig, rpc, dq, dpc, handed, nextF>>

(* ---- receiver loop                                                                                         *)
RWake == /\ rpc = "wait" /\ rtrig /\ rpc' = (IF RClearFirst THEN "clear" ELSE "call")
         /\ UNCHANGED <<buf, pend, rtrig, dtrig, dq, dpc, handed, nextF, kicks>>
RClear == /\ rpc \in {"clear", "postclear"} /\ rtrig' = FALSE /\ rpc' = (IF rpc = "clear" THEN "call" ELSE "wait")
          /\ UNCHANGED <<buf, pend, dtrig, dq, dpc, handed, nextF, kicks>>
RCall == rpc = "call" /\ rpc' = "in" /\ UNCHANGED <<buf, pend, rtrig, dtrig, dq, dpc, handed, nextF, kicks>>
RFrame == /\ rpc = "in" /\ buf # <<>> /\ dq' = Append(dq, Head(buf)) /\ buf' = Tail(buf) /\ rpc' = "dset"
          /\ UNCHANGED <<pend, rtrig, dtrig, dpc, handed, nextF, kicks>>
RDSet == rpc = "dset" /\ dtrig' = TRUE /\ rpc' = "in" /\ UNCHANGED <<buf, pend, rtrig, dq, dpc, handed, nextF, kicks>>
(* the framing loop looked at the buffer and found no complete frame: it is about to return                       *)
RSeesEmpty == rpc = "in" /\ buf = <<>> /\ rpc' = "leaving" /\ UNCHANGED <<buf, pend, rtrig, dtrig, dq, dpc, handed, nextF, kicks>>
RRet == /\ rpc = "leaving" /\ rpc' = (IF RClearFirst THEN "wait" ELSE "postclear")
        /\ UNCHANGED <<buf, pend, rtrig, dtrig, dq, dpc, handed, nextF, kicks>>

(* ---- dispatcher loop                                                                                       *)
DWake == /\ dpc = "wait" /\ dtrig /\ dpc' = (IF DClearFirst THEN "clear" ELSE "check")
         /\ UNCHANGED <<buf, pend, rtrig, dtrig, rpc, dq, handed, nextF, kicks>>
DClear == /\ dpc \in {"clear", "postclear"} /\ dtrig' = FALSE /\ dpc' = (IF dpc = "clear" THEN "check" ELSE "wait")
          /\ UNCHANGED <<buf, pend, rtrig, rpc, dq, handed, nextF, kicks>>
DQsize == /\ dpc = "check"
          /\ dpc' = (IF dq # <<>> THEN "get" ELSE IF DClearFirst THEN "wait" ELSE "postclear")
          /\ UNCHANGED <<buf, pend, rtrig, dtrig, rpc, dq, handed, nextF, kicks>>
DGet == /\ dpc = "get" /\ dq # <<>> /\ handed' = Append(handed, Head(dq)) /\ dq' = Tail(dq) /\ dpc' = "check"
        /\ UNCHANGED <<buf, pend, rtrig, dtrig, rpc, nextF, kicks>>

DoData == \E n \in 0..2 : Data(n)
Next == DoData \/ DataSet \/ Kick \/ RWake \/ RClear \/ RCall \/ RFrame \/ RDSet \/ RSeesEmpty \/ RRet \/ DWake \/ DClear \/ DQsize \/ DGet
Fair == WF_vars(DataSet) /\ WF_vars(RWake) /\ WF_vars(RClear) /\ WF_vars(RCall) /\ WF_vars(RFrame) /\ WF_vars(RDSet)
        /\ WF_vars(RSeesEmpty) /\ WF_vars(RRet) /\ WF_vars(DWake) /\ WF_vars(DClear) /\ WF_vars(DQsize) /\ WF_vars(DGet)
Spec == Init /\ [][Next]_vars /\ Fair

(* ---- properties                                                                                            *)
TypeOK == rpc \in {"wait", "clear", "call", "in", "dset", "leaving", "postclear"} /\ dpc \in {"wait", "clear", "check", "get", "postclear"}
(* a loop that waits while there is work for it has its trigger set (or the set is on its way)                   *)
NoLostWakeup == /\ (rpc = "wait" /\ buf # <<>> /\ ~pend) => rtrig
                /\ (dpc = "wait" /\ dq # <<>> /\ rpc # "dset") => dtrig
InOrderOnce == handed = [i \in 1..Len(handed) |-> i]
(* whatever arrived is handed over without waiting for further traffic                                          *)
EverythingHandedOver == [](~pend => <>(Len(handed) = nextF - 1))
=============================================================================
