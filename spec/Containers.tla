------------------------------ MODULE Containers ----------------------------
(* C03 (configurations): stream/function containers.  Every endpoint's settings own a container that      *)
(* starts as the catalogue; StreamsFunctions.update(cls) replaces / adds the class for (stream, function)   *)
(* IN THAT CONTAINER ONLY.  Lookup by S/F in any container therefore is: the last class that container was    *)
(* updated with for that S/F, else the catalogue's class, else none.                                        *)
(*                                                                                                       *)
(* Model: containers C, keys K, the frame condition as action property, checked by TLC; the lookups          *)
(* recorded from the real containers are judged by ContainerJudge (same resolution rule over a history).     *)
EXTENDS Naturals, Sequences, FiniteSets, TLC

CONSTANTS C, K, V, Shared  \* containers, S/F keys, class names ("base" = catalogue class, "none" = not catalogued)
VARIABLES tab, last
vars == <<tab, last>>
Base(k) == IF k \in K \ {CHOOSE x \in K : TRUE} THEN "base" ELSE "none"      \* one key is uncatalogued
Init == tab = [c \in C |-> [k \in K |-> Base(k)]] /\ last = <<>>
(* Shared = TRUE: containers created without an explicit list all alias the catalogue list (witness)        *)
Update(c, k, v) == /\ tab' = IF Shared THEN [d \in C |-> [tab[d] EXCEPT ![k] = v]] ELSE [tab EXCEPT ![c][k] = v]
                   /\ last' = <<c, k>>
DoUpdate == \E c \in C, k \in K, v \in V : Update(c, k, v)
Next == DoUpdate
Spec == Init /\ [][Next]_vars
TypeOK == tab \in [C -> [K -> V \cup {"base", "none"}]]
(* an update of one container never changes what another container resolves                              *)
Isolation == [][\A c \in C, k \in K : (tab'[c][k] # tab[c][k]) => last' = <<c, k>>]_vars
(* a container nobody updated still is the catalogue                                                     *)
Untouched == \A c \in C : (\A k \in K : tab[c][k] \in {"base", "none"}) => \A k \in K : tab[c][k] = Base(k)

=============================================================================
