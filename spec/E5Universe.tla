----------------------------- MODULE E5Universe -----------------------------
(* Boundary universe of SECS-II items for C01/C02/C14: TLC proves the codec theorems of E5Item    *)
(* on every member and prints each member with its E5 encoding (test vectors for Leg R).          *)
EXTENDS E5Item, Json, IOUtils

Thorough == IOEnv.E5_THOROUGH = "1"

Rep(x, n) == [i \in 1..n |-> x]
N(neg, mag) == [neg |-> neg, mag |-> mag]

(* ---- numbers: min, min+1, -1, 0, 1, max-1, max of every width                                   *)
UNums(w) == {N(FALSE, Rep(0, w)), N(FALSE, Rep(0, w - 1) \o <<1>>), N(FALSE, Rep(255, w - 1) \o <<254>>), N(FALSE, Rep(255, w)),
             N(FALSE, <<128>> \o Rep(0, w - 1)), N(FALSE, <<127>> \o Rep(255, w - 1))}
INums(w) == {N(TRUE, <<128>> \o Rep(0, w - 1)), N(TRUE, <<127>> \o Rep(255, w - 1)), N(TRUE, Rep(0, w - 1) \o <<1>>),
             N(FALSE, Rep(0, w)), N(FALSE, Rep(0, w - 1) \o <<1>>), N(FALSE, <<127>> \o Rep(255, w - 1) ),
             N(FALSE, <<127>> \o Rep(255, w - 2) \o <<254>>), N(TRUE, Rep(0, w - 1) \o <<128>>)}
INums1 == {N(TRUE, <<128>>), N(TRUE, <<127>>), N(TRUE, <<1>>), N(FALSE, <<0>>), N(FALSE, <<1>>), N(FALSE, <<126>>), N(FALSE, <<127>>)}
NumsOf(f) == IF f = "I1" THEN INums1 ELSE IF Signed(f) THEN INums(Width(f)) ELSE UNums(Width(f))

SeqsUpTo2(S) == {<<>>} \cup {<<a>> : a \in S} \cup {<<a, b>> : a \in S, b \in S}
IntFormats == {"I1", "I2", "I4", "I8", "U1", "U2", "U4", "U8"}
IntItems == UNION {{[f |-> f, v |-> q] : q \in SeqsUpTo2(NumsOf(f))} : f \in IntFormats}
            \cup {[f |-> f, v |-> <<CHOOSE x \in NumsOf(f) : TRUE, CHOOSE x \in NumsOf(f) : x.neg = Signed(f), CHOOSE x \in NumsOf(f) : TRUE>>] : f \in IntFormats}

(* ---- text / binary: critical byte values                                                        *)
Crit == {0, 32, 34, 39, 62, 65, 92, 126, 127, 128, 161, 223, 255}
ByteItems(f) == {[f |-> f, v |-> q] : q \in SeqsUpTo2(Crit)} \cup {[f |-> f, v |-> <<b>>] : b \in 0..255}
JCps == {32, 34, 65, 127, 165, 8254, 65377, 65439, 0, 10}
JItems == {[f |-> "J", v |-> q] : q \in SeqsUpTo2(JCps)}
BoolItems == {[f |-> "BOOLEAN", v |-> q] : q \in SeqsUpTo2(BOOLEAN) \cup {<<TRUE, FALSE, TRUE>>}}

(* ---- floats: every exponent x mantissa {0, 1, max} x sign (finite patterns, incl. subnormals)     *)
F4Bits(s, e, m3) == <<s * 128 + e \div 2, (e % 2) * 128 + m3[1], m3[2], m3[3]>>
F4Mants == {<<0, 0, 0>>, <<0, 0, 1>>, <<127, 255, 255>>}
F4Pats == {F4Bits(s, e, m) : s \in {0, 1}, e \in (IF Thorough THEN 0..254 ELSE {0, 1, 2, 126, 127, 128, 253, 254}), m \in F4Mants}
F8Bits(s, e, m7) == <<s * 128 + e \div 16, (e % 16) * 16 + m7[1]>> \o SubSeq(m7, 2, 7)
F8Mants == {<<0, 0, 0, 0, 0, 0, 0>>, <<0, 0, 0, 0, 0, 0, 1>>, <<15, 255, 255, 255, 255, 255, 255>>}
F8Pats == {F8Bits(s, e, m) : s \in {0, 1}, e \in (IF Thorough THEN 0..2046 ELSE {0, 1, 2, 1022, 1023, 1024, 2045, 2046}), m \in F8Mants}
FloatItems == {[f |-> "F4", v |-> <<p>>] : p \in F4Pats} \cup {[f |-> "F8", v |-> <<p>>] : p \in F8Pats}
              \cup {[f |-> "F4", v |-> <<>>], [f |-> "F8", v |-> <<>>],
                    [f |-> "F4", v |-> <<F4Bits(0, 127, <<0, 0, 0>>), F4Bits(1, 128, <<64, 0, 0>>)>>],
                    [f |-> "F8", v |-> <<F8Bits(0, 1023, <<0, 0, 0, 0, 0, 0, 0>>), F8Bits(1, 1024, <<8, 0, 0, 0, 0, 0, 0>>)>>]}

(* ---- lists                                                                                      *)
Leaves == {[f |-> "U1", v |-> <<N(FALSE, <<5>>)>>], [f |-> "U1", v |-> <<N(FALSE, <<7>>), N(FALSE, <<255>>)>>], [f |-> "A", v |-> <<120>>], [f |-> "L", v |-> <<>>], [f |-> "B", v |-> <<>>],
           [f |-> "I2", v |-> <<N(TRUE, <<0, 1>>)>>], [f |-> "BOOLEAN", v |-> <<TRUE>>]}
L1 == {[f |-> "L", v |-> q] : q \in SeqsUpTo2(Leaves)}
L2 == {[f |-> "L", v |-> q] : q \in SeqsUpTo2(Leaves \cup {[f |-> "L", v |-> <<x>>] : x \in Leaves})}
L3 == {[f |-> "L", v |-> <<x>>] : x \in L1} \cup {[f |-> "L", v |-> <<[f |-> "L", v |-> <<x>>], y>>] : x \in L1, y \in Leaves}
ListItems == L1 \cup L2 \cup (IF Thorough THEN L3 ELSE {[f |-> "L", v |-> <<x>>] : x \in L1})

Small == IntItems \cup ByteItems("B") \cup ByteItems("A") \cup JItems \cup BoolItems \cup FloatItems \cup ListItems

(* ---- length-byte boundaries: n payload elements of a fixed element                                *)
LenCounts == {254, 255, 256, 257, 65535, 65536, 65537}
Elem(f) == CASE f \in {"B", "A"} -> 65 [] f = "J" -> 65 [] f = "BOOLEAN" -> TRUE
             [] IsInt(f) -> N(FALSE, Rep(0, Width(f) - 1) \o <<1>>)
             [] f = "F4" -> F4Bits(0, 127, <<0, 0, 0>>) [] f = "F8" -> F8Bits(0, 1023, <<0, 0, 0, 0, 0, 0, 0>>)
             [] f = "L" -> [f |-> "B", v |-> <<>>]
LenItem(f, n) == [f |-> f, v |-> Rep(Elem(f), n)]
LenVectors == {<<f, n>> : f \in Formats \ {"L"}, n \in LenCounts} \cup {<<"L", n>> : n \in {254, 255, 256, 257}}
BigLists == {65535, 65536, 65537}      \* header only (the harness builds the children)

ASSUME \A it \in Small : WellFormed(it) /\ RoundTrip(it) /\ PrefixFree(it) /\ MinimalHeader(it)
ASSUME \A fn \in LenVectors : LET it == LenItem(fn[1], fn[2]) IN RoundTrip(it) /\ MinimalHeader(it)
(* the 3-byte limit: 16777215 fits, 16777216 does not                                                *)
ASSUME Fits(MaxLen, 3) /\ ~Fits(MaxLen + 1, 3) /\ HeaderNLB("B", MaxLen, 3) = <<35, 255, 255, 255>>

(* ---- vectors                                                                                     *)
ASSUME \A it \in Small : PrintT(<<"VEC", ToJson([item |-> it, bytes |-> Encode(it)])>>)
ASSUME \A fn \in LenVectors :
         LET it == LenItem(fn[1], fn[2]) b == Encode(it)
         IN PrintT(<<"LEN", ToJson([f |-> fn[1], n |-> fn[2], elem |-> <<Elem(fn[1])>>, head |-> SubSeq(b, 1, 4), total |-> Len(b),
                                    tail |-> SubSeq(b, Len(b) - 1, Len(b))])>>)
ASSUME \A n \in BigLists : PrintT(<<"LEN", ToJson([f |-> "L", n |-> n, elem |-> <<Elem("L")>>, head |-> Header("L", n),
                                                     total |-> Len(Header("L", n)) + 2 * n, tail |-> <<33, 0>>])>>)
(* C02: the same items with more length bytes than necessary (outermost header, and on a list child) *)
ASSUME \A it \in Small : \A nlb \in 1..3 :
         (Fits(LengthField(it), nlb) /\ nlb # MinLB(LengthField(it)))
           => PrintT(<<"NLB", ToJson([item |-> it, nlb |-> nlb, bytes |-> EncodeNLB(it, nlb), canon |-> Encode(it),
                                      nested |-> Header("L", 1) \o EncodeNLB(it, nlb)])>>)
ASSUME \A it \in Small : \A nlb \in 2..3 :
         LET b == EncodeNLB(it, nlb) r == Decode(b, 1) IN r.ok /\ r.item = Canon(it) /\ r.next = Len(b) + 1
(* C02: in a BOOLEAN item every non-zero byte denotes TRUE, not only 1 (what a peer may legally send)  *)
TrueBytes == {2, 127, 128, 255}
BoolAlt(it, t) == Header("BOOLEAN", Len(it.v)) \o [i \in 1..Len(it.v) |-> IF it.v[i] THEN t ELSE 0]
HasTrue(it) == \E i \in 1..Len(it.v) : it.v[i]
ASSUME \A it \in BoolItems : \A t \in TrueBytes :
         LET b == BoolAlt(it, t) r == Decode(b, 1) IN r.ok /\ r.item = it /\ r.next = Len(b) + 1
ASSUME \A it \in BoolItems : \A t \in TrueBytes :
         HasTrue(it) => PrintT(<<"NLB", ToJson([item |-> it, nlb |-> 1, bytes |-> BoolAlt(it, t), canon |-> Encode(it),
                                               nested |-> Header("L", 1) \o BoolAlt(it, t)])>>)
(* C14: plain integers and the narrowest type that holds them                                        *)
Pad8(q) == Rep(0, 8 - Len(q)) \o q
PlainMags == {Pad8(<<0>>), Pad8(<<1>>), Pad8(<<127>>), Pad8(<<128>>), Pad8(<<129>>), Pad8(<<255>>), Pad8(<<1, 0>>), Pad8(<<127, 255>>),
              Pad8(<<128, 0>>), Pad8(<<128, 1>>), Pad8(<<255, 255>>), Pad8(<<1, 0, 0>>), Pad8(<<127, 255, 255, 255>>),
              Pad8(<<128, 0, 0, 0>>), Pad8(<<128, 0, 0, 1>>), Pad8(<<255, 255, 255, 255>>), Pad8(<<1, 0, 0, 0, 0>>),
              <<127, 255, 255, 255, 255, 255, 255, 255>>, <<128, 0, 0, 0, 0, 0, 0, 0>>, <<255, 255, 255, 255, 255, 255, 255, 255>>}
Plain == {N(s, m) : s \in BOOLEAN, m \in PlainMags}
PlainOK(x) == ~x.neg \/ FitsI(x.mag, 8)
ASSUME \A x \in Plain : PlainOK(x) => (WellFormed(NarrowItem(x)) /\ RoundTrip(NarrowItem(x)))
ASSUME \A x \in Plain : PlainOK(x) => PrintT(<<"NAR", ToJson([x |-> x, item |-> NarrowItem(x), bytes |-> Encode(NarrowItem(x))])>>)
=============================================================================
