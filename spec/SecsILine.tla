------------------------------ MODULE SecsILine -----------------------------
(* C17: implementation-shaped model of the SECS-I line protocol between a sending and a receiving   *)
(* station (secsgem/secsi/protocol.py: _process_send_queue / _process_received_data), with a byte    *)
(* FIFO per direction that delivers arbitrary chunks.  Unit = one control character, or one of the  *)
(* BL units of a block (the first unit carries the length byte).                                    *)
(*   CorruptMode = "none" | "payload" (one non-length unit of one block is altered on the line)     *)
(*               | "length" (the length unit is altered upwards: receiver expects more than is sent)  *)
(* As coded there are no T1/T2/T4 timers and no retries.                                             *)
EXTENDS Naturals, Sequences, TLC

CONSTANTS NB,          \* number of blocks of the message
          BL,          \* units per block
          CorruptMode

VARIABLES ab, ba,      \* units in flight sender->receiver / receiver->sender
          rbuf, sbuf,  \* receive buffers of receiver / sender station
          spc, rpc,    \* program counters
          blk,         \* block the sender is working on (1..NB)
          got,         \* blocks accepted by the receiver (queued for reassembly)
          hit,         \* a unit was corrupted
          need,        \* units the receiver waits for to complete the current block
          wlog         \* order of writes on the line: "ENQ","EOT","BLK","ACK","NAK"
vars == <<ab, ba, rbuf, sbuf, spc, rpc, blk, got, hit, need, wlog>>

Init == /\ ab = <<>> /\ ba = <<>> /\ rbuf = <<>> /\ sbuf = <<>> /\ spc = "idle" /\ rpc = "idle"
        /\ blk = 1 /\ got = 0 /\ hit = FALSE /\ need = 0 /\ wlog = <<>>

BlockUnits == [i \in 1..BL |-> IF i = 1 THEN "len" ELSE "dat"]

(* ---- the line                                                                                  *)
DeliverAB == \E k \in 1..Len(ab) : /\ rbuf' = rbuf \o SubSeq(ab, 1, k) /\ ab' = SubSeq(ab, k + 1, Len(ab))
                                   /\ UNCHANGED <<ba, sbuf, spc, rpc, blk, got, hit, need, wlog>>
DeliverBA == \E k \in 1..Len(ba) : /\ sbuf' = sbuf \o SubSeq(ba, 1, k) /\ ba' = SubSeq(ba, k + 1, Len(ba))
                                   /\ UNCHANGED <<ab, rbuf, spc, rpc, blk, got, hit, need, wlog>>
Corrupt == /\ CorruptMode # "none" /\ ~hit
           /\ \E i \in 1..Len(ab) :
                /\ ab[i] = (IF CorruptMode = "length" THEN "len" ELSE "dat")
                /\ ab' = [ab EXCEPT ![i] = IF CorruptMode = "length" THEN "len+" ELSE "bad"]
           /\ hit' = TRUE /\ UNCHANGED <<ba, rbuf, sbuf, spc, rpc, blk, got, need, wlog>>

(* ---- sending station                                                                            *)
SEnq == /\ spc = "idle" /\ blk <= NB
        /\ ab' = Append(ab, "ENQ") /\ spc' = "waitEot" /\ wlog' = Append(wlog, "ENQ")
        /\ UNCHANGED <<ba, rbuf, sbuf, rpc, blk, got, hit, need>>
SGotEot == /\ spc = "waitEot" /\ sbuf # <<>>
           /\ sbuf' = Tail(sbuf)                       \* whatever arrives is taken as EOT
           /\ ab' = ab \o BlockUnits /\ spc' = "waitAck" /\ wlog' = Append(wlog, "BLK")
           /\ UNCHANGED <<ba, rbuf, rpc, blk, got, hit, need>>
SGotAck == /\ spc = "waitAck" /\ sbuf # <<>>
           /\ sbuf' = Tail(sbuf)
           /\ IF Head(sbuf) = "ACK"
                THEN /\ blk' = blk + 1 /\ spc' = IF blk = NB THEN "ok" ELSE "idle"
                ELSE /\ spc' = "fail" /\ UNCHANGED blk
           /\ UNCHANGED <<ab, ba, rbuf, rpc, got, hit, need, wlog>>

(* ---- receiving station                                                                          *)
RTakeEnq == /\ rpc = "idle" /\ rbuf # <<>>
            /\ rbuf' = Tail(rbuf)                      \* anything is taken as ENQ
            /\ ba' = Append(ba, "EOT") /\ rpc' = "waitLen" /\ wlog' = Append(wlog, "EOT")
            /\ UNCHANGED <<ab, sbuf, spc, blk, got, hit, need>>
RLen == /\ rpc = "waitLen" /\ rbuf # <<>>
        /\ need' = IF Head(rbuf) = "len+" THEN BL + 1 ELSE BL
        /\ rpc' = "waitRest" /\ UNCHANGED <<ab, ba, rbuf, sbuf, spc, blk, got, hit, wlog>>
RRest == /\ rpc = "waitRest" /\ Len(rbuf) >= need
         /\ LET b == SubSeq(rbuf, 1, need)
                good == \A i \in 1..need : b[i] \in {"len", "dat"}
            IN /\ rbuf' = SubSeq(rbuf, need + 1, Len(rbuf))
               /\ IF good THEN /\ got' = got + 1 /\ ba' = Append(ba, "ACK") /\ wlog' = Append(wlog, "ACK")
                          ELSE /\ ba' = Append(ba, "NAK") /\ wlog' = Append(wlog, "NAK") /\ UNCHANGED got
         /\ rpc' = "idle" /\ UNCHANGED <<ab, sbuf, spc, blk, hit, need>>

Next == DeliverAB \/ DeliverBA \/ Corrupt \/ SEnq \/ SGotEot \/ SGotAck \/ RTakeEnq \/ RLen \/ RRest
Spec == Init /\ [][Next]_vars /\ WF_vars(DeliverAB) /\ WF_vars(DeliverBA) /\ WF_vars(SEnq) /\ WF_vars(SGotEot)
        /\ WF_vars(SGotAck) /\ WF_vars(RTakeEnq) /\ WF_vars(RLen) /\ WF_vars(RRest)

(* ---- what C17 states                                                                            *)
RECURSIVE Pat(_)
Pat(n) == IF n = 0 THEN <<>> ELSE Pat(n - 1) \o <<"ENQ", "EOT", "BLK", "ACK">>
IsPrefix(p, q) == Len(p) <= Len(q) /\ SubSeq(q, 1, Len(p)) = p
(* each block is announced by ENQ, started only after EOT and acknowledged                           *)
HandshakeOrder == \/ IsPrefix(wlog, Pat(NB))
                  \/ \E k \in 0..(NB - 1) : wlog = Pat(k) \o <<"ENQ", "EOT", "BLK", "NAK">>
SuccessMeansDelivered == spc = "ok" => got = NB
NakMeansNotDelivered == spc = "fail" => (got < NB /\ hit)
NoLossWithoutFault == (CorruptMode = "none") => <>(spc = "ok")
Terminates == <>(spc \in {"ok", "fail"})
=============================================================================
