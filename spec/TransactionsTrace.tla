-------------------------- MODULE TransactionsTrace -------------------------
(* Trace validation for Transactions (C06): executions of the real transaction layer (HsmsProtocol on a     *)
(* FakeConnection, 2-4 caller threads, deterministic scheduler) are recorded as one event per shared-state    *)
(* access and must be behaviours of Transactions; its invariants are checked on every state on the way.       *)
(* TRACE_FILE: JSON array of [id, ev : Seq([e, c, sys, id, got])]   (unused fields 0)                        *)
(*   Sys(c, sys)   get_next_system_counter returned sys to request c (system bytes normalised to 1, 2, ...)     *)
(*   Reg(c)        _get_queue_for_system entered         Send(sys)  the request was written to the line         *)
(*   Del(c)        _remove_queue entered (after the reply was taken from the queue, or after T3)                *)
(*   Ret(c, got)   send_and_waitfor_response returned (got = request the returned reply answers, 0 = none)      *)
(*   InReply(sys, c) / InOther(id, sys) / Reconnect    what the peer (driver) did (InOther.sys # 0: colliding)  *)
(*   Take(c | id)  the dispatcher thread took a message; QPut: put into a response queue;                       *)
(*   DBegin(id) / DEnd   hand-over to the application begins / ends                                           *)
(* The counter's linearization point lies inside its lock and has no observable event: Sys binds the value    *)
(* that was handed out (TSys) instead of reusing CallInc; DistinctOutstanding is checked on the result.        *)
EXTENDS Transactions, Json, IOUtils

Traces == JsonDeserialize(IOEnv.TRACE_FILE)
VARIABLES tid, l
tvars == <<vars, tid, l>>
Ev == Traces[tid].ev
Cur == Ev[l]
Is(e) == l <= Len(Ev) /\ Cur.e = e
Adv == l' = l + 1 /\ UNCHANGED tid

TInit == Init /\ ctr = 0 /\ tid \in 1..Len(Traces) /\ l = 1

TSys == /\ Is("Sys") /\ pc[Cur.c] = "idle"
        /\ sys' = [sys EXCEPT ![Cur.c] = Cur.sys] /\ ctr' = Cur.sys /\ pc' = [pc EXCEPT ![Cur.c] = "reg"]
        /\ UNCHANGED <<got, reg, rq, wire, dispq, alive, dpc, dmsg, applog, busy, nextU, conn, late>> /\ Adv
TReg == Is("Reg") /\ CallRegister(Cur.c) /\ Adv
TSend == Is("Send") /\ (\E c \in Callers : sys[c] = Cur.sys /\ CallSend(c)) /\ Adv
TDel == Is("Del") /\ (CallGot(Cur.c) \/ CallTimeout(Cur.c)) /\ Adv
TRet == Is("Ret") /\ pc[Cur.c] = "done" /\ got[Cur.c] = Cur.got /\ UNCHANGED vars /\ Adv
TInReply == /\ Is("InReply")
            /\ IF \E w \in wire : w.sys = Cur.sys /\ w.c = Cur.c THEN PeerReply([sys |-> Cur.sys, c |-> Cur.c])
               ELSE PeerLateReply(Cur.sys, Cur.c)
            /\ Adv
TInOther == /\ Is("InOther") /\ nextU = Cur.id
            /\ (IF Cur.sys = 0 THEN PeerUnsol ELSE \E c \in Callers : sys[c] = Cur.sys /\ PeerCollide(c))      \* sys # 0: the primary carries the system bytes of an open request
            /\ Adv
TReconnect == Is("Reconnect") /\ Reconnect /\ Adv
HeadIs(m) == IF m.k = "reply" THEN Cur.c = m.for /\ Cur.id = 0 ELSE Cur.id = m.id
TTake == Is("Take") /\ dispq # <<>> /\ HeadIs(Head(dispq)) /\ DtTake(1) /\ Adv
Routed == (dmsg[1].k = "reply" \/ ~SecondaryOnly) /\ dmsg[1].sys \in reg
TQPut == Is("QPut") /\ dpc[1] = "took" /\ Routed /\ DtRoute(1) /\ Adv
TDBegin == /\ Is("DBegin") /\ dpc[1] = "took" /\ ~Routed
           /\ (IF dmsg[1].k = "unsol" THEN Cur.id = dmsg[1].id ELSE Cur.c = dmsg[1].for)
           /\ DtRoute(1) /\ Adv
TDEnd == Is("DEnd") /\ DtDeliverEnd(1) /\ Adv

TNext == TSys \/ TReg \/ TSend \/ TDel \/ TRet \/ TInReply \/ TInOther \/ TReconnect \/ TTake \/ TQPut \/ TDBegin \/ TDEnd
TSpec == TInit /\ [][TNext]_tvars
Progress == PrintT(<<"AT", ToJson([id |-> Traces[tid].id, l |-> l, n |-> Len(Ev)])>>)
=============================================================================
