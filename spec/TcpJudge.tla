------------------------------- MODULE TcpJudge -----------------------------
(* Trace validation for C10: one record per scenario on the real Tcp*Connection over the simulated       *)
(* socket.  TRACE_FILE: JSON array of                                                                  *)
(*  [id, sends : Seq([size, ok : BOOLEAN]),  received : Seq([m, from, to])  -- maximal runs of bytes of     *)
(*   message m (1-based offsets) in the order the peer read them, reset : BOOLEAN]                         *)
(* The peer's byte stream is compared run-wise: each message is filled with a pattern that encodes the     *)
(* message number and the offset, the harness cuts the stream into runs without interpreting it.           *)
EXTENDS Naturals, Sequences, FiniteSets, TLC, Json, IOUtils
Traces == JsonDeserialize(IOEnv.TRACE_FILE)

RunsOf(t, i) == SelectSeq(t.received, LAMBDA r : r.m = i)
Covers(runs, size) == /\ Len(runs) >= 1
                      /\ runs[1].from = 1 /\ runs[Len(runs)].to = size
                      /\ \A k \in 1..(Len(runs) - 1) : runs[k + 1].from = runs[k].to + 1
Clause(t) ==
  IF \E k \in 1..Len(t.received) : t.received[k].m = 0 THEN "foreign-or-corrupted-bytes-on-the-stream"
  ELSE IF \E j, k \in 1..Len(t.received) : j < k /\ (t.received[j].m > t.received[k].m
             \/ (t.received[j].m = t.received[k].m /\ t.received[j].to >= t.received[k].from))
         THEN "bytes-out-of-order-or-duplicated"
  ELSE IF \E i \in 1..Len(t.sends) : t.sends[i].ok /\ ~t.reset /\ ~Covers(RunsOf(t, i), t.sends[i].size)
         THEN "send-reported-success-but-bytes-missing"
  ELSE "ok"

ASSUME \A n \in 1..Len(Traces) : PrintT(<<"V", ToJson([id |-> Traces[n].id, clause |-> Clause(Traces[n])])>>)
=============================================================================
