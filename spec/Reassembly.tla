------------------------------ MODULE Reassembly ----------------------------
(* C16: blocks of different messages (distinct system bytes) arrive interleaved; the reassembly       *)
(* (secsgem/common/protocol.py _add_message_block: open messages keyed by system bytes, completed on   *)
(* the E-bit) delivers every message intact.  All merges of the block sequences are explored.          *)
EXTENDS Naturals, Sequences, FiniteSets, TLC
CONSTANTS NMsg, NBlk            \* messages 1..NMsg, each with 1..NBlk blocks
VARIABLES nblk,     \* nblk[m]: number of blocks of message m
          sent,     \* sent[m]: blocks of m put on the line so far
          open,     \* open[m]: blocks collected for m (the dict entry), <<>> = no entry
          done      \* delivered messages: sequence of [m, blocks]
vars == <<nblk, sent, open, done>>
Msgs == 1..NMsg
Init == nblk \in [Msgs -> 1..NBlk] /\ sent = [m \in Msgs |-> 0] /\ open = [m \in Msgs |-> <<>>] /\ done = <<>>
Arrive(m) == /\ sent[m] < nblk[m]
             /\ sent' = [sent EXCEPT ![m] = @ + 1]
             /\ LET b == [m |-> m, i |-> sent[m] + 1, e |-> sent[m] + 1 = nblk[m]]
                    col == Append(open[m], b)
                IN IF b.e THEN /\ done' = Append(done, [m |-> m, blocks |-> col]) /\ open' = [open EXCEPT ![m] = <<>>]
                          ELSE /\ open' = [open EXCEPT ![m] = col] /\ UNCHANGED done
             /\ UNCHANGED nblk
DoArrive == \E m \in Msgs : Arrive(m)
Next == DoArrive
Spec == Init /\ [][Next]_vars
Intact == \A k \in 1..Len(done) : LET d == done[k] IN
             /\ Len(d.blocks) = nblk[d.m]
             /\ \A i \in 1..Len(d.blocks) : d.blocks[i].m = d.m /\ d.blocks[i].i = i
AllDelivered == (\A m \in Msgs : sent[m] = nblk[m]) => (Len(done) = NMsg /\ \A m \in Msgs : open[m] = <<>>)
OncePerMessage == \A j, k \in 1..Len(done) : j # k => done[j].m # done[k].m
=============================================================================
