------------------------------ MODULE SmJudge ------------------------------
(* TLC as judge of observations recorded from the real engine (Leg R/V of C18).                *)
(* OBS_FILE: JSON array of                                                                     *)
(*   [kind:"seq", id, m, c, t, obs:[cur, active, res, ev]]                                      *)
(*   [kind:"par", id, m, c, t1, t2, obs:[cur, active, res1, res2, ev]]                          *)
EXTENDS SmAbs, SmMachines, TLC, Json, IOUtils

Obs == JsonDeserialize(IOEnv.OBS_FILE)

ToSet(q) == {q[i] : i \in 1..Len(q)}

SeqVerdict(r) ==
  LET M == Machines[r.m]
      o == [cur |-> r.obs.cur, active |-> ToSet(r.obs.active), res |-> r.obs.res, ev |-> r.obs.ev]
  IN [id |-> r.id, ok |-> Conforms(M, r.c, r.t, o), diff |-> FirstDiff(M, r.c, r.t, o),
      exp |-> Expected(M, r.c, r.t)]

ParVerdict(r) ==
  LET M == Machines[r.m]
      o == [cur |-> r.obs.cur, active |-> ToSet(r.obs.active), res1 |-> r.obs.res1,
            res2 |-> r.obs.res2, ev |-> r.obs.ev]
  IN [id |-> r.id, ok |-> SerialConforms(M, r.c, r.t1, r.t2, o), diff |-> "not serializable",
      exp |-> Serial(M, r.c, r.t1, r.t2)]

ASSUME \A i \in 1..Len(Obs) :
          LET r == Obs[i]
              v == IF r.kind = "seq" THEN SeqVerdict(r) ELSE ParVerdict(r)
          IN IF v.ok THEN PrintT(<<"V", ToJson([id |-> v.id, ok |-> TRUE])>>)
                     ELSE PrintT(<<"V", ToJson(v)>>)
=============================================================================
