---------------------------- MODULE E30ControlMon ---------------------------
(* Property-level monitor for C11: the GEM control state model of SEMI E30 (equipment side),       *)
(* written from the property statement / E30 table, not from secsgem.                              *)
(* state s = [ctl, sub, ce] : control state, remembered ONLINE sub-state, control-state collection  *)
(*           events enabled?                                                                      *)
(* out = [reply : <<>> | <<[f, ack]>> (S1F16 / S1F18 with acknowledge code),                        *)
(*        ces : sequence of CEIDs reported with S6F11 (1 = equipment offline, 2 = local, 3 = remote), *)
(*        probe : TRUE iff an S1F1 "are you there" probe is sent, raised : operator call refused,     *)
(*        sv : value of the control-state status variable afterwards]                               *)
EXTENDS Naturals, Sequences, TLC

(* ATTEMPT_ONLINE is held while the operator's switch-online call waits for the answer to its S1F1 probe;   *)
(* host requests may arrive in that window (OpOnlineBegin / ProbeResult split the operator call in two;      *)
(* the atomic OpOnline is their composition with nothing in between)                                      *)
Ctl == {"EQUIPMENT_OFFLINE", "ATTEMPT_ONLINE", "HOST_OFFLINE", "ONLINE_LOCAL", "ONLINE_REMOTE"}
Online(s) == s.ctl \in {"ONLINE_LOCAL", "ONLINE_REMOTE"}
OnlineOf(sub) == IF sub = "LOCAL" THEN "ONLINE_LOCAL" ELSE "ONLINE_REMOTE"
CeOf(sub) == IF sub = "LOCAL" THEN 2 ELSE 3
SvOf(c) == CASE c = "EQUIPMENT_OFFLINE" -> 1 [] c = "ATTEMPT_ONLINE" -> 2 [] c = "HOST_OFFLINE" -> 3
             [] c = "ONLINE_LOCAL" -> 4 [] c = "ONLINE_REMOTE" -> 5

Ces(s, q) == IF s.ce THEN q ELSE <<>>
O(reply, ces, probe, raised, ctl) == [reply |-> reply, ces |-> ces, probe |-> probe, raised |-> raised, sv |-> SvOf(ctl)]
R(s, out) == [s |-> s, out |-> out]
Same(s) == R(s, O(<<>>, <<>>, FALSE, FALSE, s.ctl))
Refuse(s) == R(s, O(<<>>, <<>>, FALSE, TRUE, s.ctl))

(* the state the equipment starts in for a configured (initial, sub); communication is not yet      *)
(* established when it starts, so an initial ATTEMPT_ONLINE fails over to HOST_OFFLINE              *)
Start(initial, sub) ==
  [ctl |-> CASE initial = "EQUIPMENT_OFFLINE" -> "EQUIPMENT_OFFLINE"
             [] initial = "ATTEMPT_ONLINE" -> "HOST_OFFLINE"
             [] initial = "HOST_OFFLINE" -> "HOST_OFFLINE"
             [] initial = "ONLINE" -> OnlineOf(sub),
   sub |-> sub, ce |-> FALSE]

Inputs ==
  {[k |-> "OpOnline", probe |-> p] : p \in {"ok", "abort", "silent"}}
  \cup {[k |-> "ProbeResult", probe |-> p] : p \in {"ok", "abort", "silent"}}
  \cup {[k |-> x] : x \in {"OpOnlineBegin", "OpOffline", "OpLocal", "OpRemote", "S1F15", "S1F17", "ReadSV", "EnableCE", "DisableCE"}}
(* while the operator's call is pending only the host acts (a second operator call is another thread: C18)    *)
Enabled(s, i) == IF s.ctl = "ATTEMPT_ONLINE" THEN i.k \in {"ProbeResult", "S1F15", "S1F17", "ReadSV", "EnableCE", "DisableCE"}
                 ELSE i.k # "ProbeResult"

Eff(s, i) ==
  CASE i.k = "OpOnline" ->
         IF s.ctl = "EQUIPMENT_OFFLINE"
           THEN IF i.probe = "ok"
                  THEN R([s EXCEPT !.ctl = OnlineOf(s.sub)], O(<<>>, Ces(s, <<CeOf(s.sub)>>), TRUE, FALSE, OnlineOf(s.sub)))
                  ELSE R([s EXCEPT !.ctl = "HOST_OFFLINE"], O(<<>>, <<>>, TRUE, FALSE, "HOST_OFFLINE"))
           ELSE Refuse(s)
    [] i.k = "OpOnlineBegin" ->
         IF s.ctl = "EQUIPMENT_OFFLINE"
           THEN R([s EXCEPT !.ctl = "ATTEMPT_ONLINE"], O(<<>>, <<>>, TRUE, FALSE, "ATTEMPT_ONLINE"))
           ELSE Refuse(s)
    [] i.k = "ProbeResult" ->
         IF i.probe = "ok"
           THEN R([s EXCEPT !.ctl = OnlineOf(s.sub)], O(<<>>, Ces(s, <<CeOf(s.sub)>>), FALSE, FALSE, OnlineOf(s.sub)))
           ELSE R([s EXCEPT !.ctl = "HOST_OFFLINE"], O(<<>>, <<>>, FALSE, FALSE, "HOST_OFFLINE"))
    [] i.k = "OpOffline" ->
         IF Online(s) THEN R([s EXCEPT !.ctl = "EQUIPMENT_OFFLINE"], O(<<>>, Ces(s, <<1>>), FALSE, FALSE, "EQUIPMENT_OFFLINE"))
         ELSE Refuse(s)
    [] i.k = "OpLocal" ->
         IF s.ctl = "ONLINE_REMOTE"
           THEN R([s EXCEPT !.ctl = "ONLINE_LOCAL", !.sub = "LOCAL"], O(<<>>, Ces(s, <<2>>), FALSE, FALSE, "ONLINE_LOCAL"))
           ELSE Refuse(s)
    [] i.k = "OpRemote" ->
         IF s.ctl = "ONLINE_LOCAL"
           THEN R([s EXCEPT !.ctl = "ONLINE_REMOTE", !.sub = "REMOTE"], O(<<>>, Ces(s, <<3>>), FALSE, FALSE, "ONLINE_REMOTE"))
           ELSE Refuse(s)
    [] i.k = "S1F15" ->
         IF Online(s) THEN R([s EXCEPT !.ctl = "HOST_OFFLINE"], O(<<[f |-> 16, ack |-> 0]>>, Ces(s, <<1>>), FALSE, FALSE, "HOST_OFFLINE"))
         ELSE R(s, O(<<[f |-> 16, ack |-> 0]>>, <<>>, FALSE, FALSE, s.ctl))
    [] i.k = "S1F17" ->
         CASE s.ctl = "HOST_OFFLINE" ->
                R([s EXCEPT !.ctl = OnlineOf(s.sub)], O(<<[f |-> 18, ack |-> 0]>>, Ces(s, <<CeOf(s.sub)>>), FALSE, FALSE, OnlineOf(s.sub)))
           [] Online(s) -> R(s, O(<<[f |-> 18, ack |-> 2]>>, <<>>, FALSE, FALSE, s.ctl))
           [] OTHER -> R(s, O(<<[f |-> 18, ack |-> 1]>>, <<>>, FALSE, FALSE, s.ctl))
    [] i.k = "ReadSV" -> Same(s)
    [] i.k = "EnableCE" -> Same([s EXCEPT !.ce = TRUE])
    [] i.k = "DisableCE" -> Same([s EXCEPT !.ce = FALSE])
=============================================================================
