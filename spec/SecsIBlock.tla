------------------------------ MODULE SecsIBlock ----------------------------
(* SEMI E4 (SECS-I) block format, written from the standard -- reference for C16.                  *)
(*   block = length byte (10 + n) | 10 header bytes | n <= 244 data bytes | 2 checksum bytes          *)
(*   header: R-bit|device id (15 bit), W-bit|stream (7 bit), function, E-bit|block number (15 bit),    *)
(*           4 system bytes;  checksum = sum of header and data bytes mod 2^16, big endian            *)
(*   a message body of n bytes is sent as max(1, ceil(n / 244)) blocks numbered from 1, E-bit on the   *)
(*   last one, all other header fields equal.                                                        *)
EXTENDS Naturals, Sequences, FiniteSets, TLC

BlockSize == 244
Hdr(h) == <<(IF h.r THEN 128 ELSE 0) + h.dev \div 256, h.dev % 256, (IF h.w THEN 128 ELSE 0) + h.s, h.f,
            (IF h.e THEN 128 ELSE 0) + h.blk \div 256, h.blk % 256>> \o h.sys
RECURSIVE SumSeq(_, _)
SumSeq(q, n) == IF n = 0 THEN 0 ELSE (q[n] + SumSeq(q, n - 1)) % 65536
Sum(q) == SumSeq(q, Len(q))
EncodeBlock(h, data) == LET p == Hdr(h) \o data c == Sum(p) IN <<Len(p)>> \o p \o <<c \div 256, c % 256>>

NBlocks(n) == IF n = 0 THEN 1 ELSE (n + BlockSize - 1) \div BlockSize
BlockData(body, i) == SubSeq(body, (i - 1) * BlockSize + 1, IF i * BlockSize < Len(body) THEN i * BlockSize ELSE Len(body))
BlockHdr(h, n, i) == [h EXCEPT !.blk = i, !.e = (i = NBlocks(n))]
Split(h, body) == [i \in 1..NBlocks(Len(body)) |-> EncodeBlock(BlockHdr(h, Len(body), i), BlockData(body, i))]

(* decode: [ok, h, data]; not ok when the length byte or the checksum does not fit                   *)
DecodeBlock(b) ==
  IF Len(b) < 13 \/ b[1] # Len(b) - 3 \/ b[1] < 10 THEN [ok |-> FALSE]
  ELSE LET p == SubSeq(b, 2, Len(b) - 2)
           c == b[Len(b) - 1] * 256 + b[Len(b)]
       IN IF Sum(p) # c THEN [ok |-> FALSE]
          ELSE [ok |-> TRUE,
                h |-> [r |-> p[1] >= 128, dev |-> (p[1] % 128) * 256 + p[2], w |-> p[3] >= 128, s |-> p[3] % 128, f |-> p[4],
                       e |-> p[5] >= 128, blk |-> (p[5] % 128) * 256 + p[6], sys |-> SubSeq(p, 7, 10)],
                data |-> SubSeq(p, 11, Len(p))]

RECURSIVE Flat(_)
Flat(qq) == IF Len(qq) = 0 THEN <<>> ELSE IF Len(qq) = 1 THEN qq[1]
            ELSE LET k == Len(qq) \div 2 IN Flat(SubSeq(qq, 1, k)) \o Flat(SubSeq(qq, k + 1, Len(qq)))
Join(blocks) == LET d == [i \in 1..Len(blocks) |-> DecodeBlock(blocks[i])]
                    allok == \A i \in 1..Len(blocks) : (d[i].ok /\ d[i].h.blk = i /\ (d[i].h.e <=> (i = Len(blocks))))
                IN [ok |-> allok,
                    h |-> d[Len(blocks)].h, body |-> Flat([i \in 1..Len(blocks) |-> d[i].data])]

Pattern(n) == [i \in 1..n |-> (i * 11 + 5) % 253]
SplitJoin(h, body) == LET j == Join(Split(h, body)) IN
                      j.ok /\ j.body = body /\ [j.h EXCEPT !.blk = 0, !.e = FALSE] = [h EXCEPT !.blk = 0, !.e = FALSE]

(* single-byte corruptions of an encoded block                                                        *)
Corruptions(b) == UNION {{[b EXCEPT ![i] = x] : x \in {(b[i] + 1) % 256, (b[i] + 128) % 256, 0, 255}} : i \in 1..Len(b)} \ {b}
=============================================================================
