----------------------------- MODULE ClockJudge ------------------------------
(* C13, predefined status variable Clock (S1F3 on SVID 1001): its current value is the current time, written as   *)
(* the TIME data item of SEMI E5 in the format selected by the equipment constant TimeFormat:                     *)
(*   0  YYMMDDhhmmss (12 characters)     1  YYYYMMDDhhmmsscc (16 characters, cc = centiseconds, zero padded)      *)
(*   2  ISO 8601 (parsed by the harness with the standard library; the judge compares the instant)                *)
(* TRACE_FILE: JSON array of samples [id, fmt, txt : Seq(character codes), win : Seq(<<date, cs, date, cs>>),      *)
(*   iso : <<date, cs>>]  -- win: the windows (lower and upper bound, date as YYYYMMDD, cs = centiseconds of the    *)
(*   day) in which the request was served: the instant the equipment's clock was frozen at, and -- should the      *)
(*   equipment read another clock -- the harness' wall clock before and after the request.                        *)
EXTENDS Naturals, Sequences, TLC, Json, IOUtils
Samples == JsonDeserialize(IOEnv.TRACE_FILE)

RECURSIVE Val(_, _, _)
Val(q, a, b) == IF b < a THEN 0 ELSE Val(q, a, b - 1) * 10 + (q[b] - 48)
Digits(q) == \A i \in 1..Len(q) : q[i] \in 48..57
Le(a, b) == a[1] < b[1] \/ (a[1] = b[1] /\ a[2] <= b[2])
In(t, w, unit) == Le(<<w[1], w[2] \div unit>>, t) /\ Le(t, <<w[3], w[4] \div unit>>)
InSome(t, ws, unit) == \E i \in 1..Len(ws) : In(t, ws[i], unit)
Fields(hh, mm, ss) == hh < 24 /\ mm < 60 /\ ss < 60

Clause(s) ==
  CASE s.fmt = 0 ->
         IF Len(s.txt) # 12 THEN "clock-text-is-not-12-characters"
         ELSE IF ~Digits(s.txt) THEN "clock-text-is-not-numeric"
         ELSE LET hh == Val(s.txt, 7, 8) mm == Val(s.txt, 9, 10) ss == Val(s.txt, 11, 12)
                  t == <<20000000 + Val(s.txt, 1, 6), (hh * 60 + mm) * 60 + ss>>
              IN IF ~Fields(hh, mm, ss) THEN "clock-field-out-of-range"
                 ELSE IF InSome(t, s.win, 100) THEN "ok" ELSE "clock-is-not-the-current-time"
    [] s.fmt = 1 ->
         IF Len(s.txt) # 16 THEN "clock-text-is-not-16-characters"
         ELSE IF ~Digits(s.txt) THEN "clock-text-is-not-numeric"
         ELSE LET hh == Val(s.txt, 9, 10) mm == Val(s.txt, 11, 12) ss == Val(s.txt, 13, 14)
                  t == <<Val(s.txt, 1, 8), ((hh * 60 + mm) * 60 + ss) * 100 + Val(s.txt, 15, 16)>>
              IN IF ~Fields(hh, mm, ss) THEN "clock-field-out-of-range"
                 ELSE IF InSome(t, s.win, 1) THEN "ok" ELSE "clock-is-not-the-current-time"
    [] OTHER ->
         IF s.iso[1] = 0 THEN "clock-text-is-not-iso-8601"
         ELSE IF InSome(s.iso, s.win, 1) THEN "ok" ELSE "clock-is-not-the-current-time"

ASSUME \A n \in 1..Len(Samples) : PrintT(<<"V", ToJson([id |-> Samples[n].id, clause |-> Clause(Samples[n])])>>)
=============================================================================
