--------------------------- MODULE E30ControlJudge --------------------------
(* Trace validation for C11: fold the deterministic monitor over recorded equipment executions.    *)
(* TRACE_FILE: JSON array of [id, initial, sub, start : ctl observed after start,                    *)
(*                           steps : Seq([inp, obs : [reply, ces, probe, raised, sv, ctl]])]          *)
EXTENDS E30ControlMon, Json, IOUtils, FiniteSets
Traces == JsonDeserialize(IOEnv.TRACE_FILE)

SeqBag(q) == [x \in {q[i] : i \in 1..Len(q)} |-> Cardinality({i \in 1..Len(q) : q[i] = x})]
Norm(q) == [i \in 1..Len(q) |-> [f |-> q[i].f, ack |-> q[i].ack]]

Clause(e, obs) ==
  IF Norm(obs.reply) # e.out.reply THEN "reply-or-acknowledge-code"
  ELSE IF obs.raised # e.out.raised THEN "operator-call-refusal"
  ELSE IF obs.ctl # e.s.ctl THEN "control-state"
  ELSE IF SeqBag(obs.ces) # SeqBag(e.out.ces) THEN "collection-events"
  ELSE IF obs.probe # e.out.probe THEN "attempt-online-probe"
  ELSE IF obs.sv # e.out.sv THEN "control-state-status-variable"
  ELSE "ok"

RECURSIVE Run(_, _, _)
Run(s, steps, l) ==
  IF l > Len(steps) THEN [at |-> 0, clause |-> "ok", exp |-> <<>>]
  ELSE IF ~Enabled(s, steps[l].inp) THEN [at |-> l, clause |-> "harness-input-not-enabled", exp |-> <<s>>]
  ELSE LET e == Eff(s, steps[l].inp)
           c == Clause(e, steps[l].obs)
       IN IF c = "ok" THEN Run(e.s, steps, l + 1) ELSE [at |-> l, clause |-> c, exp |-> <<e.out, e.s>>]

ASSUME \A n \in 1..Len(Traces) :
         LET t == Traces[n]
             s0 == Start(t.initial, t.sub)
             v == IF t.start # s0.ctl THEN [at |-> 0, clause |-> "initial-control-state", exp |-> <<s0>>]
                  ELSE Run(s0, t.steps, 1)
         IN PrintT(<<"V", ToJson([id |-> t.id, at |-> v.at, clause |-> v.clause, exp |-> v.exp])>>)
=============================================================================
