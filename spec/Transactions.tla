----------------------------- MODULE Transactions ---------------------------
(* C06: implementation-shaped model of the transaction layer                                    *)
(* (secsgem/common/protocol.py, protocol_dispatcher.py, hsms/protocol.py).                      *)
(* Processes: caller threads (send_and_waitfor_response), the peer, dispatcher thread(s).        *)
(*   AtomicCounter    = FALSE : get_next_system_counter as originally coded (increment and the   *)
(*                              later read of the attribute are separate steps)                  *)
(*   SingleDispatcher = FALSE : ProtocolDispatcher.start() creates another dispatcher thread on  *)
(*                              every connection while the old one is never stopped              *)
(* The TRUE/TRUE configuration is the code after the fix: commits; the other two are regression  *)
(* witnesses that TLC has to refute.  LateReplies = TRUE lets the peer answer requests whose      *)
(* caller already gave up (multiplies the state space; small NC in the quick tier).               *)
(*   SecondaryOnly    = FALSE : routing as originally coded: any inbound data message whose system *)
(*                              bytes equal those of an open request is put into that request's     *)
(*                              response queue -- also a PRIMARY of the peer (PeerCollide): system    *)
(*                              bytes are unique per originator only (E5 / E37), the peer's counter   *)
(*                              may coincide with ours.  TRUE: after fix: only a secondary is a reply. *)
EXTENDS Naturals, Sequences, FiniteSets, TLC

CONSTANTS AtomicCounter, SingleDispatcher, LateReplies, SecondaryOnly, NC, NU, M, MaxConn

Callers == 1..NC
Disp == 1..2

VARIABLES ctr,      \* Protocol._system_counter (mod M)
          pc,       \* pc[c] of caller c
          sys,      \* system bytes obtained by caller c
          got,      \* result of caller c: 0 = none/timeout, else the caller whose request the reply answers
          reg,      \* registered response queues: set of system values
          rq,       \* rq[s] : sequence of replies put into the queue for system s
          wire,     \* requests received by the peer and not yet answered: set of [sys, c]
          dispq,    \* ProtocolDispatcher._dispatch_queue
          alive,    \* set of dispatcher threads that exist
          dpc, dmsg,\* per dispatcher: pc and the message taken
          applog,   \* ids handed to the application, in order
          busy,     \* dispatchers currently inside the application hand-over
          nextU,    \* next unsolicited message id the peer will send
          conn,     \* number of connections so far
          late      \* callers whose request timed out and was answered afterwards all the same

vars == <<ctr, pc, sys, got, reg, rq, wire, dispq, alive, dpc, dmsg, applog, busy, nextU, conn, late>>

Init == /\ ctr \in 0..(M-1)
        /\ pc = [c \in Callers |-> "idle"] /\ sys = [c \in Callers |-> 0] /\ got = [c \in Callers |-> 0]
        /\ reg = {} /\ rq = [s \in 0..(M-1) |-> <<>>] /\ wire = {} /\ dispq = <<>>
        /\ alive = {1} /\ dpc = [d \in Disp |-> "idle"] /\ dmsg = [d \in Disp |-> [k |-> "none"]]
        /\ applog = <<>> /\ busy = {} /\ nextU = 1 /\ conn = 1 /\ late = {}

(* ---- caller: system_id = self.get_next_system_counter()                                      *)
CallInc(c) == /\ pc[c] = "idle"
              /\ ctr' = (ctr + 1) % M
              /\ IF AtomicCounter
                   THEN /\ sys' = [sys EXCEPT ![c] = (ctr + 1) % M] /\ pc' = [pc EXCEPT ![c] = "reg"]
                   ELSE /\ pc' = [pc EXCEPT ![c] = "read"] /\ UNCHANGED sys
              /\ UNCHANGED <<got, reg, rq, wire, dispq, alive, dpc, dmsg, applog, busy, nextU, conn, late>>
CallRead(c) == /\ pc[c] = "read"                         \* return self._system_counter
               /\ sys' = [sys EXCEPT ![c] = ctr] /\ pc' = [pc EXCEPT ![c] = "reg"]
               /\ UNCHANGED <<ctr, got, reg, rq, wire, dispq, alive, dpc, dmsg, applog, busy, nextU, conn, late>>
CallRegister(c) == /\ pc[c] = "reg"                      \* self._response_queues[system_id] = Queue()
                   /\ reg' = reg \cup {sys[c]} /\ rq' = [rq EXCEPT ![sys[c]] = <<>>]
                   /\ pc' = [pc EXCEPT ![c] = "send"]
                   /\ UNCHANGED <<ctr, sys, got, wire, dispq, alive, dpc, dmsg, applog, busy, nextU, conn, late>>
CallSend(c) == /\ pc[c] = "send"                         \* send_message (block written by the receiver thread)
               /\ wire' = wire \cup {[sys |-> sys[c], c |-> c]}
               /\ pc' = [pc EXCEPT ![c] = "wait"]
               /\ UNCHANGED <<ctr, sys, got, reg, rq, dispq, alive, dpc, dmsg, applog, busy, nextU, conn, late>>
CallGot(c) == /\ pc[c] = "wait" /\ rq[sys[c]] # <<>>     \* response_queue.get(); _remove_queue
              /\ got' = [got EXCEPT ![c] = Head(rq[sys[c]])]
              /\ rq' = [rq EXCEPT ![sys[c]] = Tail(@)]
              /\ reg' = reg \ {sys[c]}
              /\ pc' = [pc EXCEPT ![c] = "done"]
              /\ UNCHANGED <<ctr, sys, wire, dispq, alive, dpc, dmsg, applog, busy, nextU, conn, late>>
CallTimeout(c) == /\ pc[c] = "wait" /\ rq[sys[c]] = <<>>  \* T3 expired: queue.Empty; _remove_queue
                  /\ reg' = reg \ {sys[c]}
                  /\ pc' = [pc EXCEPT ![c] = "done"]
                  /\ wire' = {w \in wire : w.c # c}        \* the peer will not answer it any more (late replies: TxMon)
                  /\ UNCHANGED <<ctr, sys, got, rq, dispq, alive, dpc, dmsg, applog, busy, nextU, conn, late>>

(* ---- peer                                                                                    *)
PeerReply(w) == /\ w \in wire
                /\ wire' = wire \ {w}
                /\ dispq' = Append(dispq, [k |-> "reply", sys |-> w.sys, for |-> w.c])
                /\ UNCHANGED <<ctr, pc, sys, got, reg, rq, alive, dpc, dmsg, applog, busy, nextU, conn, late>>
(* an answer to a request whose caller gave up (T3): for the transaction layer it is an inbound message nobody  *)
(* waits for -- unless the system bytes are in use again                                                    *)
PeerLateReply(s, c) == /\ pc[c] = "done" /\ got[c] = 0 /\ sys[c] = s /\ c \notin late
                       /\ late' = late \cup {c}
                       /\ dispq' = Append(dispq, [k |-> "reply", sys |-> s, for |-> c])
                       /\ UNCHANGED <<ctr, pc, sys, got, reg, rq, wire, alive, dpc, dmsg, applog, busy, nextU, conn>>
PeerUnsol == /\ nextU <= NU
             /\ dispq' = Append(dispq, [k |-> "unsol", id |-> nextU, sys |-> M])       \* M: system bytes nobody here uses
             /\ nextU' = nextU + 1
             /\ UNCHANGED <<ctr, pc, sys, got, reg, rq, wire, alive, dpc, dmsg, applog, busy, conn, late>>
(* a primary of the peer whose system bytes (the peer's own numbering) coincide with a request that is open here *)
PeerCollide(c) == /\ nextU <= NU /\ pc[c] # "idle"
                  /\ dispq' = Append(dispq, [k |-> "unsol", id |-> nextU, sys |-> sys[c]])
                  /\ nextU' = nextU + 1
                  /\ UNCHANGED <<ctr, pc, sys, got, reg, rq, wire, alive, dpc, dmsg, applog, busy, conn, late>>
Reconnect == /\ conn < MaxConn
             /\ conn' = conn + 1
             /\ wire' = {}                                  \* requests in flight are lost with the link
             /\ alive' = IF SingleDispatcher THEN alive ELSE alive \cup {conn + 1}
             /\ UNCHANGED <<ctr, pc, sys, got, reg, rq, dispq, dpc, dmsg, applog, busy, nextU, late>>

(* ---- dispatcher thread(s)                                                                     *)
DtTake(d) == /\ d \in alive /\ dpc[d] = "idle" /\ dispq # <<>>
             /\ dmsg' = [dmsg EXCEPT ![d] = Head(dispq)] /\ dispq' = Tail(dispq)
             /\ dpc' = [dpc EXCEPT ![d] = "took"]
             /\ UNCHANGED <<ctr, pc, sys, got, reg, rq, wire, alive, applog, busy, nextU, conn, late>>
DtRoute(d) == /\ dpc[d] = "took"
              /\ IF (dmsg[d].k = "reply" \/ ~SecondaryOnly) /\ dmsg[d].sys \in reg
                   THEN /\ rq' = [rq EXCEPT ![dmsg[d].sys] = Append(@, IF dmsg[d].k = "reply" THEN dmsg[d].for ELSE NC + dmsg[d].id)]
                        /\ dpc' = [dpc EXCEPT ![d] = "idle"]
                        /\ UNCHANGED <<applog, busy>>
                   ELSE IF dmsg[d].k = "unsol"
                          THEN /\ applog' = Append(applog, dmsg[d].id) /\ busy' = busy \cup {d}
                               /\ dpc' = [dpc EXCEPT ![d] = "deliver"] /\ UNCHANGED rq
                          ELSE \* reply nobody waits for: handed to the application as well (occupies the dispatcher)
                               /\ busy' = busy \cup {d} /\ dpc' = [dpc EXCEPT ![d] = "deliver"] /\ UNCHANGED <<rq, applog>>
              /\ UNCHANGED <<ctr, pc, sys, got, reg, wire, dispq, alive, dmsg, nextU, conn, late>>
DtDeliverEnd(d) == /\ dpc[d] = "deliver"
                   /\ busy' = busy \ {d} /\ dpc' = [dpc EXCEPT ![d] = "idle"]
                   /\ UNCHANGED <<ctr, pc, sys, got, reg, rq, wire, dispq, alive, dmsg, applog, nextU, conn, late>>

DoCallInc == \E c \in Callers : CallInc(c)
DoCallRead == \E c \in Callers : CallRead(c)
DoCallRegister == \E c \in Callers : CallRegister(c)
DoCallSend == \E c \in Callers : CallSend(c)
DoCallGot == \E c \in Callers : CallGot(c)
DoCallTimeout == \E c \in Callers : CallTimeout(c)
DoPeerReply == \E w \in wire : PeerReply(w)
DoPeerLateReply == LateReplies /\ \E c \in Callers : PeerLateReply(sys[c], c)
DoPeerCollide == \E c \in Callers : PeerCollide(c)
DoDtTake == \E d \in Disp : DtTake(d)
DoDtRoute == \E d \in Disp : DtRoute(d)
DoDtDeliverEnd == \E d \in Disp : DtDeliverEnd(d)

Next == DoCallInc \/ DoCallRead \/ DoCallRegister \/ DoCallSend \/ DoCallGot \/ DoCallTimeout \/ DoPeerReply \/ DoPeerLateReply
        \/ PeerUnsol \/ DoPeerCollide \/ Reconnect \/ DoDtTake \/ DoDtRoute \/ DoDtDeliverEnd

Spec == Init /\ [][Next]_vars

(* ---- the property                                                                             *)
Outstanding(c) == pc[c] \in {"reg", "send", "wait"}
DistinctOutstanding == \A a, b \in Callers : (a # b /\ Outstanding(a) /\ Outstanding(b)) => sys[a] # sys[b]
OwnReplyOnly == \A c \in Callers : (pc[c] = "done" /\ got[c] # 0) => got[c] = c
OneAtATime == Cardinality(busy) <= 1
InOrderOnce == applog = [i \in 1..Len(applog) |-> i]
(* an inbound message that is not a reply is on its way to the application, never in a caller's queue                *)
QIds == {dispq[i].id : i \in {j \in 1..Len(dispq) : dispq[j].k = "unsol"}}
NothingSwallowed == \A i \in 1..(nextU - 1) :
                      \/ \E j \in 1..Len(applog) : applog[j] = i
                      \/ i \in QIds
                      \/ \E d \in Disp : dpc[d] = "took" /\ dmsg[d].k = "unsol" /\ dmsg[d].id = i
=============================================================================
