------------------------------ MODULE ReplyJudge ----------------------------
(* TLC judges every (inbound message, outbound messages with its system bytes) pair recorded     *)
(* from real host / equipment handlers.  TRACE_FILE: JSON array of [id, m, echo].                *)
EXTENDS ReplyMon, Json, IOUtils

Recs == JsonDeserialize(IOEnv.TRACE_FILE)
Norm(q) == [i \in 1..Len(q) |-> Rep(q[i].s, q[i].f, q[i].hdr)]

ASSUME \A n \in 1..Len(Recs) :
         LET v == Verdict(Recs[n].m, Norm(Recs[n].echo))
         IN IF v = "ok" THEN TRUE ELSE PrintT(<<"V", ToJson([id |-> Recs[n].id, clause |-> v])>>)
ASSUME PrintT(<<"N", ToJson([n |-> Len(Recs)])>>)
=============================================================================
