--------------------------- MODULE TcpReceiverStop ---------------------------
(* C09 (after a link loss / disable() the endpoint accepts a new connection and keeps it): the stop-flag handshake between     *)
(* TcpConnection.disconnect() (application thread, from disable()) and the connection's receiver thread                        *)
(* (secsgem/common/tcp_connection.py), one action per access to _thread_running / _stop_thread / the socket.                    *)
(*   receiver thread   _thread_running = True; loop until _stop_thread (the peer's close sets it as well); close handling;        *)
(*                     _connected = False; _thread_running = False; _stop_thread = False                                         *)
(*   disconnect()      if not _thread_running: return; _disconnecting = True; _stop_thread = True; wait until not _thread_running *)
(*   next connection   (after enable()) accepted by the server thread, which starts the next receiver thread                     *)
(*   ResetAtStart = FALSE : as originally coded.  disconnect() can read _thread_running = True while the thread is already in its  *)
(*     close handling (the peer closed first) and set _stop_thread AFTER the thread cleared it for the last time: the flag stays    *)
(*     set, and the receiver thread of the NEXT connection leaves its loop at once -- the new connection is accepted and closed     *)
(*     by the endpoint itself.  Regression witness.  TRUE: after fix: a receiver thread clears the flag when it starts.              *)
(*   RunningLast = FALSE : as originally coded the thread clears _stop_thread AFTER _thread_running: disconnect() may return, the     *)
(*     next connection start and a second disable() set the flag before that last write, which then erases the stop request           *)
(*     (lingering): the second disable() never returns.  TRUE: after fix: _thread_running = False is the thread's last write.          *)
EXTENDS Naturals, TLC
CONSTANTS ResetAtStart, RunningLast

VARIABLES gen,       \* number of the connection the endpoint is serving (1, 2)
          rt,        \* receiver thread pc: "none" | "start" | "loop" | "closing" | "c1" | "c2" | "c3" | "ended"
          running, stop,
          peer,      \* the peer of the current connection: "open" | "closed"
          app,       \* application thread: "idle" | "d2" | "d3" | "wait" | "enabled" (disable() returned, enable() called) | "off"
          asked,     \* the application asked to close the second connection (disable())
          lingering, \* the receiver thread of the first connection still has to execute its last write "_stop_thread = False"
          dropped    \* the endpoint closed a connection although neither the peer closed it nor the application asked for it
vars == <<gen, rt, running, stop, peer, app, asked, lingering, dropped>>

Init == gen = 1 /\ rt = "start" /\ running = FALSE /\ stop = FALSE /\ peer = "open" /\ app = "idle" /\ asked = FALSE /\ lingering = FALSE /\ dropped = FALSE

(* ---- receiver thread of connection gen                                                                              *)
RStart == /\ rt = "start"
          /\ stop' = (IF ResetAtStart THEN FALSE ELSE stop) /\ running' = TRUE /\ rt' = "loop"
          /\ UNCHANGED <<gen, peer, app, asked, lingering, dropped>>
RLoop == /\ rt = "loop"
         /\ IF stop THEN /\ rt' = "closing"
                         \* leaving the loop of the second connection: nobody asked for it and the peer is still there
                         /\ dropped' = (dropped \/ (gen = 2 /\ peer = "open" /\ ~asked))
                         /\ UNCHANGED stop
            ELSE IF peer = "closed" THEN stop' = TRUE /\ rt' = "loop" /\ UNCHANGED dropped      \* recv returned no data
            ELSE UNCHANGED <<rt, stop, lingering, dropped>>
         /\ UNCHANGED <<gen, running, peer, app, asked, lingering>>
RClose == rt = "closing" /\ rt' = "c1" /\ UNCHANGED <<gen, running, stop, peer, app, asked, lingering, dropped>>      \* events, socket.close()
RC1 == rt = "c1" /\ rt' = "c2" /\ UNCHANGED <<gen, running, stop, peer, app, asked, lingering, dropped>>               \* _connected = False
RC2 == /\ rt = "c2" /\ rt' = "c3"
       /\ IF RunningLast THEN stop' = FALSE /\ UNCHANGED running ELSE running' = FALSE /\ UNCHANGED stop
       /\ UNCHANGED <<gen, peer, app, asked, lingering, dropped>>
RC3 == /\ rt = "c3" /\ rt' = "ended"
       /\ IF RunningLast THEN running' = FALSE /\ UNCHANGED stop ELSE stop' = FALSE /\ UNCHANGED running
       /\ UNCHANGED <<gen, peer, app, asked, lingering, dropped>>
(* the last write of the first connection's thread, after the second connection's thread has started (only when that write is not "running") *)
Linger == /\ lingering /\ lingering' = FALSE /\ stop' = FALSE
          /\ UNCHANGED <<gen, rt, running, peer, app, asked, dropped>>

(* ---- peer of the first connection closes                                                                            *)
PeerCloses == gen = 1 /\ peer = "open" /\ peer' = "closed" /\ UNCHANGED <<gen, rt, running, stop, app, asked, lingering, dropped>>

(* ---- application: disable() -> disconnect(), then enable()                                                          *)
D1 == /\ (app = "idle" /\ gen = 1) \/ (app = "enabled" /\ gen = 2)      \* a second disable() on the new connection
      /\ app' = (IF running THEN "d2" ELSE IF gen = 1 THEN "enabled" ELSE "off")          \* if not self._thread_running: return
      /\ UNCHANGED <<gen, rt, running, stop, peer, asked, lingering, dropped>>
D2 == app = "d2" /\ app' = "d3" /\ UNCHANGED <<gen, rt, running, stop, peer, asked, lingering, dropped>>          \* _disconnecting = True
D3 == app = "d3" /\ stop' = TRUE /\ app' = "wait" /\ asked' = (asked \/ gen = 2) /\ UNCHANGED <<gen, rt, running, peer, lingering, dropped>>
DWait == app = "wait" /\ ~running /\ app' = (IF gen = 1 THEN "enabled" ELSE "off") /\ UNCHANGED <<gen, rt, running, stop, peer, asked, lingering, dropped>>
(* enable(): the server thread accepts the next connection and starts its receiver thread                               *)
Accept2 == /\ app = "enabled" /\ gen = 1 /\ ~running /\ rt \in {"c3", "ended"}      \* the old thread is past "_thread_running = False"
           /\ gen' = 2 /\ peer' = "open" /\ rt' = "start"
           /\ lingering' = (rt = "c3")
           /\ UNCHANGED <<running, stop, app, asked, dropped>>

Next == RStart \/ RLoop \/ RClose \/ RC1 \/ RC2 \/ RC3 \/ Linger \/ PeerCloses \/ D1 \/ D2 \/ D3 \/ DWait \/ Accept2
Spec == Init /\ [][Next]_vars /\ WF_vars(RStart) /\ WF_vars(RLoop) /\ WF_vars(RClose) /\ WF_vars(RC1) /\ WF_vars(RC2) /\ WF_vars(RC3) /\ WF_vars(Linger)
        /\ WF_vars(D2) /\ WF_vars(D3) /\ WF_vars(DWait)

NewConnectionIsKept == ~dropped
DisconnectReturns == (app = "d2") ~> (app \in {"enabled", "off"})
=============================================================================
