------------------------------- MODULE Catalogue ----------------------------
(* C03: invariants of the stream/function catalogue.  CatalogueData (generated from the tree at check   *)
(* time by harness/catalogue.py) defines                                                              *)
(*   Py   : sequence of records read from the Python classes  [s, f, toHost, toEq, reply, replyReq, multi, shape]  *)
(*   Yaml : the same read from functions.yaml                                                          *)
(* shape is the structure of the message body as a string (canonical rendering of List/Array/leaf).      *)
EXTENDS CatalogueData, Naturals, Sequences, FiniteSets, TLC, Json

Idx(q) == 1..Len(q)
SF(r) == <<r.s, r.f>>
Find(q, s, f) == {i \in Idx(q) : q[i].s = s /\ q[i].f = f}

UniqueSF(q) == \A i, j \in Idx(q) : i # j => SF(q[i]) # SF(q[j])
TwoSourcesAgree ==
  /\ {SF(Py[i]) : i \in Idx(Py)} = {SF(Yaml[i]) : i \in Idx(Yaml)}
  /\ \A i \in Idx(Py) : \A j \in Find(Yaml, Py[i].s, Py[i].f) :
        /\ Py[i].toHost = Yaml[j].toHost /\ Py[i].toEq = Yaml[j].toEq /\ Py[i].reply = Yaml[j].reply
        /\ Py[i].replyReq = Yaml[j].replyReq /\ Py[i].multi = Yaml[j].multi /\ Py[i].shape = Yaml[j].shape

(* primary / secondary pairing                                                                          *)
PairOK(q, i) ==
  LET r == q[i] IN
     /\ r.replyReq => r.reply                                        \* a reply can only be required if one exists
     /\ r.reply => /\ r.f % 2 = 1                                    \* primaries are odd
                   /\ \E j \in Find(q, r.s, r.f + 1) :               \* the secondary exists in the same stream,
                        /\ ~q[j].reply                               \* is not itself expecting a reply,
                        /\ (r.toHost => q[j].toEq) /\ (r.toEq => q[j].toHost)   \* and travels the other way
     /\ (r.f = 0 => (~r.reply /\ r.shape = "none"))                  \* F0 aborts carry no data and expect no reply
     /\ (r.toHost \/ r.toEq)
     /\ r.s \in 0..127 /\ r.f \in 0..255
     /\ r.shape # "ERROR"
PairingOK(q) == \A i \in Idx(q) : PairOK(q, i)
BadPairs(q) == {SF(q[i]) : i \in {i \in Idx(q) : ~PairOK(q, i)}}

Violations ==
  (IF UniqueSF(Py) THEN {} ELSE {"python classes: S/F not unique"})
  \cup (IF UniqueSF(Yaml) THEN {} ELSE {"yaml: S/F not unique"})
  \cup (IF TwoSourcesAgree THEN {} ELSE {"python classes and functions.yaml disagree"})
  \cup (IF PairingOK(Py) THEN {} ELSE {"pairing/flags inconsistent in python classes"})
  \cup (IF PairingOK(Yaml) THEN {} ELSE {"pairing/flags inconsistent in yaml"})

Disagree == {SF(Py[i]) : i \in {i \in Idx(Py) : \E j \in Find(Yaml, Py[i].s, Py[i].f) : Py[i] # Yaml[j]}}

ASSUME PrintT(<<"CAT", ToJson([violations |-> Violations, n |-> Len(Py), disagree |-> Disagree, badpy |-> BadPairs(Py), badyaml |-> BadPairs(Yaml)])>>)
=============================================================================
