------------------------------- MODULE TxJudge ------------------------------
(* Trace validation for C06: fold TxMon over executions recorded from the real protocol layer.   *)
(* TRACE_FILE: JSON array of [id, ev : Seq(event)]                                               *)
EXTENDS TxMon, Json, IOUtils

Traces == JsonDeserialize(IOEnv.TRACE_FILE)

RECURSIVE Run(_, _, _)
Run(s, evs, l) ==
  IF l > Len(evs) THEN [at |-> 0, clause |-> Final(s)]
  ELSE LET r == Eff(s, evs[l])
       IN IF r.ok THEN Run(r.s, evs, l + 1) ELSE [at |-> l, clause |-> r.clause]

ASSUME \A n \in 1..Len(Traces) :
         LET v == Run(Init0, Traces[n].ev, 1)
         IN PrintT(<<"V", ToJson([id |-> Traces[n].id, at |-> v.at, clause |-> v.clause])>>)
=============================================================================
