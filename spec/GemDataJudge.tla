---------------------------- MODULE GemDataJudge ----------------------------
(* Trace validation for C13 (subset construction).  TRACE_FILE: JSON array of                      *)
(* [id, steps : Seq([inp, obs : [reply, s5f1, ec, al]])] ; ec / al = the equipment's tables after    *)
(* the step (constants' values, alarm enabled/set flags).                                          *)
EXTENDS GemDataMon, Json, IOUtils
Traces == JsonDeserialize(IOEnv.TRACE_FILE)

Matches(r, obs) ==
  /\ obs.reply = r.out.reply
  /\ obs.s5f1 = r.out.s5f1
  /\ \A e \in EC : obs.ec[e] = r.s.ec[e]
  /\ \A a \in AL : obs.al[a] = r.s.al[a]

Why(outs, obs) ==
  IF \A r \in outs : obs.reply # r.out.reply THEN "reply-content"
  ELSE IF \A r \in outs : obs.s5f1 # r.out.s5f1 THEN "alarm-report"
  ELSE IF \A r \in outs : \E e \in EC : obs.ec[e] # r.s.ec[e] THEN "constant-table"
  ELSE IF \A r \in outs : \E a \in AL : obs.al[a] # r.s.al[a] THEN "alarm-table"
  ELSE "combination"

RECURSIVE Run(_, _, _)
Run(S, steps, l) ==
  IF l > Len(steps) THEN [at |-> 0, clause |-> "ok", allowed |-> {}]
  ELSE LET outs == UNION {Eff(s, steps[l].inp) : s \in S}
           S2 == {r.s : r \in {r \in outs : Matches(r, steps[l].obs)}}
       IN IF S2 = {} THEN [at |-> l, clause |-> Why(outs, steps[l].obs), allowed |-> {r.out : r \in outs}]
          ELSE IF \E s \in S2 : ~EcWithinBounds(s) THEN [at |-> l, clause |-> "constant-outside-bounds", allowed |-> {}]
          ELSE Run(S2, steps, l + 1)

ASSUME \A n \in 1..Len(Traces) :
         LET v == Run({S0}, Traces[n].steps, 1)
         IN PrintT(<<"V", ToJson([id |-> Traces[n].id, at |-> v.at, clause |-> v.clause, allowed |-> v.allowed])>>)
=============================================================================
