--------------------------------- MODULE Sfdl -------------------------------
(* C19: the function structure definition language as documented in docs/firststeps/sfdl.md.           *)
(* A definition tree is an item [k |-> "item", name] or a list [k |-> "list", name ("-" = unnamed), kids].  *)
(* Shape(t) is the documented meaning:                                                                  *)
(*   item            -> [k |-> "item", key |-> NAME, name |-> NAME]                                         *)
(*   list, 1 member  -> [k |-> "array", key, elem]   (open list; holds any number of elem)                    *)
(*   list, >= 2      -> [k |-> "record", key, fields] (keyed by the members' keys, in order)                   *)
(*   key of a member: an item's name; an unnamed open list of a single data item takes that item's name;     *)
(*   any other unnamed list is "DATA"; a name after the L tag overrides the key and nothing else.           *)
EXTENDS Naturals, Sequences, FiniteSets, TLC, Json

Items == {"SVID", "UNITS", "RPTID", "ALCD"}
Unknown == "NOSUCHITEM"
Names == {"-", "NAMED", "DATA", "nAmed"}      \* "DATA" is also the default key: an explicit name equal to a default must still be honoured;
                                              \* the name after the L tag is the key as written (mixed case: no folding)

Item(n) == [k |-> "item", name |-> n, kids |-> <<>>]
List(n, kids) == [k |-> "list", name |-> n, kids |-> kids]

RECURSIVE Shape(_)
KeyOf(t) == IF t.k = "item" THEN t.name
            ELSE IF t.name # "-" THEN t.name
            ELSE IF Len(t.kids) = 1 /\ t.kids[1].k = "item" THEN t.kids[1].name
            ELSE "DATA"
Shape(t) == IF t.k = "item" THEN [k |-> "item", key |-> t.name, sub |-> <<>>]
            ELSE IF Len(t.kids) = 1 THEN [k |-> "array", key |-> KeyOf(t), sub |-> <<Shape(t.kids[1])>>]
            ELSE [k |-> "record", key |-> KeyOf(t), sub |-> [i \in 1..Len(t.kids) |-> Shape(t.kids[i])]]

RECURSIVE Tokens(_), TokensOf(_)
TokensOf(kids) == IF kids = <<>> THEN <<>> ELSE Tokens(Head(kids)) \o TokensOf(Tail(kids))
Tokens(t) == IF t.k = "item" THEN <<"<", t.name, ">">>
             ELSE <<"<", "L">> \o (IF t.name = "-" THEN <<>> ELSE <<t.name>>) \o TokensOf(t.kids) \o <<">">>

(* the document defines records only with distinct member keys                                         *)
RECURSIVE Defined(_)
Defined(t) == \/ t.k = "item"
              \/ /\ \A i \in 1..Len(t.kids) : Defined(t.kids[i])
                 /\ Len(t.kids) = 1 \/ \A i, j \in 1..Len(t.kids) : i # j => KeyOf(t.kids[i]) # KeyOf(t.kids[j])

Seqs(S, n) == UNION {[1..m -> S] : m \in 1..n}
T1 == {Item(n) : n \in Items}
L2 == {List(nm, q) : nm \in Names, q \in Seqs(T1, 3)}
L2s == {List(nm, q) : nm \in Names, q \in Seqs(T1, 2)}
T2 == T1 \cup L2s
L3 == {List(nm, q) : nm \in Names, q \in Seqs(T2, 2)}
Defs == {t \in T1 \cup L2 \cup L3 : Defined(t)}

(* ---- definitions that must be rejected                                                               *)
DropAt(q, i) == SubSeq(q, 1, i - 1) \o SubSeq(q, i + 1, Len(q))
MissingClose(q) == {DropAt(q, i) : i \in {i \in 1..Len(q) : q[i] = ">"}}
UnknownItem(q) == {[q EXCEPT ![i] = Unknown] : i \in {i \in 1..Len(q) : q[i] \in Items}}

ASSUME \A t \in Defs : PrintT(<<"DEF", ToJson([toks |-> Tokens(t), shape |-> Shape(t)])>>)
ASSUME \A t \in L2 \cup {d \in L3 : d.name = "-"} :
         Defined(t) => PrintT(<<"REJ", ToJson([close |-> MissingClose(Tokens(t)), unknown |-> UnknownItem(Tokens(t))])>>)
(* sanity of the shape rules on the documented examples                                                   *)
ASSUME Shape(List("-", <<Item("SVID")>>)) = [k |-> "array", key |-> "SVID", sub |-> <<[k |-> "item", key |-> "SVID", sub |-> <<>>]>>]
ASSUME Shape(List("-", <<Item("RPTID"), List("NAMED", <<Item("SVID")>>)>>)).sub[2].k = "array"
ASSUME Shape(List("-", <<Item("RPTID"), List("NAMED", <<Item("SVID")>>)>>)).sub[2].key = "NAMED"
ASSUME Shape(List("-", <<Item("RPTID"), List("-", <<List("-", <<Item("SVID"), Item("UNITS")>>)>>)>>)).sub[2].key = "DATA"
=============================================================================
