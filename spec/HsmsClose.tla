------------------------------ MODULE HsmsClose -----------------------------
(* C09: implementation-shaped model of the HSMS receive path and the close sequence.            *)
(* Threads as processes (anchors: secsgem/common/tcp_connection.py, protocol_dispatcher.py,     *)
(* hsms/protocol.py):                                                                           *)
(*   ct  connection thread : read loop -> on_disconnecting (send Separate.req: enqueue + wait   *)
(*                           for the receiver thread to send it) -> close socket ->             *)
(*                           on_disconnected (state := NC; stop+join receiver; clear buffer)    *)
(*   rt  receiver thread   : wait trigger; process send queue; framing loop over the buffer     *)
(*   app application thread: disable() = ask ct to stop, wait until it has finished              *)
(* One unit = 2 bytes of a 4-byte length field; a frame is FS units, its length is known once   *)
(* LU units are buffered.  BlockingFraming = TRUE is the framing loop of the original code      *)
(* (ByteQueue.wait_for inside the loop); FALSE is the loop that returns on an incomplete frame. *)
EXTENDS Naturals, Sequences, TLC

CONSTANTS BlockingFraming, FS, LU, MaxUnits

VARIABLES peer,     \* units the peer will still send before it goes silent
          peerEnd,  \* what the peer does after that: "close" | "silent"
          wire,     \* units written by the peer, not yet read by ct
          eof,      \* peer closed its side
          rxbuf,    \* units in the receive buffer
          ct,       \* pc of the connection thread
          rt,       \* pc of the receiver thread
          trig,     \* receiver trigger event
          stop,     \* ProtocolDispatcher._stop_receiver_thread
          sendq,    \* number of blocks queued for sending
          sepSent,  \* the Separate.req block was resolved (sent or failed)
          cs,       \* connection state: "NS" (connected) | "NC"
          app,      \* pc of the application thread: "idle" | "disabling" | "returned"
          stopReq,  \* TcpConnection._stop_thread requested by disconnect()
          got       \* frames extracted

vars == <<peer, peerEnd, wire, eof, rxbuf, ct, rt, trig, stop, sendq, sepSent, cs, app, stopReq, got>>

Init == /\ peer \in 0..MaxUnits /\ peerEnd \in {"close", "silent"}
        /\ wire = 0 /\ eof = FALSE /\ rxbuf = 0
        /\ ct = "read" /\ rt = "wait" /\ trig = FALSE /\ stop = FALSE
        /\ sendq = 0 /\ sepSent = FALSE /\ cs = "NS" /\ app = "idle" /\ stopReq = FALSE /\ got = 0

(* ---- peer                                                                                   *)
PeerSend == /\ peer > 0 /\ ~eof
            /\ peer' = peer - 1 /\ wire' = wire + 1
            /\ UNCHANGED <<peerEnd, eof, rxbuf, ct, rt, trig, stop, sendq, sepSent, cs, app, stopReq, got>>
PeerClose == /\ peer = 0 /\ peerEnd = "close" /\ ~eof
             /\ eof' = TRUE
             /\ UNCHANGED <<peer, peerEnd, wire, rxbuf, ct, rt, trig, stop, sendq, sepSent, cs, app, stopReq, got>>

(* ---- application thread: handler.disable() -> connection.disconnect()                       *)
AppDisable == /\ app = "idle"
              /\ app' = "disabling" /\ stopReq' = TRUE
              /\ UNCHANGED <<peer, peerEnd, wire, eof, rxbuf, ct, rt, trig, stop, sendq, sepSent, cs, got>>
AppReturn == /\ app = "disabling" /\ ct = "done"
             /\ app' = "returned"
             /\ UNCHANGED <<peer, peerEnd, wire, eof, rxbuf, ct, rt, trig, stop, sendq, sepSent, cs, stopReq, got>>

(* ---- connection thread                                                                      *)
CtRead == /\ ct = "read" /\ wire > 0 /\ ~stopReq
          /\ \E k \in 1..wire : wire' = wire - k /\ rxbuf' = rxbuf + k
          /\ trig' = TRUE
          /\ UNCHANGED <<peer, peerEnd, eof, ct, rt, stop, sendq, sepSent, cs, app, stopReq, got>>
CtLeaveLoop == /\ ct = "read" /\ (stopReq \/ (eof /\ wire = 0))
               /\ ct' = "disconnecting"
               /\ UNCHANGED <<peer, peerEnd, wire, eof, rxbuf, rt, trig, stop, sendq, sepSent, cs, app, stopReq, got>>
\* on_disconnecting -> send_separate_req: enqueue block, trigger receiver, then wait for `sent`
CtSendSeparate == /\ ct = "disconnecting"
                  /\ sendq' = sendq + 1 /\ trig' = TRUE /\ ct' = "sepwait"
                  /\ UNCHANGED <<peer, peerEnd, wire, eof, rxbuf, rt, stop, sepSent, cs, app, stopReq, got>>
CtSepDone == /\ ct = "sepwait" /\ sepSent
             /\ ct' = "closesock"
             /\ UNCHANGED <<peer, peerEnd, wire, eof, rxbuf, rt, trig, stop, sendq, sepSent, cs, app, stopReq, got>>
CtCloseSock == /\ ct = "closesock"
               /\ ct' = "disc1" /\ wire' = 0
               /\ UNCHANGED <<peer, peerEnd, eof, rxbuf, rt, trig, stop, sendq, sepSent, cs, app, stopReq, got>>
\* on_disconnected: connection_state.disconnect()
CtDisc1 == /\ ct = "disc1"
           /\ cs' = "NC" /\ ct' = "disc2"
           /\ UNCHANGED <<peer, peerEnd, wire, eof, rxbuf, rt, trig, stop, sendq, sepSent, app, stopReq, got>>
\* ProtocolDispatcher.stop(): flag, trigger, join
CtDisc2 == /\ ct = "disc2"
           /\ stop' = TRUE /\ trig' = TRUE /\ ct' = "join"
           /\ UNCHANGED <<peer, peerEnd, wire, eof, rxbuf, rt, sendq, sepSent, cs, app, stopReq, got>>
CtJoined == /\ ct = "join" /\ rt = "stopped"
            /\ ct' = "clear"
            /\ UNCHANGED <<peer, peerEnd, wire, eof, rxbuf, rt, trig, stop, sendq, sepSent, cs, app, stopReq, got>>
CtClear == /\ ct = "clear"
           /\ rxbuf' = 0 /\ ct' = "done"
           /\ UNCHANGED <<peer, peerEnd, wire, eof, rt, trig, stop, sendq, sepSent, cs, app, stopReq, got>>

(* ---- receiver thread                                                                        *)
RtWake == /\ rt = "wait" /\ trig
          /\ trig' = FALSE
          /\ rt' = IF stop THEN "stopped" ELSE "send"
          /\ UNCHANGED <<peer, peerEnd, wire, eof, rxbuf, ct, stop, sendq, sepSent, cs, app, stopReq, got>>
RtSend == /\ rt = "send"
          /\ IF sendq > 0
               THEN /\ sendq' = sendq - 1 /\ sepSent' = TRUE /\ UNCHANGED rt
               ELSE /\ rt' = "frame" /\ UNCHANGED <<sendq, sepSent>>
          /\ UNCHANGED <<peer, peerEnd, wire, eof, rxbuf, ct, trig, stop, cs, app, stopReq, got>>
\* framing loop: needs LU units to know the length, FS units to take the frame
RtFrame == /\ rt = "frame"
           /\ IF rxbuf < LU
                THEN /\ rt' = "wait" /\ UNCHANGED <<rxbuf, got>>
                ELSE IF rxbuf >= FS
                       THEN /\ rxbuf' = rxbuf - FS /\ got' = got + 1 /\ UNCHANGED rt
                       ELSE IF BlockingFraming
                              THEN /\ rt' = "waitfor" /\ UNCHANGED <<rxbuf, got>>     \* ByteQueue.wait_for(length)
                              ELSE /\ rt' = "wait" /\ UNCHANGED <<rxbuf, got>>
           /\ UNCHANGED <<peer, peerEnd, wire, eof, ct, trig, stop, sendq, sepSent, cs, app, stopReq>>
RtWaitFor == /\ rt = "waitfor" /\ rxbuf >= FS
             /\ rt' = "frame"
             /\ UNCHANGED <<peer, peerEnd, wire, eof, rxbuf, ct, trig, stop, sendq, sepSent, cs, app, stopReq, got>>

Next == PeerSend \/ PeerClose \/ AppDisable \/ AppReturn \/ CtRead \/ CtLeaveLoop \/ CtSendSeparate \/ CtSepDone
        \/ CtCloseSock \/ CtDisc1 \/ CtDisc2 \/ CtJoined \/ CtClear \/ RtWake \/ RtSend \/ RtFrame \/ RtWaitFor

Fair == /\ WF_vars(CtRead) /\ WF_vars(CtLeaveLoop) /\ WF_vars(CtSendSeparate) /\ WF_vars(CtSepDone)
        /\ WF_vars(CtCloseSock) /\ WF_vars(CtDisc1) /\ WF_vars(CtDisc2) /\ WF_vars(CtJoined) /\ WF_vars(CtClear)
        /\ WF_vars(RtWake) /\ WF_vars(RtSend) /\ WF_vars(RtFrame) /\ WF_vars(RtWaitFor) /\ WF_vars(AppReturn)
        /\ WF_vars(PeerSend) /\ WF_vars(PeerClose)

Spec == Init /\ [][Next]_vars /\ Fair

(* ---- properties                                                                             *)
CloseStarted == ct # "read"
CleanWhenDone == ct = "done" => (cs = "NC" /\ rxbuf = 0 /\ rt = "stopped")
CloseFinishes == CloseStarted ~> (ct = "done")
PeerCloseLeadsToClosed == (eof /\ wire = 0) ~> (ct = "done")
DisableReturns == (app = "disabling") ~> (app = "returned")
NeverMoreFramesThanSent == got * FS <= MaxUnits
=============================================================================
