------------------------------- MODULE E5Item -------------------------------
(* SEMI E5 (SECS-II) item encoding, written from the standard -- the reference for C01/C02/C14.   *)
(*                                                                                              *)
(* An item is [f |-> format, v |-> value]:                                                       *)
(*   "L"        v = sequence of items                                                            *)
(*   "B"        v = sequence of bytes            "BOOLEAN"  v = sequence of BOOLEAN               *)
(*   "A"        v = sequence of character codes 0..255 (one byte each)                            *)
(*   "J"        v = sequence of Unicode code points, encoded with JIS X 0201 (JIS-8)              *)
(*   "I1".."I8","U1".."U8"  v = sequence of numbers [neg : BOOLEAN, mag : bytes of |x|, big endian, *)
(*              exactly n bytes]  (TLC integers are 32 bit, so magnitudes are kept as byte limbs;   *)
(*              two's complement is computed here)                                                *)
(*   "F4","F8"  v = sequence of IEEE-754 bit patterns, each a sequence of 4 / 8 bytes (the         *)
(*              value <-> bit pattern correspondence is the harness' struct module, see DESIGN)    *)
(* Encoding: format byte = code * 4 + number of length bytes (1..3, the fewest that hold the      *)
(* length), length = number of payload bytes (number of elements for a list), payload big endian. *)
EXTENDS Naturals, Sequences, FiniteSets, TLC

Code(f) == CASE f = "L" -> 0 [] f = "B" -> 8 [] f = "BOOLEAN" -> 9 [] f = "A" -> 16 [] f = "J" -> 17
             [] f = "I8" -> 24 [] f = "I1" -> 25 [] f = "I2" -> 26 [] f = "I4" -> 28
             [] f = "F8" -> 32 [] f = "F4" -> 36
             [] f = "U8" -> 40 [] f = "U1" -> 41 [] f = "U2" -> 42 [] f = "U4" -> 44
Formats == {"L", "B", "BOOLEAN", "A", "J", "I8", "I1", "I2", "I4", "F8", "F4", "U8", "U1", "U2", "U4"}
FormatOfCode(c) == CHOOSE f \in Formats : Code(f) = c
ValidCode(c) == \E f \in Formats : Code(f) = c
Width(f) == CASE f \in {"I1", "U1"} -> 1 [] f \in {"I2", "U2"} -> 2 [] f \in {"I4", "U4", "F4"} -> 4
              [] f \in {"I8", "U8", "F8"} -> 8 [] OTHER -> 1
Signed(f) == f \in {"I1", "I2", "I4", "I8"}
IsInt(f) == f \in {"I1", "I2", "I4", "I8", "U1", "U2", "U4", "U8"}
IsFloat(f) == f \in {"F4", "F8"}

MaxLen == 16777215
MinLB(n) == IF n <= 255 THEN 1 ELSE IF n <= 65535 THEN 2 ELSE 3
LenBytes(n, nlb) == CASE nlb = 1 -> <<n>>
                      [] nlb = 2 -> <<n \div 256, n % 256>>
                      [] nlb = 3 -> <<n \div 65536, (n \div 256) % 256, n % 256>>
Fits(n, nlb) == CASE nlb = 1 -> n <= 255 [] nlb = 2 -> n <= 65535 [] nlb = 3 -> n <= MaxLen
HeaderNLB(f, n, nlb) == <<Code(f) * 4 + nlb>> \o LenBytes(n, nlb)
Header(f, n) == HeaderNLB(f, n, MinLB(n))

RECURSIVE Flatten(_)
Flatten(qq) == IF Len(qq) = 0 THEN <<>>
               ELSE IF Len(qq) = 1 THEN qq[1]
               ELSE LET h == Len(qq) \div 2 IN Flatten(SubSeq(qq, 1, h)) \o Flatten(SubSeq(qq, h + 1, Len(qq)))
(* fixed-width elements: no recursion needed *)
FlatW(qq, w) == [i \in 1..(Len(qq) * w) |-> LET k == i - 1 IN (qq[(k \div w) + 1])[(k % w) + 1]]

(* ---- two's complement over byte limbs                                                         *)
Invert(q) == [i \in 1..Len(q) |-> 255 - q[i]]
RECURSIVE AddOne(_)
AddOne(q) == IF q = <<>> THEN <<>>
             ELSE LET n == Len(q) IN
                  IF q[n] < 255 THEN [q EXCEPT ![n] = q[n] + 1]
                  ELSE AddOne(SubSeq(q, 1, n - 1)) \o <<0>>
IsZero(q) == \A i \in 1..Len(q) : q[i] = 0
NumBytes(x) == IF x.neg /\ ~IsZero(x.mag) THEN AddOne(Invert(x.mag)) ELSE x.mag
FromBytes(f, q) == IF Signed(f) /\ q[1] >= 128
                     THEN [neg |-> TRUE, mag |-> AddOne(Invert(q))]
                     ELSE [neg |-> FALSE, mag |-> q]
(* does the number fit the format?  (unsigned: not negative; signed: magnitude <= 2^(8n-1), = only if negative) *)
InRange(f, x) == /\ Len(x.mag) = Width(f)
                 /\ IF Signed(f)
                      THEN \/ x.mag[1] < 128
                           \/ (x.neg /\ x.mag[1] = 128 /\ IsZero(SubSeq(x.mag, 2, Len(x.mag))))
                      ELSE ~x.neg \/ IsZero(x.mag)

(* ---- JIS X 0201: ASCII with yen / overline, half-width katakana in the upper half              *)
JisByte(cp) == CASE cp = 165 -> 92                 \* U+00A5 YEN SIGN
                 [] cp = 8254 -> 126               \* U+203E OVERLINE
                 [] cp >= 65377 /\ cp <= 65439 -> cp - 65377 + 161     \* U+FF61..U+FF9F -> A1..DF
                 [] cp < 128 /\ cp # 92 /\ cp # 126 -> cp
                 [] OTHER -> 999                   \* not representable
JisCp(b) == CASE b = 92 -> 165 [] b = 126 -> 8254 [] b >= 161 /\ b <= 223 -> b - 161 + 65377
              [] b < 128 -> b [] OTHER -> 99999
JisOK(q) == \A i \in 1..Len(q) : JisByte(q[i]) # 999

(* ---- encode                                                                                   *)
RECURSIVE Payload(_), Encode(_)
Payload(it) ==
  CASE it.f = "L" -> Flatten([i \in 1..Len(it.v) |-> Encode(it.v[i])])
    [] it.f \in {"B", "A"} -> it.v
    [] it.f = "J" -> [i \in 1..Len(it.v) |-> JisByte(it.v[i])]
    [] it.f = "BOOLEAN" -> [i \in 1..Len(it.v) |-> IF it.v[i] THEN 1 ELSE 0]
    [] IsInt(it.f) -> FlatW([i \in 1..Len(it.v) |-> NumBytes(it.v[i])], Width(it.f))
    [] IsFloat(it.f) -> FlatW(it.v, Width(it.f))
LengthField(it) == IF it.f = "L" THEN Len(it.v) ELSE Len(Payload(it))
Encode(it) == Header(it.f, LengthField(it)) \o Payload(it)
(* the same item with an explicit number of length bytes on the outermost header (C02)             *)
EncodeNLB(it, nlb) == HeaderNLB(it.f, LengthField(it), nlb) \o Payload(it)

(* ---- decode: [ok, item, next] -- position `next` is the first byte after the item              *)
Chunks(q, w) == [i \in 1..(Len(q) \div w) |-> SubSeq(q, (i - 1) * w + 1, i * w)]
Bad == [ok |-> FALSE, item |-> [f |-> "B", v |-> <<>>], next |-> 0]

RECURSIVE Decode(_, _), DecodeList(_, _, _, _)
Decode(b, pos) ==
  IF pos > Len(b) THEN Bad
  ELSE LET fb == b[pos]
           nlb == fb % 4
           code == fb \div 4
       IN IF nlb = 0 \/ ~ValidCode(code) \/ pos + nlb > Len(b) THEN Bad
          ELSE LET f == FormatOfCode(code)
                   n == IF nlb = 1 THEN b[pos + 1]
                        ELSE IF nlb = 2 THEN b[pos + 1] * 256 + b[pos + 2]
                        ELSE (b[pos + 1] * 256 + b[pos + 2]) * 256 + b[pos + 3]
                   p == pos + 1 + nlb
               IN IF f = "L" THEN DecodeList(b, p, n, <<>>)
                  ELSE IF p + n - 1 > Len(b) THEN Bad
                  ELSE LET raw == SubSeq(b, p, p + n - 1)
                           val == CASE f \in {"B", "A"} -> raw
                                    [] f = "J" -> [i \in 1..n |-> JisCp(raw[i])]
                                    [] f = "BOOLEAN" -> [i \in 1..n |-> raw[i] # 0]
                                    [] IsInt(f) -> [i \in 1..(n \div Width(f)) |-> FromBytes(f, SubSeq(raw, (i - 1) * Width(f) + 1, i * Width(f)))]
                                    [] IsFloat(f) -> Chunks(raw, Width(f))
                       IN IF (IsInt(f) \/ IsFloat(f)) /\ n % Width(f) # 0 THEN Bad
                          ELSE [ok |-> TRUE, item |-> [f |-> f, v |-> val], next |-> p + n]
DecodeList(b, p, n, acc) ==
  IF n = 0 THEN [ok |-> TRUE, item |-> [f |-> "L", v |-> acc], next |-> p]
  ELSE LET r == Decode(b, p)
       IN IF ~r.ok THEN Bad ELSE DecodeList(b, r.next, n - 1, Append(acc, r.item))

(* ---- what is a well-formed abstract item                                                       *)
RECURSIVE WellFormed(_)
WellFormed(it) ==
  CASE it.f = "L" -> \A i \in 1..Len(it.v) : WellFormed(it.v[i])
    [] it.f = "J" -> JisOK(it.v)
    [] IsInt(it.f) -> \A i \in 1..Len(it.v) : InRange(it.f, it.v[i])
    [] IsFloat(it.f) -> \A i \in 1..Len(it.v) : Len(it.v[i]) = Width(it.f)
    [] OTHER -> TRUE

(* canonical number form (a zero is not negative)                                                 *)
CanonNum(x) == IF IsZero(x.mag) THEN [x EXCEPT !.neg = FALSE] ELSE x
RECURSIVE Canon(_)
Canon(it) == CASE it.f = "L" -> [it EXCEPT !.v = [i \in 1..Len(it.v) |-> Canon(it.v[i])]]
               [] IsInt(it.f) -> [it EXCEPT !.v = [i \in 1..Len(it.v) |-> CanonNum(it.v[i])]]
               [] OTHER -> it

(* ---- narrowest standard integer type of a plain number given with an 8 byte magnitude (C14)    *)
LeadingZero(mag, k) == \A i \in 1..k : mag[i] = 0
NarrowU(mag) == IF LeadingZero(mag, 7) THEN "U1" ELSE IF LeadingZero(mag, 6) THEN "U2"
                ELSE IF LeadingZero(mag, 4) THEN "U4" ELSE "U8"
FitsI(mag, w) == LET q == SubSeq(mag, 9 - w, 8) IN
                 LeadingZero(mag, 8 - w) /\ (q[1] < 128 \/ (q[1] = 128 /\ IsZero(SubSeq(q, 2, w))))
NarrowI(mag) == IF FitsI(mag, 1) THEN "I1" ELSE IF FitsI(mag, 2) THEN "I2" ELSE IF FitsI(mag, 4) THEN "I4" ELSE "I8"
Narrowest(x) == IF x.neg /\ ~IsZero(x.mag) THEN NarrowI(x.mag) ELSE NarrowU(x.mag)
NarrowItem(x) == LET f == Narrowest(x) IN [f |-> f, v |-> <<[neg |-> x.neg, mag |-> SubSeq(x.mag, 9 - Width(f), 8)]>>]

(* theorems checked by TLC on every universe item                                                 *)
RoundTrip(it) == LET b == Encode(it) r == Decode(b, 1)
                 IN r.ok /\ r.item = Canon(it) /\ r.next = Len(b) + 1
PrefixFree(it) == LET b == Encode(it) \o <<255, 1, 2>> r == Decode(b, 1)
                  IN r.ok /\ r.item = Canon(it) /\ r.next = Len(Encode(it)) + 1
MinimalHeader(it) == LET b == Encode(it) n == LengthField(it)
                     IN b[1] % 4 = MinLB(n) /\ (b[1] % 4 = 1 \/ n > 255) /\ (b[1] % 4 < 3 \/ n > 65535)
=============================================================================
