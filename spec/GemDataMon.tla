------------------------------ MODULE GemDataMon ----------------------------
(* Property-level monitor for C13: status variables, equipment constants and alarms of a GEM       *)
(* equipment as a host sees them (S1F3/S1F11, S2F13/S2F15/S2F29, S5F3/S5F5/S5F7, S5F1), written    *)
(* from the property statement.  Eff(s, i) = SET of allowed [s, out].                              *)
(*                                                                                              *)
(* s = [sv : SVID -> value, ec : ECID -> value, al : ALID -> [en, set]]                             *)
(* out = [reply : what the reply must contain ("-" none), s5f1 : sequence of [al, set] reports]      *)
(* Values that cannot be predicted (clock ...) are masked as "*" by the driver and here; all       *)
(* reply values and acknowledge codes are compared as strings.                                   *)
EXTENDS Naturals, Integers, Sequences, FiniteSets, TLC

SV == {"sv1", "sv2"}                 \* user defined status variables (table order sv1, sv2)
SVX == SV \cup {"svu"}               \* svu: unknown id
SvOrder == <<"sv1", "sv2">>
EC == {"ec1", "ec2", "ecp", "ecc"}   \* ec1: bounded [0, 10]; ec2: only a minimum (0); ecp: the predefined EstablishCommunicationsTimeout [10, 120],
                                     \* whose value lives in the settings; ecc: only a maximum (10), served by the application's callbacks
ECX == EC \cup {"ecu"}
EcOrder == <<"ec1", "ec2", "ecc">>    \* user constants in table order (the predefined ones precede them)
EcMin == [e \in EC |-> CASE e = "ec1" -> 0 [] e = "ecp" -> 10 [] e = "ec2" -> 0 [] OTHER -> -1000000]
EcMax == [e \in EC |-> CASE e = "ec1" -> 10 [] e = "ecp" -> 120 [] e = "ecc" -> 10 [] OTHER -> 1000000]
AL == {"al1", "al2"}
ALX == AL \cup {"alu"}
AlOrder == <<"al1", "al2">>
NPre == 5                              \* predefined status variables precede the user defined ones
NPreEc == 2                            \* predefined equipment constants

SeqSet(q) == {q[i] : i \in 1..Len(q)}
Map(q, F(_)) == [i \in 1..Len(q) |-> F(q[i])]
E(a, b) == [a |-> a, b |-> b]                   \* uniform reply element (TLC compares values of one type only)
Stars(n) == [i \in 1..n |-> E("*", "*")]
Ack(x) == <<E("ack", x)>>
NoReply == <<>>
O(reply, s5f1) == [reply |-> reply, s5f1 |-> s5f1]
One(s, out) == {[s |-> s, out |-> out]}

SvVal(s, v) == IF v \in SV THEN E("val", ToString(s.sv[v])) ELSE E("val", "empty")
EcVal(s, e) == IF e \in EC THEN E("val", ToString(s.ec[e])) ELSE E("val", "empty")
AlRec(s, a) == E(a, IF s.al[a].set THEN "set" ELSE "clear")
Known(x, k) == E(x, IF k THEN "known" ELSE "unknown")
(* the predefined status variables AlarmsEnabled / AlarmsSet list the alarm ids (compared as sets of names)    *)
AlStr(S) == CASE S = {} -> "none" [] S = {"al1"} -> "al1" [] S = {"al2"} -> "al2" [] OTHER -> "al1,al2"

Eff(s, i) ==
  CASE i.k = "ReadSV" ->      \* S1F3
         One(s, O(IF i.ids = <<>> THEN Stars(NPre) \o Map(SvOrder, LAMBDA v : SvVal(s, v))
                  ELSE Map(i.ids, LAMBDA v : SvVal(s, v)), <<>>))
    [] i.k = "ReadAlarmSVs" -> \* S1F3 for the predefined AlarmsEnabled, AlarmsSet: independent of each other
         One(s, O(<<E("enabled", AlStr({a \in AL : s.al[a].en})), E("set", AlStr({a \in AL : s.al[a].set}))>>, <<>>))
    [] i.k = "ListSV" ->      \* S1F11: the ids, in request order; unknown ids carry empty name/unit
         One(s, O(IF i.ids = <<>> THEN Stars(NPre) \o Map(SvOrder, LAMBDA v : Known(v, TRUE))
                  ELSE Map(i.ids, LAMBDA v : Known(v, v \in SV)), <<>>))
    [] i.k = "ReadEC" ->      \* S2F13
         One(s, O(IF i.ids = <<>> THEN Stars(NPreEc) \o Map(EcOrder, LAMBDA e : EcVal(s, e))
                  ELSE Map(i.ids, LAMBDA e : EcVal(s, e)), <<>>))
    [] i.k = "ListEC" ->      \* S2F29
         One(s, O(IF i.ids = <<>> THEN Stars(NPreEc) \o Map(EcOrder, LAMBDA e : Known(e, TRUE))
                  ELSE Map(i.ids, LAMBDA e : Known(e, e \in EC)), <<>>))
    [] i.k = "SetEC" ->       \* S2F15: all or nothing
         LET bad1 == \E j \in 1..Len(i.ps) : i.ps[j].e \notin EC
             bad3 == \E j \in 1..Len(i.ps) : i.ps[j].e \in EC /\ (i.ps[j].x < EcMin[i.ps[j].e] \/ i.ps[j].x > EcMax[i.ps[j].e])
             errs == (IF bad1 THEN {1} ELSE {}) \cup (IF bad3 THEN {3} ELSE {})
             RECURSIVE Apply(_, _)
             Apply(ec, ps) == IF ps = <<>> THEN ec ELSE Apply([ec EXCEPT ![Head(ps).e] = Head(ps).x], Tail(ps))
         IN IF errs # {} THEN {[s |-> s, out |-> O(Ack(ToString(a)), <<>>)] : a \in errs}
            ELSE One([s EXCEPT !.ec = Apply(s.ec, i.ps)], O(Ack("0"), <<>>))
    [] i.k = "AlarmEnable" -> \* S5F3
         IF i.a \in AL THEN One([s EXCEPT !.al[i.a].en = i.en], O(Ack("0"), <<>>))
         ELSE {[s |-> s, out |-> O(Ack("nonzero"), <<>>)]}
    [] i.k = "ListAlarms" ->  \* S5F5: requested alarms (all when empty) with their set bit
         IF i.ids = <<>> THEN One(s, O(Map(AlOrder, LAMBDA a : AlRec(s, a)), <<>>))
         ELSE IF SeqSet(i.ids) \subseteq AL THEN One(s, O(Map(i.ids, LAMBDA a : AlRec(s, a)), <<>>))
         ELSE \* a request naming an unknown alarm: nothing prescribed -- abort or the known ones, never a fabricated entry
              One(s, O(<<E("abort", "")>>, <<>>)) \cup One(s, O(Map(SelectSeq(i.ids, LAMBDA a : a \in AL), LAMBDA a : AlRec(s, a)), <<>>))
    [] i.k = "ListEnabled" -> \* S5F7
         One(s, O(Map(SelectSeq(AlOrder, LAMBDA a : s.al[a].en), LAMBDA a : AlRec(s, a)), <<>>))
    [] i.k = "SetAlarm" ->    \* equipment side: S5F1 iff the state changes and the alarm is enabled at that moment; the alarm
                              \* is set / cleared on the equipment whether or not the host acknowledges the report
         IF s.al[i.a].set = i.on THEN One(s, O(NoReply, <<>>))
         ELSE One([s EXCEPT !.al[i.a].set = i.on],
                  O(NoReply, IF s.al[i.a].en THEN <<E(i.a, IF i.on THEN "set" ELSE "clear")>> ELSE <<>>))
    [] i.k = "UpdateSV" -> One([s EXCEPT !.sv[i.v] = i.x], O(NoReply, <<>>))

S0 == [sv |-> [v \in SV |-> 0], ec |-> [e \in EC |-> IF e = "ecp" THEN 30 ELSE 5], al |-> [a \in AL |-> [en |-> FALSE, set |-> FALSE]]]

(* every constant with declared bounds is within them                                               *)
EcWithinBounds(s) == \A e \in EC : s.ec[e] >= EcMin[e] /\ s.ec[e] <= EcMax[e]

IdLists(X) == {<<>>} \cup {<<a>> : a \in X} \cup {<<a, b>> : a \in X, b \in X}
Inputs ==
  {[k |-> "ReadSV", ids |-> q] : q \in IdLists(SVX)} \cup {[k |-> "ListSV", ids |-> q] : q \in IdLists(SVX)}
  \cup {[k |-> "ReadEC", ids |-> q] : q \in IdLists(ECX)} \cup {[k |-> "ListEC", ids |-> q] : q \in IdLists(ECX)}
  \cup {[k |-> "SetEC", ps |-> <<[e |-> e, x |-> x]>>] : e \in ECX, x \in {-1, 0, 5, 10, 11}}
  \cup {[k |-> "SetEC", ps |-> <<[e |-> "ec1", x |-> x], [e |-> f, x |-> y]>>] : x \in {0, 7, 11}, f \in ECX, y \in {-1, 3}}
  \cup {[k |-> "AlarmEnable", a |-> a, en |-> b] : a \in ALX, b \in BOOLEAN}
  \cup {[k |-> "ListAlarms", ids |-> q] : q \in IdLists(ALX)}
  \cup {[k |-> "ListEnabled"]} \cup {[k |-> "ReadAlarmSVs"]}
  \cup {[k |-> "SetAlarm", a |-> a, on |-> b, rsp |-> r] : a \in AL, b \in BOOLEAN, r \in BOOLEAN}   \* rsp: the host acknowledges the S5F1 (or never does)
  \cup {[k |-> "UpdateSV", v |-> v, x |-> x] : v \in SV, x \in {0, 1}}
=============================================================================
