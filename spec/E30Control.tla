----------------------------- MODULE E30Control -----------------------------
(* Behaviour spec over E30ControlMon: all configurations x all histories; E30 invariants; dump.    *)
EXTENDS E30ControlMon, Json
VARIABLES cfg, st, inp, out
vars == <<cfg, st, inp, out>>
Configs == [initial : {"EQUIPMENT_OFFLINE", "ATTEMPT_ONLINE", "HOST_OFFLINE", "ONLINE"}, sub : {"LOCAL", "REMOTE"}]
Init == /\ cfg \in Configs /\ st = Start(cfg.initial, cfg.sub) /\ inp = [k |-> "Init"]
        /\ out = O(<<>>, <<>>, FALSE, FALSE, Start(cfg.initial, cfg.sub).ctl)
Step(i) == LET e == Eff(st, i) IN st' = e.s /\ out' = e.out /\ inp' = i /\ UNCHANGED cfg
DoStep == \E i \in Inputs : Enabled(st, i) /\ Step(i)
Next == DoStep
Spec == Init /\ [][Next]_vars
View == <<cfg, st>>
Dump == PrintT(<<"TR", ToJson([from |-> [cfg |-> cfg, st |-> st], inp |-> inp', out |-> out', to |-> [cfg |-> cfg, st |-> st']])>>)

TypeOK == st.ctl \in Ctl /\ st.sub \in {"LOCAL", "REMOTE"}
SvMatches == out.sv = SvOf(st.ctl)
SubRemembered == Online(st) => st.ctl = OnlineOf(st.sub)
(* a collection event is reported only on the transition it belongs to                              *)
CeOnlyOnTransition == [][out'.ces # <<>> => st'.ctl # st.ctl]_vars
OnlineOnlyViaProbeOrHost == [][(~Online(st) /\ Online(st')) =>
                                  ((inp'.k \in {"OpOnline", "ProbeResult"} /\ inp'.probe = "ok") \/ inp'.k = "S1F17")]_vars
(* in ATTEMPT_ONLINE nothing but the probe's outcome changes the control state, S1F17 is refused with ONLACK 1  *)
AttemptOnlyEndsByProbe == [][(st.ctl = "ATTEMPT_ONLINE" /\ st'.ctl # "ATTEMPT_ONLINE") => inp'.k = "ProbeResult"]_vars
AttemptRefusesHost == [][(st.ctl = "ATTEMPT_ONLINE" /\ inp'.k = "S1F17") => out'.reply = <<[f |-> 18, ack |-> 1]>>]_vars
RefusedChangesNothing == [][out'.raised => st' = st]_vars
=============================================================================
