----------------------------- MODULE E30Control -----------------------------
(* Behaviour spec over E30ControlMon: all configurations x all histories; E30 invariants; dump.    *)
EXTENDS E30ControlMon, Json
VARIABLES cfg, st, inp, out
vars == <<cfg, st, inp, out>>
Configs == [initial : {"EQUIPMENT_OFFLINE", "ATTEMPT_ONLINE", "HOST_OFFLINE", "ONLINE"}, sub : {"LOCAL", "REMOTE"}]
Init == /\ cfg \in Configs /\ st = Start(cfg.initial, cfg.sub) /\ inp = [k |-> "Init"]
        /\ out = O(<<>>, <<>>, FALSE, FALSE, Start(cfg.initial, cfg.sub).ctl)
Step(i) == LET e == Eff(st, i) IN st' = e.s /\ out' = e.out /\ inp' = i /\ UNCHANGED cfg
DoStep == \E i \in Inputs : Step(i)
Next == DoStep
Spec == Init /\ [][Next]_vars
View == <<cfg, st>>
Dump == PrintT(<<"TR", ToJson([from |-> [cfg |-> cfg, st |-> st], inp |-> inp', out |-> out', to |-> [cfg |-> cfg, st |-> st']])>>)

TypeOK == st.ctl \in Ctl /\ st.sub \in {"LOCAL", "REMOTE"}
SvMatches == out.sv = SvOf(st.ctl)
SubRemembered == Online(st) => st.ctl = OnlineOf(st.sub)
(* a collection event is reported only on the transition it belongs to                              *)
CeOnlyOnTransition == [][out'.ces # <<>> => st'.ctl # st.ctl]_vars
OnlineOnlyViaProbeOrHost == [][(~Online(st) /\ Online(st')) =>
                                  ((inp'.k = "OpOnline" /\ inp'.probe = "ok") \/ inp'.k = "S1F17")]_vars
RefusedChangesNothing == [][out'.raised => st' = st]_vars
=============================================================================
