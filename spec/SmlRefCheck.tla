----------------------------- MODULE SmlRefCheck ----------------------------
(* Self-consistency of the reference over ALL token strings up to length MaxLen over the alphabet:   *)
(* a text that the reference parses as a well-formed item is never one that must be rejected, and a   *)
(* text whose first item is unclosed is never parsed as well-formed.                                   *)
EXTENDS SmlRef, IOUtils
Alphabet == {"<", ">", "[", "]", "L", "U1", "A", "1", "\"x\"", "X", "."}
MaxLen == IF IOEnv.SML_MAXLEN = "6" THEN 6 ELSE 5
Strings == UNION {[1..n -> Alphabet] : n \in 0..MaxLen}
ASSUME \A s \in Strings : Shape(s).ok => ~MustReject(SubSeq(s, 1, Shape(s).next - 1))
ASSUME \A s \in Strings : MissingClose(s) => ~Shape(s).ok
ASSUME PrintT(<<"COUNT", Cardinality(Strings)>>)
=============================================================================
