------------------------------ MODULE E37Judge ------------------------------
(* Trace validation for C05: every recorded execution of the real HsmsProtocol must be a        *)
(* behaviour of E37Session.  The monitor is deterministic (Eff), so validation is a fold.       *)
(* TRACE_FILE: JSON array of [id, mode, steps : Seq([inp, obs : [frames, ev, dlv, cs]])]         *)
EXTENDS E37Mon, IOUtils

Traces == JsonDeserialize(IOEnv.TRACE_FILE)

ToSetQ(q) == {q[i] : i \in 1..Len(q)}
NormFr(f) == Fr(f.st, f.sys, f.reason)
NormSeq(q) == [i \in 1..Len(q) |-> NormFr(q[i])]

Clause(e, obs) ==
  LET fr == NormSeq(obs.frames)
      needed == SelectSeq(fr, LAMBDA f : f \notin e.out.opt)
  IN IF ~e.en THEN "input-not-enabled-in-model"
     ELSE IF needed # e.out.req THEN "frames"
     ELSE IF obs.ev # e.out.ev THEN "events"
     ELSE IF obs.dlv # (IF e.out.dlv THEN 1 ELSE 0) THEN "delivery"
     ELSE IF obs.rep # (IF e.out.rep THEN 1 ELSE 0) THEN "reply-routing"
     ELSE IF obs.cs # e.s.cs THEN "state"
     ELSE "ok"

RECURSIVE Run(_, _, _)
Run(s, steps, l) ==
  IF l > Len(steps) THEN [ok |-> TRUE, at |-> 0, clause |-> "ok", exp |-> NoOut, cs |-> s.cs]
  ELSE LET e == Eff(s, steps[l].inp)
           c == Clause(e, steps[l].obs)
       IN IF c = "ok" THEN Run(e.s, steps, l + 1)
          ELSE [ok |-> FALSE, at |-> l, clause |-> c, exp |-> e.out, cs |-> e.s.cs]

Verdict(t) == Run([mode |-> t.mode, enabled |-> FALSE, cs |-> "NC", openSel |-> FALSE, openData |-> FALSE], t.steps, 1)

ASSUME \A n \in 1..Len(Traces) :
         LET v == Verdict(Traces[n])
         IN PrintT(<<"V", ToJson([id |-> Traces[n].id, ok |-> v.ok, at |-> v.at, clause |-> v.clause,
                                  exp |-> v.exp, cs |-> v.cs])>>)
=============================================================================
