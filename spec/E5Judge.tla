------------------------------- MODULE E5Judge ------------------------------
(* TLC judges (abstract item, bytes) pairs recorded from the real encoders for randomly generated   *)
(* values: the bytes must be the E5 encoding of the item and decode back to it.                     *)
(* REC_FILE: JSON array of [id, item, bytes]                                                        *)
EXTENDS E5Item, Json, IOUtils
Recs == JsonDeserialize(IOEnv.REC_FILE)

RECURSIVE Norm(_)
Norm(it) == IF it.f = "L" THEN [f |-> "L", v |-> [i \in 1..Len(it.v) |-> Norm(it.v[i])]]
            ELSE IF IsInt(it.f) THEN [f |-> it.f, v |-> [i \in 1..Len(it.v) |-> [neg |-> it.v[i].neg, mag |-> it.v[i].mag]]]
            ELSE [f |-> it.f, v |-> it.v]

Verdict(r) == LET it == Norm(r.item) IN
  IF ~WellFormed(it) THEN "item-not-well-formed"
  ELSE IF Encode(it) # r.bytes THEN "bytes-differ-from-E5-encoding"
  ELSE LET d == Decode(r.bytes, 1) IN
       IF ~d.ok \/ d.item # Canon(it) \/ d.next # Len(r.bytes) + 1 THEN "bytes-do-not-decode-to-the-item" ELSE "ok"

ASSUME \A n \in 1..Len(Recs) : LET v == Verdict(Recs[n]) IN
          IF v = "ok" THEN TRUE ELSE PrintT(<<"V", ToJson([id |-> Recs[n].id, clause |-> v])>>)
ASSUME PrintT(<<"N", ToJson([n |-> Len(Recs)])>>)
=============================================================================
