----------------------------- MODULE FrameStream ----------------------------
(* C04, reassembly: a stream of HSMS frames cut into arbitrary TCP segments.                    *)
(* Code-shaped: Segment = Connection.on_data appends to the receive buffer; Extract = one       *)
(* iteration of the framing loop in HsmsProtocol._process_received_data (peek 4 length bytes,   *)
(* take 4+len bytes once they are there); Deliver = the dispatcher hands the message over.      *)
(* Frames are abstracted to their lengths (unit = byte); identities are their indices.          *)
(* Because the state is (fed, buffered, extracted, delivered) every partition of the stream     *)
(* into segments is a path of this graph.                                                       *)
EXTENDS Naturals, Sequences, FiniteSets, TLC

CONSTANTS Lens,        \* set of possible frame lengths (each >= 14 in reality; small here, >= 5)
          MaxFrames

VARIABLES frames,   \* the sent stream: sequence of frame lengths
          fed,      \* bytes handed to on_data so far
          buf,      \* bytes in the receive buffer
          ext,      \* number of frames extracted by the framing loop
          dlv       \* sequence of delivered frame indices

vars == <<frames, fed, buf, ext, dlv>>

RECURSIVE Sum(_, _)
Sum(q, n) == IF n = 0 THEN 0 ELSE q[n] + Sum(q, n - 1)
Total == Sum(frames, Len(frames))

Init == /\ frames \in UNION {[1..n -> Lens] : n \in 1..MaxFrames}
        /\ fed = 0 /\ buf = 0 /\ ext = 0 /\ dlv = <<>>

Segment(k) == /\ fed + k <= Total
              /\ fed' = fed + k /\ buf' = buf + k
              /\ UNCHANGED <<frames, ext, dlv>>

(* the framing loop needs the 4 length bytes and then the whole frame                           *)
Extract == /\ ext < Len(frames)
           /\ buf >= 4
           /\ buf >= frames[ext + 1]
           /\ buf' = buf - frames[ext + 1]
           /\ ext' = ext + 1
           /\ UNCHANGED <<frames, fed, dlv>>

Deliver == /\ Len(dlv) < ext
           /\ dlv' = Append(dlv, Len(dlv) + 1)
           /\ UNCHANGED <<frames, fed, buf, ext>>

DoSegment == \E k \in 1..Total : Segment(k)
Next == DoSegment \/ Extract \/ Deliver
Spec == Init /\ [][Next]_vars /\ WF_vars(Extract) /\ WF_vars(Deliver)

(* what an observer may see at quiescence after `c` bytes were fed                               *)
RECURSIVE CompleteIn(_, _, _)
CompleteIn(q, c, j) == IF j < Len(q) /\ Sum(q, j + 1) <= c THEN CompleteIn(q, c, j + 1) ELSE j

Quiescent == ~ENABLED Extract /\ ~ENABLED Deliver

InOrderNoDupNoLoss == dlv = [i \in 1..Len(dlv) |-> i]
NothingEarly == ext <= CompleteIn(frames, fed, 0)           \* never extract a frame that is not fully there
ConservesBytes == buf = fed - Sum(frames, ext)
AllDeliveredAtQuiescence == Quiescent => Len(dlv) = CompleteIn(frames, fed, 0)
EventuallyAll == <>[](fed = Total => Len(dlv) = Len(frames))
=============================================================================
