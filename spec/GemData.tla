------------------------------- MODULE GemData ------------------------------
(* Behaviour spec over GemDataMon: all histories; invariants; (sampled) transition dump.           *)
EXTENDS GemDataMon, Json
VARIABLES st, inp, out
vars == <<st, inp, out>>
Init == st = S0 /\ inp = [k |-> "Init"] /\ out = O(NoReply, <<>>)
Step(i) == (\E r \in Eff(st, i) : st' = r.s /\ out' = r.out) /\ inp' = i
DoStep == \E i \in Inputs : Step(i)
Next == DoStep
Spec == Init /\ [][Next]_vars
View == st
Dump == PrintT(<<"TR", ToJson([from |-> st, inp |-> inp', out |-> out', to |-> st'])>>)

ConstantsWithinBounds == EcWithinBounds(st)
AllOrNothing == [][(inp'.k = "SetEC" /\ out'.reply # Ack("0")) => st' = st]_vars
AlarmReportIffEnabledChange ==
  [][inp'.k = "SetAlarm" =>
       (out'.s5f1 # <<>> <=> (st.al[inp'.a].set # inp'.on /\ st.al[inp'.a].en))]_vars
(* an alarm that is set is listed as set whether or not it is enabled (S5F5 and the AlarmsSet variable agree)  *)
SetListsAgree == [][inp'.k = "ReadAlarmSVs" => out'.reply[2].b = AlStr({a \in AL : st.al[a].set})]_vars
ReadsChangeNothing == [][inp'.k \in {"ReadSV", "ReadAlarmSVs", "ListSV", "ReadEC", "ListEC", "ListAlarms", "ListEnabled"} => st' = st]_vars
=============================================================================
