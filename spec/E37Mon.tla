----------------------------- MODULE E37Mon --------------------------------
(* Property-level monitor for C05: the HSMS connect/select state model of SEMI E37 as seen at   *)
(* one endpoint, written from the property statement and E37 (not from secsgem).               *)
(*                                                                                             *)
(* The monitor is the pure function Eff(s, i): for abstract state s and input i it yields       *)
(*   en   : is the input possible in s                                                         *)
(*   s    : the state afterwards  [mode, enabled, cs, openSel]                                  *)
(*   out  : what must be observable                                                            *)
(*     req : frames that must be written, in order   [st, sys, reason]                          *)
(*           sys = "echo" (system bytes of the inbound message) | "fresh" (endpoint-chosen)     *)
(*     opt : frames that may additionally be written (standard/property leave it open)          *)
(*     ev  : public events fired, in order ("connected","communicating","disconnected")        *)
(*     dlv : TRUE iff the inbound data message is delivered to the application (exactly once)   *)
(*     rep : TRUE iff the inbound data message is handed to the application thread that waits   *)
(*           for the reply of its own request (system bytes of an open data transaction)        *)
(* The behaviour spec below steps through Eff; E37Judge folds Eff over recorded executions.     *)
EXTENDS Naturals, Sequences, FiniteSets, TLC, Json

Fr(st, sys, reason) == [st |-> st, sys |-> sys, reason |-> reason]
NoOut == [req |-> <<>>, opt |-> {}, ev |-> <<>>, dlv |-> FALSE, rep |-> FALSE]
Out(req, opt, ev, dlv) == [req |-> req, opt |-> opt, ev |-> ev, dlv |-> dlv, rep |-> FALSE]
OutRep(req, opt, ev) == [req |-> req, opt |-> opt, ev |-> ev, dlv |-> FALSE, rep |-> TRUE]

CtrlReq == {"Select.req", "Deselect.req", "Linktest.req"}
RspOf(st) == CASE st = "Select.req" -> "Select.rsp" [] st = "Deselect.req" -> "Deselect.rsp"
               [] st = "Linktest.req" -> "Linktest.rsp"

Inputs ==
  {[k |-> "Enable"], [k |-> "Disable"], [k |-> "Connect"], [k |-> "PeerClose"], [k |-> "WaitT6"]}
  \cup {[k |-> "Ctrl", st |-> st, sys |-> "new", status |-> 0] :
          st \in {"Select.req", "Deselect.req", "Linktest.req", "Separate.req", "Linktest.rsp",
                  "Reject.req", "Deselect.rsp", "Select.rsp"}}
  \cup {[k |-> "Ctrl", st |-> "Select.rsp", sys |-> "open", status |-> s] : s \in {0, 1}}
  \cup {[k |-> "Data", w |-> w, sf |-> sf] : w \in BOOLEAN, sf \in {"known", "unknown", "badbody"}}
  \cup {[k |-> "AppRequest"], [k |-> "WaitT3"]}
  \cup {[k |-> "DataFor", sys |-> x] : x \in {"opendata", "opensel"}}
  \cup {[k |-> "PrimaryFor", w |-> w] : w \in BOOLEAN}      \* a PRIMARY of the peer whose system bytes equal those of the endpoint's open request

R(en, s, out) == [en |-> en, s |-> s, out |-> out]

Eff(s, i) ==
  CASE i.k = "Enable" ->
         R(~s.enabled, [s EXCEPT !.enabled = TRUE], NoOut)
    [] i.k = "Disable" ->
         R(s.enabled, [s EXCEPT !.enabled = FALSE, !.cs = "NC", !.openSel = FALSE],
           IF s.cs = "NC" THEN NoOut
           ELSE Out(<<>>, {Fr("Separate.req", "fresh", 0)}, <<"disconnected">>, FALSE))
    [] i.k = "Connect" ->
         R(s.enabled /\ s.cs = "NC",
           [s EXCEPT !.cs = "NS", !.openSel = (s.mode = "active")],
           IF s.mode = "active"
             THEN Out(<<Fr("Select.req", "fresh", 0)>>, {}, <<"connected">>, FALSE)
             ELSE Out(<<>>, {}, <<"connected">>, FALSE))
    [] i.k = "PeerClose" ->
         R(s.cs # "NC", [s EXCEPT !.cs = "NC", !.openSel = FALSE],
           Out(<<>>, {Fr("Separate.req", "fresh", 0)}, <<"disconnected">>, FALSE))
    [] i.k = "WaitT6" ->
         \* the endpoint's own control transaction (if any) times out; nothing else happens
         R(s.cs # "NC", [s EXCEPT !.openSel = FALSE], NoOut)
    [] i.k = "Ctrl" ->
         CASE i.st \in CtrlReq ->
                \* exactly one response of the matching type carrying the request's system bytes
                R(s.cs # "NC",
                  [s EXCEPT !.cs = CASE i.st = "Select.req" -> "SEL"
                                     [] i.st = "Deselect.req" -> "NS"
                                     [] OTHER -> s.cs],
                  Out(<<Fr(RspOf(i.st), "echo", 0)>>, {},
                      IF i.st = "Select.req" /\ s.cs = "NS" THEN <<"communicating">> ELSE <<>>, FALSE))
           [] i.st = "Separate.req" ->
                R(s.cs # "NC", [s EXCEPT !.cs = "NS"], NoOut)
           [] i.st = "Select.rsp" /\ i.sys = "open" ->
                \* answer to our own outstanding Select.req
                R(s.cs # "NC" /\ s.openSel,
                  [s EXCEPT !.openSel = FALSE, !.cs = IF i.status = 0 /\ s.cs = "NS" THEN "SEL" ELSE s.cs],
                  Out(<<>>, {}, IF i.status = 0 /\ s.cs = "NS" THEN <<"communicating">> ELSE <<>>, FALSE))
           [] OTHER ->
                \* Select.rsp / Deselect.rsp / Linktest.rsp / Reject.req without an open transaction:
                \* the session must not change (a Reject "transaction not open" is allowed)
                R(s.cs # "NC", s, Out(<<>>, {Fr("Reject.req", "echo", 3)}, <<>>, FALSE))
    [] i.k = "AppRequest" ->
         \* an application thread sends a primary and waits for the reply (T3)
         R(s.cs = "SEL" /\ ~s.openData, [s EXCEPT !.openData = TRUE], Out(<<Fr("Data", "fresh", 0)>>, {}, <<>>, FALSE))
    [] i.k = "WaitT3" ->
         R(s.cs # "NC", [s EXCEPT !.openSel = FALSE, !.openData = FALSE], NoOut)
    [] i.k = "DataFor" ->
         \* a data message whose system bytes match an open transaction of the endpoint
         IF i.sys = "opendata"
           THEN R(s.cs # "NC" /\ s.openData,
                  IF s.cs = "SEL" THEN [s EXCEPT !.openData = FALSE] ELSE s,
                  IF s.cs = "SEL" THEN OutRep(<<>>, {}, <<>>) ELSE Out(<<Fr("Reject.req", "echo", 4)>>, {}, <<>>, FALSE))
           ELSE R(s.cs = "NS" /\ s.openSel, s, Out(<<Fr("Reject.req", "echo", 4)>>, {}, <<>>, FALSE))
    [] i.k = "PrimaryFor" ->
         \* system bytes are unique per originator only: it is an ordinary data message (delivered when SELECTED, rejected otherwise),
         \* the endpoint's own transaction stays open
         R(s.cs # "NC" /\ s.openData, s,
           IF s.cs = "SEL" THEN Out(<<>>, {}, <<>>, TRUE)
                           ELSE Out(<<Fr("Reject.req", "echo", 4)>>, {}, <<>>, FALSE))
    [] i.k = "Data" ->
         R(s.cs # "NC", s,
           IF s.cs = "SEL" THEN Out(<<>>, {}, <<>>, TRUE)
                           ELSE Out(<<Fr("Reject.req", "echo", 4)>>, {}, <<>>, FALSE))
=============================================================================
