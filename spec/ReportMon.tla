------------------------------ MODULE ReportMon -----------------------------
(* Property-level monitor for C12: event-report configuration (SEMI E5 S2F33/S2F35/S2F37,        *)
(* S6F15/S6F16, S6F11), written from the property statement and E5 -- not from secsgem.          *)
(*                                                                                              *)
(* state s = [reports : RPTID -|-> Seq(VID), links : CEID -|-> [rpts : Seq(RPTID), en : BOOLEAN], *)
(*            val : VID -> value]                                                               *)
(* Eff(s, i) is the SET of allowed outcomes [s, out]; out = [ack, rpt, sent]:                     *)
(*   ack  : acknowledge code of S2F34/36/38 (9 = not applicable)                                  *)
(*   rpt  : <<>> or <<the report list>> = Seq([r, vals]) of the S6F16 / S6F11 produced              *)
(*   sent : TRUE iff an S6F11 is sent (Trigger)                                                   *)
(* Where E5 and the property are silent (an id repeated inside one request) both a refusal with   *)
(* nothing changed and the sequential effect are allowed -- but Integrity must hold afterwards.   *)
EXTENDS Naturals, Sequences, FiniteSets, TLC

RPT == {"r1", "r2"}          \* report ids a host uses
RPTX == RPT \cup {"r9"}      \* r9 is never defined
CE == {"c1", "c2"}           \* collection events known to the equipment
CEX == CE \cup {"cu"}        \* cu is unknown
VID == {"sv", "dv"}          \* known variables
VIDX == VID \cup {"vu"}      \* vu is unknown

Dom(f) == DOMAIN f
Without(f, x) == [y \in Dom(f) \ {x} |-> f[y]]
With(f, x, v) == (x :> v) @@ f
SeqSet(q) == {q[i] : i \in 1..Len(q)}
RemoveAll(q, x) == SelectSeq(q, LAMBDA y : y # x)

O(ack, rpt, sent) == [ack |-> ack, rpt |-> rpt, sent |-> sent]
One(s, out) == {[s |-> s, out |-> out]}

ReportList(s, c) == [i \in 1..Len(s.links[c].rpts) |->
                       LET r == s.links[c].rpts[i] IN
                       [r |-> r, vals |-> [j \in 1..Len(s.reports[r]) |-> s.val[s.reports[r][j]]]]]

(* every report linked to an event exists                                                        *)
Integrity(s) == \A c \in Dom(s.links) : SeqSet(s.links[c].rpts) \subseteq Dom(s.reports)

(* ---- S2F33 define report: entries = Seq([r, vids])                                             *)
DeleteReport(s, r) ==
  LET l1 == [c \in Dom(s.links) |-> [s.links[c] EXCEPT !.rpts = RemoveAll(@, r)]]
      keep == {c \in Dom(l1) : l1[c].rpts # <<>>}
  IN [s EXCEPT !.reports = Without(s.reports, r), !.links = [c \in keep |-> l1[c]]]

RECURSIVE ApplyDefine(_, _)
ApplyDefine(s, es) ==
  IF es = <<>> THEN s
  ELSE LET e == Head(es) IN
       ApplyDefine(IF e.vids = <<>> THEN (IF e.r \in Dom(s.reports) THEN DeleteReport(s, e.r) ELSE s)
                   ELSE [s EXCEPT !.reports = With(s.reports, e.r, e.vids)], Tail(es))

DefineErrors(s, es) ==
  {3 : i \in {i \in 1..Len(es) : es[i].vids # <<>> /\ es[i].r \in Dom(s.reports)}}
  \cup {4 : i \in {i \in 1..Len(es) : \E j \in 1..Len(es[i].vids) : es[i].vids[j] \notin VID}}
DefineDup(es) == \E i, j \in 1..Len(es) : i < j /\ es[i].r = es[j].r /\ es[i].vids # <<>>

EffDefine(s, es) ==
  IF es = <<>> THEN One([s EXCEPT !.reports = <<>>, !.links = <<>>], O(0, <<>>, FALSE))
  ELSE LET errs == DefineErrors(s, es) IN
       IF errs # {} THEN {[s |-> s, out |-> O(a, <<>>, FALSE)] : a \in errs}
       ELSE One(ApplyDefine(s, es), O(0, <<>>, FALSE))
            \cup (IF DefineDup(es) THEN One(s, O(3, <<>>, FALSE)) ELSE {})

(* ---- S2F35 link event report: entries = Seq([c, rpts])                                         *)
RECURSIVE ApplyLink(_, _)
ApplyLink(s, es) ==
  IF es = <<>> THEN s
  ELSE LET e == Head(es) IN
       ApplyLink(IF e.rpts = <<>> THEN [s EXCEPT !.links = IF e.c \in Dom(s.links) THEN Without(s.links, e.c) ELSE s.links]
                 ELSE IF e.c \in Dom(s.links)
                        THEN [s EXCEPT !.links = With(s.links, e.c, [s.links[e.c] EXCEPT !.rpts = @ \o e.rpts])]
                        ELSE [s EXCEPT !.links = With(s.links, e.c, [rpts |-> e.rpts, en |-> FALSE])], Tail(es))

LinkErrors(s, es) ==
  {4 : i \in {i \in 1..Len(es) : es[i].c \notin CE}}
  \cup {5 : i \in {i \in 1..Len(es) : \E j \in 1..Len(es[i].rpts) : es[i].rpts[j] \notin Dom(s.reports)}}
  \cup {3 : i \in {i \in 1..Len(es) : es[i].c \in Dom(s.links) /\ SeqSet(es[i].rpts) \cap SeqSet(s.links[es[i].c].rpts) # {}}}
LinkDup(es) == \/ \E i \in 1..Len(es) : Len(es[i].rpts) # Cardinality(SeqSet(es[i].rpts))
               \/ \E i, j \in 1..Len(es) : i < j /\ es[i].c = es[j].c

EffLink(s, es) ==
  LET errs == LinkErrors(s, es) IN
  IF errs # {} THEN {[s |-> s, out |-> O(a, <<>>, FALSE)] : a \in errs}
  ELSE (LET t == ApplyLink(s, es) IN
        IF LinkDup(es)
          THEN \* silent case: refuse with nothing changed, or accept with the sequential effect
               One(s, O(3, <<>>, FALSE)) \cup One(t, O(0, <<>>, FALSE))
          ELSE One(t, O(0, <<>>, FALSE)))

(* ---- S2F37 enable / disable: the property fixes only the acknowledge code for a refused request *)
EffEnable(s, en, cs) ==
  IF cs = <<>>
    THEN One([s EXCEPT !.links = [c \in Dom(s.links) |-> [s.links[c] EXCEPT !.en = en]]], O(0, <<>>, FALSE))
    ELSE IF SeqSet(cs) \subseteq Dom(s.links)
           THEN One([s EXCEPT !.links = [c \in Dom(s.links) |-> IF c \in SeqSet(cs) THEN [s.links[c] EXCEPT !.en = en]
                                                                                  ELSE s.links[c]]], O(0, <<>>, FALSE))
           ELSE \* refused: the flags of the linked ones may or may not have been changed
                {[s |-> [s EXCEPT !.links = [c \in Dom(s.links) |-> IF c \in X THEN [s.links[c] EXCEPT !.en = en]
                                                                               ELSE s.links[c]]],
                  out |-> O(1, <<>>, FALSE)] : X \in {{}, SeqSet(cs) \cap Dom(s.links)}}

(* ---- S6F15 request / trigger                                                                   *)
EffRequest(s, c) ==
  IF c \in Dom(s.links) /\ s.links[c].en
    THEN One(s, O(9, <<ReportList(s, c)>>, FALSE))
    ELSE IF c \in Dom(s.links)
           THEN One(s, O(9, <<ReportList(s, c)>>, FALSE)) \cup One(s, O(9, <<<<>>>>, FALSE))   \* disabled: either
           ELSE One(s, O(9, <<<<>>>>, FALSE))
EffTrigger(s, c) ==
  IF c \in Dom(s.links) /\ s.links[c].en
    THEN One(s, O(9, <<ReportList(s, c)>>, TRUE))
    ELSE One(s, O(9, <<>>, FALSE))

(* one trigger call naming several collection events: one event report per linked and enabled event, in the      *)
(* order given; the others are skipped, they do not end the call                                                *)
EffTriggerMany(s, cs) ==
  LET live == SelectSeq(cs, LAMBDA c : c \in Dom(s.links) /\ s.links[c].en)
  IN One(s, O(9, [j \in 1..Len(live) |-> ReportList(s, live[j])], Len(live) > 0))

Eff(s, i) ==
  CASE i.k = "Define" -> EffDefine(s, i.es)
    [] i.k = "Link" -> EffLink(s, i.es)
    [] i.k = "Enable" -> EffEnable(s, i.en, i.cs)
    [] i.k = "Request" -> EffRequest(s, i.c)
    [] i.k = "Trigger" -> EffTrigger(s, i.c)
    [] i.k = "TriggerMany" -> EffTriggerMany(s, i.cs)
    [] i.k = "Set" -> One([s EXCEPT !.val = [@ EXCEPT ![i.v] = i.x]], O(9, <<>>, FALSE))

(* ---- input alphabets of the generator / the random drivers                                    *)
VidLists == {<<>>, <<"sv">>, <<"dv">>, <<"sv", "dv">>, <<"vu">>, <<"sv", "vu">>, <<"vu", "dv">>}     \* incl. known and unknown variables mixed
DefEntries == [r : RPT, vids : VidLists]
RptLists == {<<>>, <<"r1">>, <<"r2">>, <<"r1", "r2">>, <<"r1", "r1">>, <<"r9">>}
LinkEntries == [c : CEX, rpts : RptLists]
LinkEntries2 == [c : {"c1", "c2"}, rpts : {<<>>, <<"r1">>, <<"r2">>}]
CeLists == {<<>>, <<"c1">>, <<"c2">>, <<"c1", "c2">>, <<"cu">>, <<"c1", "cu">>}

Inputs ==
  {[k |-> "Define", es |-> <<>>]} \cup {[k |-> "Define", es |-> <<e>>] : e \in DefEntries}
  \cup {[k |-> "Define", es |-> <<e, f>>] : e \in DefEntries, f \in [r : RPT, vids : {<<>>, <<"sv">>, <<"vu">>}]}
  \cup {[k |-> "Link", es |-> <<e>>] : e \in LinkEntries}
  \cup {[k |-> "Link", es |-> <<e, f>>] : e \in LinkEntries2, f \in LinkEntries2}
  \cup {[k |-> "Enable", en |-> b, cs |-> cs] : b \in BOOLEAN, cs \in CeLists}
  \cup {[k |-> "Request", c |-> c] : c \in CEX}
  \cup {[k |-> "Trigger", c |-> c] : c \in CEX}
  \cup {[k |-> "TriggerMany", cs |-> <<a, b>>] : a \in CEX, b \in CE} \cup {[k |-> "TriggerMany", cs |-> <<"c1", "c2", "c1">>]}
  \cup {[k |-> "Set", v |-> v, x |-> x] : v \in VID, x \in {0, 1}}

CoreInputs ==
  {[k |-> "Define", es |-> <<>>]} \cup {[k |-> "Define", es |-> <<e>>] : e \in [r : RPT, vids : {<<>>, <<"sv">>, <<"sv", "dv">>, <<"vu">>, <<"sv", "vu">>}]}
  \cup {[k |-> "Link", es |-> <<e>>] : e \in [c : CEX, rpts : {<<>>, <<"r1">>, <<"r2">>, <<"r1", "r1">>, <<"r9">>}]}
  \cup {[k |-> "Enable", en |-> b, cs |-> cs] : b \in BOOLEAN, cs \in {<<>>, <<"c1">>, <<"c1", "cu">>}}
  \cup {[k |-> "Request", c |-> c] : c \in CEX}
  \cup {[k |-> "Trigger", c |-> c] : c \in CE}

S0 == [reports |-> <<>>, links |-> <<>>, val |-> [v \in VID |-> 0]]
=============================================================================
