-------------------------- MODULE HsmsEndpointTrace -------------------------
(* Trace validation for HsmsEndpoint: executions of the real HsmsProtocol (FakeConnection, deterministic    *)
(* scheduler) are recorded as one event per shared-state access (function entry / return, captured with      *)
(* sys.settrace -- no hooks in the code) and must be behaviours of HsmsEndpoint.  Every state on the way is   *)
(* checked against HsmsEndpoint's invariants.                                                              *)
(*                                                                                                       *)
(* TRACE_FILE: JSON array of [id, will, ev : Seq(event), final : [cs, dlv]];                                *)
(* event = [e : name, t, sys, st, cs] (unused fields "-" / 0), names:                                       *)
(*   Accept        HsmsProtocol._on_connected entered              (conn thread)                             *)
(*   CsConnect     the state machine arrived in NOT SELECTED (its enter handler is entered), cs = state        *)
(*   PrStart       ProtocolDispatcher.start entered (it starts the receiver thread first thing)                 *)
(*   PeerSend      the driver (peer) put frame (t, sys, st) on the line;  PeerAnswer: its answer to our        *)
(*                 Select.req                                                                              *)
(*   Frame         ProtocolDispatcher.queue_block entered with block (t, sys, st)                             *)
(*   Dispatch      HsmsProtocol._on_connection_message_received entered with message (t, sys, st)             *)
(*   Wire          the connection's send_data wrote frame (t, sys, st)                                        *)
(*   Enq           a block (t, sys, st) was put into the send queue (Select.rsp by the dispatcher, Reject by   *)
(*                 the dispatcher, Select.req by the select thread); QPut: put into a response queue           *)
(*   SelRspHandler the Select.rsp handler entered                 (dispatcher)                                 *)
(*   CsSelect      ConnectionStateMachine.select returned or raised, cs = state afterwards                    *)
(*   Deliver       message_received fired                                                                   *)
(*   SelBegin / QueueReg / QueueDel / SelReturn(result)   send_select_req of the select thread                  *)
(* Steps without an event of their own (a sender released after its block was written) are silent steps of     *)
(* the trace specification.                                                                                *)
EXTENDS HsmsEndpoint, Json, IOUtils

Traces == JsonDeserialize(IOEnv.TRACE_FILE)
VARIABLES tid, l
tvars == <<vars, tid, l>>
Ev == Traces[tid].ev
Cur == Ev[l]
Is(e) == l <= Len(Ev) /\ Cur.e = e
Adv == l' = l + 1 /\ UNCHANGED tid
Fr(x) == F(x.t, x.sys, x.st)

TInit == Init /\ tid \in 1..Len(Traces) /\ l = 1 /\ peerWill = Traces[tid].will

TAccept == Is("Accept") /\ Accept /\ Adv
TCsConnect == Is("CsConnect") /\ CsConnect /\ cs' = Cur.cs /\ Adv
TPrStart == Is("PrStart") /\ PrStart /\ Adv
TPeerSend == Is("PeerSend") /\ PeerSends(Fr(Cur)) /\ UNCHANGED peerLeft /\ Adv
TPeerAnswer == Is("PeerAnswer") /\ PeerAnswer /\ sock'[Len(sock')] = Fr(Cur) /\ Adv
TFrame == Is("Frame") /\ sock # <<>> /\ Head(sock) = Fr(Cur) /\ Frame /\ Adv
TWire == Is("Wire") /\ sendq # <<>> /\ Head(sendq).f = Fr(Cur) /\ WireOut /\ Adv
TDispatch == Is("Dispatch") /\ dq # <<>> /\ Head(dq) = Fr(Cur) /\ Dispatch /\ Adv
TEnqSelRsp == Is("Enq") /\ Cur.t = "SelRsp" /\ DSelReqEnq /\ sendq'[Len(sendq')].f = Fr(Cur) /\ Adv
TSelRspHandler == Is("SelRspHandler") /\ DSelRspChk /\ Adv
TCsSelect == Is("CsSelect") /\ (DSelReqCs \/ (dpc = "selrsp_cs" /\ dcur.st = 0 /\ DSelRspCs)) /\ cs' = Cur.cs /\ Adv
TEnqReject == Is("Enq") /\ Cur.t = "Reject" /\ cs # "SEL" /\ DDataGate /\ sendq'[Len(sendq')].f = Fr(Cur) /\ Adv
TDeliver == Is("Deliver") /\ cs = "SEL" /\ DDataGate /\ Adv
TSelBegin == Is("SelBegin") /\ SelSys /\ Adv
TQueueReg == Is("QueueReg") /\ SelReg /\ Adv
TEnqSelReq == Is("Enq") /\ Cur.t = "SelReq" /\ SelEnq /\ sendq'[Len(sendq')].f = Fr(Cur) /\ Adv
TQPut == Is("QPut") /\ DSelRspPut /\ Adv
TQueueDel == Is("QueueDel") /\ (SelGet \/ SelTimeout) /\ Adv
TSelReturn == Is("SelReturn") /\ spc = Cur.t /\ UNCHANGED vars /\ Adv
Silent == /\ (DSelReqSent \/ DRejSent \/ SelSent \/ (dpc = "selrsp_cs" /\ dcur.st # 0 /\ DSelRspCs))
          /\ UNCHANGED <<tid, l>>

TNext == TAccept \/ TCsConnect \/ TPrStart \/ TPeerSend \/ TPeerAnswer \/ TFrame \/ TWire \/ TDispatch \/ TEnqSelRsp
         \/ TSelRspHandler \/ TCsSelect \/ TEnqReject \/ TDeliver \/ TSelBegin \/ TQueueReg \/ TEnqSelReq \/ TQPut \/ TQueueDel
         \/ TSelReturn \/ Silent
TSpec == TInit /\ [][TNext]_tvars

(* progress report: the driver takes the highest l reached per trace; a trace is accepted iff it reached the end *)
Progress == PrintT(<<"AT", ToJson([id |-> Traces[tid].id, l |-> l, n |-> Len(Ev)])>>)
AtEnd == l = Len(Ev) + 1
FinalMatches == AtEnd => (cs = Traces[tid].final.cs /\ Len(delivered) = Traces[tid].final.dlv)
=============================================================================
