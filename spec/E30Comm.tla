------------------------------ MODULE E30Comm -------------------------------
(* Behaviour spec over E30CommMon: all histories; invariants of the establish-communications     *)
(* model; dumps the labelled transition relation for replay.                                     *)
EXTENDS E30CommMon, Json

VARIABLES st, inp, out, exch   \* exch: an S1F13/S1F14(0) exchange completed on the current link
vars == <<st, inp, out, exch>>

Init == st \in {[cm |-> "DISABLED", link |-> "down", en |-> FALSE, deny |-> d] : d \in BOOLEAN} /\ inp = [k |-> "Init"] /\ out = Quiet /\ exch = FALSE

Step(i) == /\ Feasible(st, i)
           /\ \E r \in Eff(st, i) : st' = r.s /\ out' = r.out
           /\ inp' = i
           /\ exch' = CASE i.k \in {"LinkLost", "Disable", "LinkUp"} -> FALSE
                        [] i.k = "S1F13" /\ st.cm \in {"WAIT_CRA", "WAIT_DELAY"} /\ st'.cm = "COMMUNICATING" -> TRUE
                        [] i.k = "S1F14" /\ i.ack = 0 /\ st.cm = "WAIT_CRA" -> TRUE
                        [] OTHER -> exch

DoStep == \E i \in Inputs : Step(i)
Next == DoStep
Spec == Init /\ [][Next]_vars

View == st
Dump == PrintT(<<"TR", ToJson([from |-> st, inp |-> inp', out |-> out', to |-> st'])>>)

TypeOK == st.cm \in States
EstablishedOnlyAfterExchange == st.cm = "COMMUNICATING" => (exch /\ st.link = "up")
DisabledIffNotEnabled == (st.cm = "DISABLED") <=> ~st.en
NoCallbackUnlessCommunicating == out.cb > 0 => st.cm = "COMMUNICATING"
AttemptNeedsLinkOrCycle == st.cm \in {"WAIT_CRA", "WAIT_DELAY", "COMMUNICATING"} => st.en
(* a failed attempt is followed by a retry: from WAIT_DELAY the only timer step sends S1F13 again *)
RetryAfterDelay == [][(st.cm = "WAIT_DELAY" /\ inp'.k = "Timer" /\ st.link = "up") =>
                        (st'.cm = "WAIT_CRA" /\ out'.frames = <<S1F13out>> /\ out'.dt = "D")]_vars
=============================================================================
