------------------------------- MODULE TcpSend ------------------------------
(* C10: the send loop of secsgem/common/tcp_connection.py (send_data) on a non-blocking stream        *)
(* socket with a bounded kernel buffer: send() accepts between 1 and `free` bytes (or EWOULDBLOCK when   *)
(* the buffer is full), the peer drains it at its own pace, the connection may be reset.                *)
(*   ShortWriteIgnored = TRUE : the original loop -- the return value of socket.send is ignored,         *)
(*                              whatever was not accepted is dropped and success is reported             *)
(*   ShortWriteIgnored = FALSE: the loop continues with the remaining bytes                              *)
(* After the last send the local side may close the connection (disable / disconnect) while bytes are    *)
(* still in flight:                                                                                     *)
(*   AbortiveClose = FALSE: close() is graceful (FIN after the queued data), as the code does it          *)
(*   AbortiveClose = TRUE : close() resets the connection (e.g. SO_LINGER on, 0 s): the part of the bytes   *)
(*                          in flight that had not reached the peer's kernel is discarded -- a second      *)
(*                          regression witness                                                          *)
(* The application may also disable the connection while a send is still blocked on a full socket:        *)
(*   StopReportsSuccess = FALSE: the send ends with a failure report (socket closed under it), as coded     *)
(*   StopReportsSuccess = TRUE : the send loop gives up waiting and reports success for what it did not      *)
(*                               write -- a third witness                                                *)
EXTENDS Naturals, Sequences, FiniteSets, TLC

CONSTANTS ShortWriteIgnored, AbortiveClose, StopReportsSuccess, K, SZ         \* K: kernel buffer capacity; SZ selects the sequence of message sizes
Sizes == CASE SZ = 1 -> <<1, 4, 5>> [] SZ = 2 -> <<3, 3>> [] SZ = 3 -> <<7, 1, 2>> [] OTHER -> <<2>>

VARIABLES m,        \* message being sent (Len(Sizes)+1 = done)
          off,      \* bytes of message m handed to the kernel so far
          kb,       \* kernel buffer: sequence of <<message, index>> in flight
          rcv,      \* what the peer has read
          res,      \* res[i] \in {"-", "ok", "fail"}
          broken,   \* connection reset by peer
          closed,   \* closed locally after the last send
          stop      \* disable() was called while sends were still in progress
vars == <<m, off, kb, rcv, res, broken, closed, stop>>
NM == Len(Sizes)

Init == m = 1 /\ off = 0 /\ kb = <<>> /\ rcv = <<>> /\ res = [i \in 1..NM |-> "-"] /\ broken = FALSE /\ closed = FALSE /\ stop = FALSE

Bytes(i, a, b) == [j \in 1..(b - a + 1) |-> <<i, a + j - 1>>]

(* select() says writable, send() accepts n bytes, 1 <= n <= min(remaining, free)                         *)
Send(n) == /\ m <= NM /\ ~broken
           /\ n >= 1 /\ n <= K - Len(kb) /\ n <= Sizes[m] - off
           /\ kb' = kb \o Bytes(m, off + 1, off + n)
           /\ IF ShortWriteIgnored \/ off + n = Sizes[m]
                THEN /\ res' = [res EXCEPT ![m] = "ok"] /\ m' = m + 1 /\ off' = 0      \* send_data returns True
                ELSE /\ off' = off + n /\ UNCHANGED <<m, res>>
           /\ UNCHANGED <<rcv, broken, closed, stop>>
SendFails == /\ m <= NM /\ broken
             /\ res' = [res EXCEPT ![m] = "fail"] /\ m' = m + 1 /\ off' = 0
             /\ UNCHANGED <<kb, rcv, broken, closed, stop>>
Drain(n) == /\ n >= 1 /\ n <= Len(kb)
            /\ rcv' = rcv \o SubSeq(kb, 1, n) /\ kb' = SubSeq(kb, n + 1, Len(kb))
            /\ UNCHANGED <<m, off, res, broken, closed, stop>>
Reset == /\ ~broken /\ ~closed /\ broken' = TRUE /\ kb' = <<>> /\ UNCHANGED <<m, off, rcv, res, closed, stop>>
(* the application closes the connection after its last send returned; n bytes in flight had reached the  *)
(* peer's kernel, the others are still queued locally                                                    *)
Close(n) == /\ m = NM + 1 /\ ~closed /\ ~broken /\ n <= Len(kb)
            /\ closed' = TRUE
            /\ kb' = IF AbortiveClose THEN SubSeq(kb, 1, n) ELSE kb
            /\ UNCHANGED <<m, off, rcv, res, broken, stop>>

(* disable() while message m is still being sent; the pending and all later sends end without writing more  *)
Stop == /\ m <= NM /\ ~stop /\ ~broken /\ stop' = TRUE /\ UNCHANGED <<m, off, kb, rcv, res, broken, closed>>
SendStopped == /\ m <= NM /\ stop /\ ~broken
               /\ res' = [res EXCEPT ![m] = IF StopReportsSuccess THEN "ok" ELSE "fail"] /\ m' = m + 1 /\ off' = 0
               /\ UNCHANGED <<kb, rcv, broken, closed, stop>>
DoSend == \E n \in 1..K : Send(n)
DoDrain == \E n \in 1..K : Drain(n)
DoClose == \E n \in 0..K : Close(n)
Next == DoSend \/ SendFails \/ DoDrain \/ Reset \/ DoClose \/ Stop \/ SendStopped
Spec == Init /\ [][Next]_vars /\ WF_vars(DoSend) /\ WF_vars(DoDrain) /\ WF_vars(SendFails) /\ WF_vars(SendStopped)

Stream == rcv \o kb                         \* everything the kernel accepted, in order
OfMsg(q, i) == SelectSeq(q, LAMBDA b : b[1] = i)
(* a send reported as successful put ALL its bytes, once and in order, on the stream (unless reset later) *)
AcceptedMeansOnStream == \A i \in 1..NM : (res[i] = "ok" /\ ~broken) => OfMsg(Stream, i) = Bytes(i, 1, Sizes[i])
InOrderNoDup == \A j, k \in 1..Len(Stream) : j < k =>
                   (Stream[j][1] < Stream[k][1] \/ (Stream[j][1] = Stream[k][1] /\ Stream[j][2] < Stream[k][2]))
EverythingArrives == <>(broken \/ stop \/ (m = NM + 1 /\ kb = <<>> /\ \A i \in 1..NM : OfMsg(rcv, i) = Bytes(i, 1, Sizes[i])))
=============================================================================
