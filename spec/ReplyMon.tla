------------------------------- MODULE ReplyMon -----------------------------
(* Property-level monitor for C08 (reply discipline of the SECS layer), from the property text.  *)
(* An inbound data message m = [s, f, w, cls, body] is received while COMMUNICATING:             *)
(*   cls  : what handles (s, f) on this handler -- a fact read from the handler's public          *)
(*          callback table, not from its behaviour:                                               *)
(*            "none"         no callback                                                          *)
(*            "builtin"      a callback shipped with the handler                                  *)
(*            "probe-reply"  a registered callback that returns the secondary (f+1)               *)
(*            "probe-none"   a registered callback that returns nothing                           *)
(*            "probe-raise"  a registered callback that raises                                    *)
(*            "override-selfreply" / "override-none"  a callback registered by the application for a function    *)
(*                           the handler also has a built-in handler for; it sends the secondary itself (when      *)
(*                           the W-bit is set) / sends nothing, and returns nothing: the application took over      *)
(*   body : "ok" (decodes against the catalogued structure) | "bad" (does not)                    *)
(* Allowed(m) is the set of allowed sequences of outbound data messages that carry m's system     *)
(* bytes, each as [s, f, hdr] (hdr = TRUE iff the body is the 10 header bytes of m, S9F5 only).    *)
EXTENDS Naturals, Sequences, FiniteSets, TLC

Rep(s, f, hdr) == [s |-> s, f |-> f, hdr |-> hdr]
One(x) == {<<x>>}
None == {<<>>}

Allowed(m) ==
  LET sec == Rep(m.s, m.f + 1, FALSE)
      abort == Rep(m.s, 0, FALSE)
      s9f5 == Rep(9, 5, TRUE)
  IN
  IF m.w THEN
     \* exactly one message with the same system bytes
     CASE m.cls = "none" -> One(s9f5)
       [] m.cls = "probe-reply" -> One(sec)
       [] m.cls = "probe-raise" -> One(abort)
       [] m.cls = "probe-none" -> None          \* the callback took over the answer itself (it sent none here)
       [] m.cls = "override-selfreply" -> One(sec)
       [] m.cls = "override-none" -> None
       [] m.cls = "builtin" -> IF m.body = "ok" THEN One(sec) \cup One(abort) ELSE One(abort) \cup One(sec)
  ELSE
     \* no reply expected; handled without error => no reply at all
     CASE m.cls \in {"none", "probe-reply", "probe-none", "override-selfreply", "override-none"} -> None
       [] m.cls = "probe-raise" -> None \cup One(abort)
       [] m.cls = "builtin" -> IF m.body = "ok" THEN None ELSE None \cup One(abort)

Verdict(m, echo) ==
  IF echo \in Allowed(m) THEN "ok"
  ELSE IF m.w /\ echo = <<>> THEN "primary-with-W-bit-not-answered"
  ELSE IF m.w /\ Len(echo) > 1 THEN "answered-more-than-once"
  ELSE IF ~m.w /\ echo # <<>> THEN "reply-although-W-bit-clear"
  ELSE "wrong-reply"
=============================================================================
