------------------------------ MODULE ReportGen -----------------------------
(* Behaviour spec over ReportMon: all histories of define/link/enable/request/trigger requests    *)
(* over small id domains; invariants of the monitor; labelled transition relation for replay.    *)
EXTENDS ReportMon, Json

CONSTANTS MaxRpts,    \* bound on the length of a link's report list (state constraint)
          Small       \* TRUE: core alphabet (complete transition relation is dumped for replay)

VARIABLES st, inp, out
vars == <<st, inp, out>>

Init == st = S0 /\ inp = [k |-> "Init"] /\ out = O(9, <<>>, FALSE)
Step(i) == /\ \E r \in Eff(st, i) : st' = r.s /\ out' = r.out
           /\ inp' = i
DoStep == \E i \in (IF Small THEN CoreInputs ELSE Inputs) : Step(i)
Next == DoStep
Spec == Init /\ [][Next]_vars

Bound == \A c \in Dom(st.links) : Len(st.links[c].rpts) <= MaxRpts
View == st
Dump == PrintT(<<"TR", ToJson([from |-> st, inp |-> inp', out |-> out', to |-> st'])>>)

(* ---- what the property says, as invariants of the monitor                                      *)
IntegrityInv == Integrity(st)
RefusedChangesNothing == [][(inp'.k \in {"Define", "Link"} /\ out'.ack \notin {0, 9}) => st' = st]_vars
ReportWellFormed == out.rpt # <<>> => \A i \in 1..Len(out.rpt[1]) : out.rpt[1][i].r \in Dom(st.reports)
NoEmptyLinks == \A c \in Dom(st.links) : st.links[c].rpts # <<>>
=============================================================================
