----------------------------- MODULE E30CommMon -----------------------------
(* Property-level monitor for C07: GEM establish-communications model (SEMI E30), written from   *)
(* the property statement.  The monitor is nondeterministic where the property leaves a choice:  *)
(* Eff(s, i) is the SET of allowed outcomes [s, out]; a judge keeps the set of monitor states    *)
(* that are consistent with what was observed.                                                  *)
(*                                                                                              *)
(* state s = [cm : communication state, link : "down"|"up", en : BOOLEAN, deny : BOOLEAN]        *)
(*           deny: the application answers establish-communication requests with COMMACK 1        *)
(*           (the documented override on_commack_requested)                                      *)
(* out     = [frames : sequence of required data frames, opt : set of optional frames,           *)
(*            comm : number of handler_communicating events, cb : callback invocations allowed,  *)
(*            dt : required elapsed time of a timer step ("T3" | "D" | "-")]                      *)
(* frame   = [s, f, w, sys ("echo"|"fresh"), ack (COMMACK of S1F14, 9 otherwise)]                *)
EXTENDS Naturals, Sequences, FiniteSets, TLC

States == {"DISABLED", "NOT_COMMUNICATING", "WAIT_CRA", "WAIT_DELAY", "COMMUNICATING"}

F(s, f, w, sys, ack) == [s |-> s, f |-> f, w |-> w, sys |-> sys, ack |-> ack]
S1F13out == F(1, 13, TRUE, "fresh", 9)
S1F14ok == F(1, 14, FALSE, "echo", 0)
S1F14deny == F(1, 14, FALSE, "echo", 1)

O(frames, opt, comm, cb, dt) == [frames |-> frames, opt |-> opt, comm |-> comm, cb |-> cb, dt |-> dt]
Quiet == O(<<>>, {}, 0, 0, "-")
One(s, out) == {[s |-> s, out |-> out]}

Inputs ==
  {[k |-> "Enable"], [k |-> "Disable"], [k |-> "LinkUp"], [k |-> "LinkLost"], [k |-> "Timer"]}
  \cup {[k |-> "EnableLinkUp"]}       \* the link is up and selected before the application's enable() call has returned
  \cup {[k |-> "S1F13"]}
  \cup {[k |-> "S1F14", ack |-> a] : a \in {0, 1, 256, 257}}    \* 256: COMMACK item of length 0, 257: two bytes 00 00 -- neither is COMMACK = 0
  \cup {[k |-> "Other", w |-> w] : w \in BOOLEAN}
  \cup {[k |-> "S1F14AtT3", ack |-> 0]}     \* the peer's accepting S1F14 is handled while the reply timer of the same attempt expires

(* feasibility is decided by harness facts only (enabled flag, link)                             *)
Feasible(s, i) ==
  CASE i.k = "Enable" -> ~s.en
    [] i.k = "Disable" -> s.en
    [] i.k = "EnableLinkUp" -> ~s.en
    [] i.k = "LinkUp" -> s.en /\ s.link = "down"
    [] i.k = "LinkLost" -> s.link = "up"
    [] i.k = "Timer" -> s.cm \in {"WAIT_CRA", "WAIT_DELAY"}
    [] i.k = "S1F14AtT3" -> s.cm = "WAIT_CRA" /\ s.link = "up"
    [] OTHER -> s.link = "up"

Eff(s, i) ==
  CASE i.k = "Enable" -> One([s EXCEPT !.en = TRUE, !.cm = "NOT_COMMUNICATING"], Quiet)
    [] i.k = "Disable" -> One([s EXCEPT !.en = FALSE, !.cm = "DISABLED", !.link = "down"], Quiet)
    [] i.k = "EnableLinkUp" ->     \* Enable and LinkUp overlapping: the outcome of Enable followed by LinkUp
         One([s EXCEPT !.en = TRUE, !.link = "up", !.cm = "WAIT_CRA"], O(<<S1F13out>>, {S1F13out}, 0, 0, "-"))
    [] i.k = "LinkUp" ->
         IF s.cm = "NOT_COMMUNICATING"
           THEN \* (a request queued while the link was down may go out in addition)
                One([s EXCEPT !.link = "up", !.cm = "WAIT_CRA"], O(<<S1F13out>>, {S1F13out}, 0, 0, "-"))
           ELSE \* an attempt cycle that survived a link loss simply goes on (an S1F13 that could not be
                \* sent while the link was down may go out now)
                One([s EXCEPT !.link = "up"], O(<<>>, {S1F13out}, 0, 0, "-"))
    [] i.k = "LinkLost" ->
         \* the established state is left; for a pending attempt the property leaves it open
         IF s.cm = "COMMUNICATING"
           THEN One([s EXCEPT !.link = "down", !.cm = "NOT_COMMUNICATING"], Quiet)
           ELSE {[s |-> [s EXCEPT !.link = "down", !.cm = c], out |-> Quiet] : c \in {s.cm, "NOT_COMMUNICATING"}}
    [] i.k = "Timer" ->
         \* the next timer of the attempt cycle expires
         IF s.cm = "WAIT_CRA"
           THEN One([s EXCEPT !.cm = "WAIT_DELAY"], O(<<>>, {}, 0, 0, "T3"))           \* unanswered attempt
           ELSE \* WAIT_DELAY: retry after the establish-communications delay
                One([s EXCEPT !.cm = "WAIT_CRA"],
                    IF s.link = "up" THEN O(<<S1F13out>>, {}, 0, 0, "D") ELSE O(<<>>, {}, 0, 0, "D"))
    [] i.k = "S1F13" ->
         CASE s.cm = "WAIT_CRA" /\ s.deny -> One(s, O(<<S1F14deny>>, {}, 0, 0, "-"))     \* refused by us: nothing is established
           [] s.cm = "WAIT_DELAY" /\ s.deny -> One(s, O(<<S1F14deny>>, {}, 0, 0, "-")) \cup One(s, Quiet)
           [] s.cm = "COMMUNICATING" /\ s.deny -> One(s, O(<<S1F14deny>>, {}, 0, 1, "-"))
           [] s.cm = "WAIT_CRA" -> One([s EXCEPT !.cm = "COMMUNICATING"], O(<<S1F14ok>>, {}, 1, 0, "-"))
           [] s.cm = "WAIT_DELAY" ->
                \* E30 lets the equipment accept a host-initiated request here; ignoring it is not
                \* excluded by the property either
                One([s EXCEPT !.cm = "COMMUNICATING"], O(<<S1F14ok>>, {}, 1, 0, "-")) \cup One(s, Quiet)
           [] s.cm = "COMMUNICATING" -> One(s, O(<<S1F14ok>>, {}, 0, 1, "-"))
           [] OTHER -> One(s, Quiet)
    [] i.k = "S1F14" ->
         CASE s.cm = "WAIT_CRA" /\ i.ack = 0 -> One([s EXCEPT !.cm = "COMMUNICATING"], O(<<>>, {}, 1, 0, "-"))
           [] s.cm = "WAIT_CRA" /\ i.ack # 0 /\ i.ack < 256 -> One([s EXCEPT !.cm = "WAIT_DELAY"], Quiet)     \* refused attempt
           [] s.cm = "WAIT_CRA" /\ i.ack >= 256 ->     \* COMMACK item malformed: refused, or ignored like no answer (T3 runs on) -- never accepted
                One([s EXCEPT !.cm = "WAIT_DELAY"], Quiet) \cup One(s, Quiet)
           [] OTHER -> One(s, Quiet)
    [] i.k = "S1F14AtT3" ->
         \* either order of the two events: the answer first (established; the timer is cancelled or finds nothing to do), or the
         \* expiry first (the attempt counts as unanswered, the late S1F14 is ignored in WAIT_DELAY) -- nothing in between
         One([s EXCEPT !.cm = "COMMUNICATING"], O(<<>>, {}, 1, 0, "-")) \cup One([s EXCEPT !.cm = "WAIT_DELAY"], O(<<>>, {}, 0, 0, "T3"))
    [] i.k = "Other" ->
         IF s.cm = "COMMUNICATING"
           THEN One(s, O(<<>>, {F(1, 2, FALSE, "echo", 9)}, 0, 1, "-"))      \* reply discipline itself: C08
           ELSE One(s, O(<<>>, {F(1, 0, FALSE, "echo", 9), F(9, 5, FALSE, "echo", 9)}, 0, 0, "-"))

(* an observation obs = [frames, comm, cb, dt, cm, wfc] matches outcome r                        *)
Cnt(q, x) == Cardinality({i \in 1..Len(q) : q[i] = x})
Elems(q) == {q[i] : i \in 1..Len(q)}
FramesOK(obsf, req, opt) ==
  \A x \in Elems(obsf) \cup Elems(req) :
     /\ Cnt(obsf, x) >= Cnt(req, x)
     /\ (x \notin opt => Cnt(obsf, x) = Cnt(req, x))

Matches(r, obs) ==
  /\ FramesOK(obs.frames, r.out.frames, r.out.opt)
  /\ obs.comm = r.out.comm
  /\ obs.cb <= r.out.cb
  /\ (r.out.dt # "-" => obs.dt = r.out.dt)
  /\ obs.cm = r.s.cm
  /\ obs.wfc = (r.s.cm = "COMMUNICATING")      \* waitfor_communicating() reports "established" exactly in COMMUNICATING
=============================================================================
