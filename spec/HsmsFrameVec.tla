---------------------------- MODULE HsmsFrameVec ----------------------------
(* Boundary universe of HSMS frames: TLC checks Decode(Encode(f)) = f and the length rule on     *)
(* every vector and prints the vectors for replay against secsgem.hsms (Leg R of C04).          *)
EXTENDS HsmsFrame, TLC, Json

Sessions == {0, 1, 255, 256, 32767, 32768, 65535}
Streams == {0, 1, 64, 127}
Functions == {0, 1, 128, 255}
STypes == {0, 1, 2, 3, 4, 5, 6, 7, 9}
Systems == {<<0, 0, 0, 0>>, <<0, 0, 0, 1>>, <<127, 255, 255, 255>>, <<128, 0, 0, 0>>, <<255, 255, 255, 255>>, <<1, 2, 3, 4>>}
SmallLens == {0, 1, 2}
BigLens == {254, 255, 256, 65525, 65526, 65536, 100000}

Small == [session : Sessions, w : BOOLEAN, stream : Streams, function : Functions, ptype : {0},
          stype : STypes, system : Systems, blen : SmallLens]
Big == [session : {0, 65535}, w : {TRUE}, stream : {1, 127}, function : {3}, ptype : {0}, stype : {0},
        system : {<<1, 2, 3, 4>>}, blen : BigLens]

(* PType: only 0 (SECS-II) is assigned, but the field is a byte and is carried unchanged                   *)
PT == [session : {0, 65535}, w : BOOLEAN, stream : {0, 127}, function : {0, 255}, ptype : {1, 127, 128, 255}, stype : {0, 1, 9},
       system : {<<0, 0, 0, 1>>, <<255, 255, 255, 255>>}, blen : {0, 2}]

Mk(v) == [session |-> v.session, w |-> v.w, stream |-> v.stream, function |-> v.function, ptype |-> v.ptype,
          stype |-> v.stype, system |-> v.system, body |-> Pattern(v.blen)]

RoundTrip(v) == LET f == Mk(v) b == Encode(f) IN
                  /\ Decode(b) = f
                  /\ Len(b) = 14 + v.blen
                  /\ FrameLen(b) = Len(b)
                  /\ Complete(b) /\ ~Complete(SubSeq(b, 1, Len(b) - 1))

ASSUME \A v \in Small \cup Big \cup PT : RoundTrip(v)
ASSUME \A v \in Small \cup Big \cup PT :
         PrintT(<<"VEC", ToJson([f |-> v, head |-> SubSeq(Encode(Mk(v)), 1, 14)])>>)
=============================================================================
