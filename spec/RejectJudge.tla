------------------------------ MODULE RejectJudge -----------------------------
(* C18, clause "a request that is not allowed in the current state raises and changes nothing", over histories: a sequence of   *)
(* requests is made through the machine's public request methods on one object (full), and the same sequence without the          *)
(* rejected requests on a fresh object (filt).  Nothing a rejected request does may be seen by any later request:                  *)
(*   - a rejected step leaves current state and active set as they were and fires no event;                                      *)
(*   - the accepted steps of the full run and the steps of the filtered run agree in request, outcome, current state, active      *)
(*     set and events fired.                                                                                                   *)
(* TRACE_FILE: JSON array of [id, init : [cur, active], full : Seq(step), filt : Seq(step)], step = [t, ok, cur, active, ev]       *)
EXTENDS Naturals, Sequences, TLC, Json, IOUtils
Runs == JsonDeserialize(IOEnv.TRACE_FILE)

Before(r, i) == IF i = 1 THEN r.init ELSE [cur |-> r.full[i - 1].cur, active |-> r.full[i - 1].active]
RejectedIdx(r) == {i \in 1..Len(r.full) : ~r.full[i].ok}
Accepted(r) == SelectSeq(r.full, LAMBDA st : st.ok)
Same(a, b) == a.t = b.t /\ a.ok = b.ok /\ a.cur = b.cur /\ a.active = b.active /\ a.ev = b.ev

Clause(r) ==
  IF \E i \in RejectedIdx(r) : r.full[i].cur # Before(r, i).cur \/ r.full[i].active # Before(r, i).active
    THEN "rejected-request-changed-the-state"
  ELSE IF \E i \in RejectedIdx(r) : r.full[i].ev # <<>> THEN "rejected-request-fired-events"
  ELSE IF Len(Accepted(r)) # Len(r.filt) THEN "request-accepted-only-with-or-without-the-rejected-ones"
  ELSE IF \E i \in 1..Len(r.filt) : ~Same(Accepted(r)[i], r.filt[i]) THEN "rejected-request-changed-a-later-transition"
  ELSE "ok"
FirstDiff(r) ==
  IF Len(Accepted(r)) = Len(r.filt) /\ \E i \in 1..Len(r.filt) : ~Same(Accepted(r)[i], r.filt[i])
    THEN CHOOSE i \in 1..Len(r.filt) : ~Same(Accepted(r)[i], r.filt[i]) /\ \A j \in 1..(i - 1) : Same(Accepted(r)[j], r.filt[j])
    ELSE 0

ASSUME \A n \in 1..Len(Runs) : PrintT(<<"V", ToJson([id |-> Runs[n].id, clause |-> Clause(Runs[n]), at |-> FirstDiff(Runs[n])])>>)
=============================================================================
