----------------------------- MODULE GemCommImpl -----------------------------
(* C07, implementation-shaped: the GEM communication state machine (secsgem/gem/communication_state_machine.py on              *)
(* secsgem/common/state_machine.py) in WAIT_CRA with its reply timer running, and the two threads that can request a          *)
(* transition at that moment:                                                                                               *)
(*   dispatcher thread   handles the peer's accepting S1F14: s1f14received   (WAIT_CRA -> COMMUNICATING)                       *)
(*   T3 timer thread     the reply timer expires: communicationreqfail      (WAIT_CRA -> WAIT_DELAY)                          *)
(* StateMachine._perform_transition, one action per step: check the source state; run the leave handlers of the current state   *)
(* (WAIT_CRA: cancel the T3 timer -- no effect on a timer whose function already runs); store the destination; run its enter      *)
(* handlers (COMMUNICATING: fire handler_communicating, release waitfor_communicating; WAIT_DELAY: start the delay timer).       *)
(*   Atomic = FALSE : as coded -- no mutual exclusion (known findings C18-par-nolock, C07-t3-expiry-races-s1f14): both requests    *)
(*     can pass the check; "established" is then reported while the state ends in WAIT_DELAY and the attempt is repeated.  TLC        *)
(*     must refute it.  Atomic = TRUE : transitions serialised -- only the two serial outcomes remain.                             *)
EXTENDS Naturals, TLC
CONSTANTS Atomic

Thr == {"disp", "t3"}
Dest(t) == IF t = "disp" THEN "COMMUNICATING" ELSE "WAIT_DELAY"
VARIABLES cur,        \* _current_state
          pc,         \* per thread: "idle" | "check" | "leave" | "switch" | "enter" | "done" | "refused"
          lock,       \* holder of the transition lock ("-" if free; only used when Atomic)
          reported,   \* handler_communicating fired / waitfor_communicating released
          delaytimer  \* the establish-communications delay timer runs (the attempt will be repeated)
vars == <<cur, pc, lock, reported, delaytimer>>

Init == cur = "WAIT_CRA" /\ pc = [t \in Thr |-> "idle"] /\ lock = "-" /\ reported = FALSE /\ delaytimer = FALSE

Request(t) == /\ pc[t] = "idle" /\ (Atomic => lock = "-")
              /\ lock' = (IF Atomic THEN t ELSE lock) /\ pc' = [pc EXCEPT ![t] = "check"] /\ UNCHANGED <<cur, reported, delaytimer>>
Check(t) == /\ pc[t] = "check"
            /\ IF cur = "WAIT_CRA" THEN pc' = [pc EXCEPT ![t] = "leave"] /\ UNCHANGED lock
               ELSE pc' = [pc EXCEPT ![t] = "refused"] /\ lock' = (IF Atomic THEN "-" ELSE lock)      \* WrongSourceStateError
            /\ UNCHANGED <<cur, reported, delaytimer>>
Leave(t) == pc[t] = "leave" /\ pc' = [pc EXCEPT ![t] = "switch"] /\ UNCHANGED <<cur, lock, reported, delaytimer>>      \* cancel T3: too late for "t3"
Switch(t) == pc[t] = "switch" /\ cur' = Dest(t) /\ pc' = [pc EXCEPT ![t] = "enter"] /\ UNCHANGED <<lock, reported, delaytimer>>
Enter(t) == /\ pc[t] = "enter" /\ pc' = [pc EXCEPT ![t] = "done"]
            /\ IF t = "disp" THEN reported' = TRUE /\ UNCHANGED delaytimer ELSE delaytimer' = TRUE /\ UNCHANGED reported
            /\ lock' = (IF Atomic THEN "-" ELSE lock) /\ UNCHANGED cur

Next == \E t \in Thr : Request(t) \/ Check(t) \/ Leave(t) \/ Switch(t) \/ Enter(t)
Spec == Init /\ [][Next]_vars /\ WF_vars(Next)

Quiet == \A t \in Thr : pc[t] \in {"done", "refused"}
(* one of the two serial orders: answered in time (established, no retry pending) or unanswered (not established, retry pending)    *)
SerialOutcome == Quiet => \/ (cur = "COMMUNICATING" /\ reported /\ ~delaytimer)
                          \/ (cur = "WAIT_DELAY" /\ ~reported /\ delaytimer)
ReportedMeansEstablished == (Quiet /\ reported) => cur = "COMMUNICATING"
Terminates == <>Quiet
=============================================================================
