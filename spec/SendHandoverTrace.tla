------------------------- MODULE SendHandoverTrace --------------------------
(* Trace validation for SendHandover (C09 / C10): executions of the real send path -- 1-3 application threads calling       *)
(* HsmsProtocol.send_message over the real TcpServerConnection (simulated sockets), the peer draining or leaving -- are        *)
(* recorded as one event per operation on the shared objects (send queue, receiver trigger, BlockSendInfo) at the moment it    *)
(* takes effect and must be behaviours of SendHandover; its invariants are checked on every state on the way.                 *)
(* TRACE_FILE: JSON array of [id, ns, ev : Seq([e, s, ok])]   (unused fields 0 / FALSE)                                        *)
(*   Call(s)      send_message entered by sender s (s = ns + 1: the connection thread, Separate.req)                            *)
(*   Put(s)       _send_queue.put          Trig(s)  trigger_receiver() by the thread that just queued a block                     *)
(*   Kick         any other set of the receiver trigger (inbound data, stop())                                                  *)
(*   RWake / RClear   the receiver loop's trigger.wait() returned / trigger.clear()                                            *)
(*   RGet(s)      _send_queue.get returned the block of sender s                                                               *)
(*   RRes(s, ok)  BlockSendInfo.resolve(ok) entered                                                                            *)
(*   Got(s, ok)   send_message returned ok                                                                                     *)
(*   Notice       the connection thread entered the protocol's disconnecting handler        Finish   ProtocolDispatcher.stop()   *)
(*                returned (receiver loop ended)                                                                               *)
(* The moment from which send_data fails is not observable (bytes already accepted by the socket count as sent): the link       *)
(* variable follows the observed results -- a failed send puts it "down" -- instead of a logged PeerCloses; emptiness tests of   *)
(* the queue are not logged (silent step TSeesEmpty).                                                                           *)
EXTENDS SendHandover, Json, IOUtils

Traces == JsonDeserialize(IOEnv.TRACE_FILE)
VARIABLES tid, l
tvars == <<vars, tid, l>>
Ev == Traces[tid].ev
Cur == Ev[l]
Is(e) == l <= Len(Ev) /\ Cur.e = e
Adv == l' = l + 1 /\ UNCHANGED tid

TInit == Init /\ tid \in 1..Len(Traces) /\ l = 1

(* the emptiness tests of the send queue are not logged: finding it empty is a silent step of the receiver loop             *)
TSeesEmpty == /\ rpc = "check" /\ sq = <<>> /\ rpc' = "wait"
              /\ UNCHANGED <<pc, res, ret, sq, rtrig, ritem, link, noticed, sent, closed, tid, l>>
(* (a send_message entered after the close sequence ended is recorded as well: its block waits for the next connection)              *)
TCall == /\ Is("Call") /\ pc[Cur.s] = "idle" /\ (Cur.s = Conn => noticed)
         /\ pc' = [pc EXCEPT ![Cur.s] = "put"] /\ UNCHANGED <<res, ret, sq, rtrig, rpc, ritem, link, noticed, sent, closed>> /\ Adv
TPut == Is("Put") /\ Put(Cur.s) /\ Adv
TTrig == Is("Trig") /\ Trig(Cur.s) /\ Adv
TKick == Is("Kick") /\ rtrig' = TRUE /\ UNCHANGED <<pc, res, ret, sq, rpc, ritem, link, noticed, sent, closed>> /\ Adv
TRWake == /\ Is("RWake") /\ rpc = "wait" /\ rtrig
          /\ rpc' = "clear" /\ UNCHANGED <<pc, res, ret, sq, rtrig, ritem, link, noticed, sent, closed>> /\ Adv
TRClear == Is("RClear") /\ RClear /\ Adv
TRGet == /\ Is("RGet") /\ rpc = "check" /\ sq # <<>> /\ Head(sq) = Cur.s
         /\ rpc' = "send" /\ ritem' = Head(sq) /\ sq' = Tail(sq)
         /\ UNCHANGED <<pc, res, ret, rtrig, link, noticed, sent, closed>> /\ Adv
TRRes == /\ Is("RRes") /\ rpc = "send" /\ ritem = Cur.s /\ res[Cur.s] = "none"
         /\ IF Cur.ok
              THEN /\ sent' = sent \cup {ritem} /\ res' = [res EXCEPT ![ritem] = "ok"] /\ rpc' = "check" /\ UNCHANGED link
              ELSE /\ res' = [res EXCEPT ![ritem] = "err"] /\ link' = "down" /\ UNCHANGED sent
                   /\ rpc' = IF ReturnOnFailure THEN "wait" ELSE "check"
         /\ UNCHANGED <<pc, ret, sq, rtrig, ritem, noticed, closed>> /\ Adv
TGot == /\ Is("Got") /\ Got(Cur.s) /\ ret'[Cur.s] = (IF Cur.ok THEN "T" ELSE "F") /\ Adv
TNotice == /\ Is("Notice") /\ ~noticed /\ noticed' = TRUE /\ link' = "down"
           /\ UNCHANGED <<pc, res, ret, sq, rtrig, rpc, ritem, sent, closed>> /\ Adv
TFinish == /\ Is("Finish") /\ ~closed /\ closed' = TRUE /\ (pc[Conn] \in {"idle", "done"})
           /\ UNCHANGED <<pc, res, ret, sq, rtrig, rpc, ritem, link, noticed, sent>> /\ Adv

TNext == TSeesEmpty \/ TCall \/ TPut \/ TTrig \/ TKick \/ TRWake \/ TRClear \/ TRGet \/ TRRes \/ TGot \/ TNotice \/ TFinish
TSpec == TInit /\ [][TNext]_tvars
Progress == PrintT(<<"AT", ToJson([id |-> Traces[tid].id, l |-> l, n |-> Len(Ev)])>>)
=============================================================================
