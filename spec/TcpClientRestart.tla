--------------------------- MODULE TcpClientRestart --------------------------
(* C09 (after the link was lost and disable() was called the endpoint stays NOT CONNECTED until it is enabled again): the restart *)
(* of the connection thread by the close handling of a connection (TcpClientConnection._disconnected: "if self.enabled: start    *)
(* the connection thread") against disable() of the application (secsgem/common/tcp_client_connection.py).  Client-side twin of  *)
(* TcpServerRestart.                                                                                                             *)
(*   receiver thread (close handling)   R1 read enabled; R2 start the connection thread if it was set; R3 _thread_running = False *)
(*   disable()                          enabled = False; [disconnect()]; if the connection thread is alive: set the stop flag and *)
(*                                      wait until it is cleared or the thread is gone; clear the flag; disconnect()              *)
(*   connection thread                  idles T5 in steps of 0.2 s (each step: if the stop flag is set clear it and end), then   *)
(*                                      connects: _connected = True, starts a receiver thread, reports CONNECTED                 *)
(*   DisconnectFirst = FALSE : as originally coded disable() looks for a connection thread BEFORE it waits for the connection's   *)
(*     receiver thread: a close handling that read enabled = True just before starts a connection thread behind disable()'s back; *)
(*     nobody stops it, it idles T5 and connects the disabled endpoint.  Regression witness.                                     *)
(*     TRUE: after fix 8a4dcbb: disable() waits for the receiver thread first.                                                    *)
EXTENDS Naturals, TLC
CONSTANTS DisconnectFirst, Ticks          \* Ticks: idle steps before the connection thread connects (T5 / 0.2 s, abstracted)

VARIABLES enabled, running,   \* enabled, _thread_running (receiver thread of the lost connection)
          rpc, enread,        \* receiver thread: "r1" | "r2" | "r3" | "end"; the value of enabled it read
          app,                \* "a1" | "a1b" | "a2" | "a2w" | "a3" | "done"
          cpc,                \* connection thread: "none" | "idle" | "stopped" | "connected"
          left,               \* idle steps left
          conn,               \* a connection made by the connection thread is up
          stopflag
vars == <<enabled, running, rpc, enread, app, cpc, left, conn, stopflag>>

Init == /\ enabled = TRUE /\ running = TRUE /\ rpc = "r1" /\ enread = FALSE /\ app = "a1"
        /\ cpc = "none" /\ left = Ticks /\ conn = FALSE /\ stopflag = FALSE

(* ---- close handling of the lost connection (receiver thread)                                                     *)
R1 == rpc = "r1" /\ enread' = enabled /\ rpc' = "r2" /\ UNCHANGED <<enabled, running, app, cpc, left, conn, stopflag>>
R2 == /\ rpc = "r2" /\ rpc' = "r3"
      /\ IF enread THEN cpc' = "idle" ELSE UNCHANGED cpc
      /\ UNCHANGED <<enabled, running, enread, app, left, conn, stopflag>>
R3 == rpc = "r3" /\ running' = FALSE /\ rpc' = "end" /\ UNCHANGED <<enabled, enread, app, cpc, left, conn, stopflag>>

(* ---- application: disable()                                                                                      *)
Alive == cpc = "idle"
A1 == /\ app = "a1" /\ enabled' = FALSE /\ app' = (IF DisconnectFirst THEN "a1b" ELSE "a2")
      /\ UNCHANGED <<running, rpc, enread, cpc, left, conn, stopflag>>
A1b == app = "a1b" /\ ~running /\ app' = "a2" /\ UNCHANGED <<enabled, running, rpc, enread, cpc, left, conn, stopflag>>
A2 == /\ app = "a2"                                                 \* if self.connection_thread and it is alive: set the flag
      /\ IF Alive THEN stopflag' = TRUE /\ app' = "a2w" ELSE app' = "a3" /\ UNCHANGED stopflag
      /\ UNCHANGED <<enabled, running, rpc, enread, cpc, left, conn>>
A2w == /\ app = "a2w" /\ (~stopflag \/ ~Alive) /\ stopflag' = FALSE /\ app' = "a3"
       /\ UNCHANGED <<enabled, running, rpc, enread, cpc, left, conn>>
A3 == /\ app = "a3" /\ ~running /\ app' = "done" /\ conn' = FALSE                     \* disconnect(): also ends a connection the thread just made
      /\ UNCHANGED <<enabled, running, rpc, enread, cpc, left, stopflag>>          \* (its close handling reads enabled = False: no restart)

(* ---- connection thread                                                                                           *)
CTick == /\ cpc = "idle" /\ left > 0
         /\ IF stopflag THEN stopflag' = FALSE /\ cpc' = "stopped" /\ UNCHANGED left
            ELSE left' = left - 1 /\ UNCHANGED <<stopflag, cpc>>
         /\ UNCHANGED <<enabled, running, rpc, enread, app, conn>>
CConnect == cpc = "idle" /\ left = 0 /\ cpc' = "connected" /\ conn' = TRUE /\ UNCHANGED <<enabled, running, rpc, enread, app, left, stopflag>>

Next == R1 \/ R2 \/ R3 \/ A1 \/ A1b \/ A2 \/ A2w \/ A3 \/ CTick \/ CConnect
Spec == Init /\ [][Next]_vars /\ WF_vars(Next)

(* disable() returns only when the close handling has ended; from then on the endpoint neither is nor gets connected             *)
(* (a connection made while disable() waits for the thread is closed by disable() itself: allowed)                              *)
QuietWhileDisabled == app = "done" => ~conn /\ cpc # "idle"
StaysQuiet == [][(app = "done" /\ ~conn) => ~conn']_vars
DisableReturns == <>(app = "done")
=============================================================================
