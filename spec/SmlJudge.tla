------------------------------- MODULE SmlJudge -----------------------------
(* TLC judges records from the real SML printer / parser (C15).  REC_FILE: JSON array of               *)
(*   [k:"accepted", id, toks]            the real parser returned an item for this token string            *)
(*   [k:"printed", id, toks, shape]      tokens of to_sml() of an item with structure `shape`               *)
EXTENDS SmlRef, Json, IOUtils
Recs == JsonDeserialize(IOEnv.REC_FILE)

RECURSIVE NormShape(_)
NormShape(s) == [t |-> s.t, n |-> IF s.t \in {"A", "J"} THEN 0 ELSE s.n,
                 kids |-> [i \in 1..Len(s.kids) |-> NormShape(s.kids[i])]]

Verdict(r) ==
  IF r.k = "accepted"
    THEN IF MissingClose(r.toks) THEN "item-returned-for-text-with-missing-closing-bracket"
         ELSE IF UnknownType(r.toks) THEN "item-returned-for-text-with-unknown-type"
         ELSE "ok"
    ELSE LET p == Shape(r.toks) IN
         IF ~p.ok THEN "printed-sml-not-well-formed"
         ELSE IF p.next # Len(r.toks) + 1 THEN "printed-sml-has-trailing-tokens"
         ELSE IF NormShape(p.sh) # NormShape(r.shape) THEN "printed-sml-structure-differs-from-item"
         ELSE "ok"

ASSUME \A n \in 1..Len(Recs) : LET v == Verdict(Recs[n]) IN
          IF v = "ok" THEN TRUE ELSE PrintT(<<"V", ToJson([id |-> Recs[n].id, clause |-> v])>>)
ASSUME PrintT(<<"N", ToJson([n |-> Len(Recs)])>>)
=============================================================================
