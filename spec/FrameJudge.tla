------------------------------ MODULE FrameJudge ----------------------------
(* Trace validation for C04: recorded runs of the real receive path.                            *)
(* TRACE_FILE: JSON array of [id, lens : Seq(Nat), segs : Seq(Nat), obs : Seq(Seq(index))]       *)
(*   obs[i] = indices of the frames delivered (at quiescence) after segment i, cumulative       *)
(* C04 does not say *when* a complete frame is handed over, only that the same messages arrive *)
(* in the same order: intermediate observations must be a prefix 1..n with n <= complete       *)
(* frames; the last one must be complete.  (Eager hand-over is C09's business.)                 *)
EXTENDS Naturals, Sequences, TLC, Json, IOUtils

Traces == JsonDeserialize(IOEnv.TRACE_FILE)

RECURSIVE Sum(_, _)
Sum(q, n) == IF n = 0 THEN 0 ELSE q[n] + Sum(q, n - 1)
RECURSIVE CompleteIn(_, _, _)
CompleteIn(q, c, j) == IF j < Len(q) /\ Sum(q, j + 1) <= c THEN CompleteIn(q, c, j + 1) ELSE j

RECURSIVE Run(_, _, _)
Run(t, i, fed) ==
  IF i > Len(t.segs) THEN [ok |-> TRUE, at |-> 0, want |-> 0]
  ELSE LET c == fed + t.segs[i]
           want == CompleteIn(t.lens, c, 0)
           n == Len(t.obs[i])
           \* always: what was delivered is frames 1..n in order, none early, none duplicated;
           \* once the whole stream was fed: everything was delivered
           good == /\ t.obs[i] = [j \in 1..n |-> j]
                   /\ n <= want
                   /\ (i = Len(t.segs) => n = want)
       IN IF good THEN Run(t, i + 1, c)
          ELSE [ok |-> FALSE, at |-> i, want |-> want]

ASSUME \A n \in 1..Len(Traces) :
         LET v == Run(Traces[n], 1, 0)
         IN PrintT(<<"V", ToJson([id |-> Traces[n].id, ok |-> v.ok, at |-> v.at, want |-> v.want])>>)
=============================================================================
