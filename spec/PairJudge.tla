------------------------------- MODULE PairJudge ----------------------------
(* Trace validation for C20: one record per session of a real GemHostHandler and a real                  *)
(* GemEquipmentHandler connected through the real TCP classes (simulated sockets, virtual time).         *)
(* TRACE_FILE: JSON array of                                                                          *)
(*  [id, bound : Nat (virtual seconds), comm : Seq([phase, ok : BOOLEAN, dt : Nat])  -- initial and after     *)
(*   each disable/enable cycle: both sides COMMUNICATING again within dt seconds?                         *)
(*   calls : Seq([api, want, got])  host service call: what the equipment holds vs what the call returned  *)
(*   triggered : Seq(STRING), received : Seq(STRING)  collection events triggered while enabled / received]  *)
EXTENDS Naturals, Sequences, TLC, Json, IOUtils
Traces == JsonDeserialize(IOEnv.TRACE_FILE)

Clause(t) ==
  IF \E i \in 1..Len(t.comm) : ~t.comm[i].ok \/ t.comm[i].dt > t.bound THEN "communication-not-reached-within-bound"
  ELSE IF \E i \in 1..Len(t.calls) : t.calls[i].got # t.calls[i].want THEN "host-call-does-not-return-what-the-equipment-holds"
  ELSE IF t.received # t.triggered THEN "collection-events-not-received-exactly-once-in-order"
  ELSE "ok"
FirstBad(t) ==
  IF \E i \in 1..Len(t.calls) : t.calls[i].got # t.calls[i].want
    THEN (CHOOSE i \in 1..Len(t.calls) : t.calls[i].got # t.calls[i].want /\ \A j \in 1..(i-1) : t.calls[j].got = t.calls[j].want)
    ELSE 0

ASSUME \A n \in 1..Len(Traces) :
         PrintT(<<"V", ToJson([id |-> Traces[n].id, clause |-> Clause(Traces[n]), call |-> FirstBad(Traces[n])])>>)
=============================================================================
