---------------------------- MODULE ReportInputs ----------------------------
(* prints the input alphabet of ReportMon for the random drivers *)
EXTENDS ReportMon, Json
ASSUME \A i \in Inputs : PrintT(<<"IN", ToJson(i)>>)
=============================================================================
