-------------------------- MODULE TcpClientLifecycle -------------------------
(* C09: stop-flag handshake between TcpClientConnection.disable and the connect thread                    *)
(* (secsgem/common/tcp_client_connection.py): the thread looks at the flag only while idling between two    *)
(* attempts.  Fixed = FALSE: disable waits for the flag only; Fixed = TRUE: also ends when the thread ended.   *)
EXTENDS Naturals, TLC
CONSTANTS Fixed
VARIABLES ct,     \* connect thread pc: "connecting","idle","done"
          flag,   \* stop_connection_thread
          app,    \* "idle","d1","wait","returned"
          up      \* a peer is listening (connect succeeds)
vars == <<ct, flag, app, up>>
Init == ct = "connecting" /\ flag = FALSE /\ app = "idle" /\ up \in BOOLEAN
CConnect == /\ ct = "connecting"
            /\ ct' = IF up THEN "done" ELSE "idle"                  \* success: start receiver, on_connected, thread ends
            /\ UNCHANGED <<flag, app, up>>
CIdle == /\ ct = "idle"
         /\ IF flag THEN flag' = FALSE /\ ct' = "done"              \* __idle sees the flag: clear it, give up
                    ELSE ct' = "connecting" /\ UNCHANGED flag       \* T5 elapsed: next attempt
         /\ UNCHANGED <<app, up>>
PeerUp == ~up /\ up' = TRUE /\ UNCHANGED <<ct, flag, app>>
D1 == app = "idle" /\ app' = "d1" /\ UNCHANGED <<ct, flag, up>>
D2 == /\ app = "d1"
      /\ IF ct # "done" THEN flag' = TRUE ELSE UNCHANGED flag
      /\ app' = "wait" /\ UNCHANGED <<ct, up>>
DWait == /\ app = "wait" /\ (~flag \/ (Fixed /\ ct = "done"))
         /\ flag' = FALSE /\ app' = "returned" /\ UNCHANGED <<ct, up>>
Next == CConnect \/ CIdle \/ PeerUp \/ D1 \/ D2 \/ DWait
Spec == Init /\ [][Next]_vars /\ WF_vars(CConnect) /\ WF_vars(CIdle) /\ WF_vars(D2) /\ WF_vars(DWait)
DisableReturns == (app = "d1") ~> (app = "returned")
=============================================================================
