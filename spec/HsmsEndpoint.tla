----------------------------- MODULE HsmsEndpoint ---------------------------
(* C05 at thread granularity: connection establishment and the select procedure of                      *)
(* secsgem/hsms/protocol.py with the threads of secsgem/common/protocol_dispatcher.py and                  *)
(* secsgem/common/tcp_*_connection.py, one action per shared-state access:                                *)
(*                                                                                                       *)
(*   conn thread   (accept / connect thread)  HsmsProtocol._on_connected:                                  *)
(*                    CsConnect  connection_state.connect()   NOT CONNECTED -> NOT SELECTED                 *)
(*                               (enter handler: active mode spawns the select thread)                      *)
(*                    PrStart    ProtocolDispatcher.start()   the receive / send path begins to run          *)
(*   receive path  (protocol_receiver thread) Frame: a complete frame goes to the dispatch queue             *)
(*                                            WireOut: the head of the send queue is written, its sender      *)
(*                                                     is released                                          *)
(*   dispatcher    (protocol_dispatcher thread) Dispatch + the handler steps of Select.req / Select.rsp /     *)
(*                                              data messages                                              *)
(*   select thread (active mode)              send_select_req: SelReg, SelEnq, SelSent, SelGet / SelTimeout   *)
(*   peer                                      PeerSend (script), PeerAnswer (to our Select.req)              *)
(*                                                                                                       *)
(* Constants switch two orderings the code depends on:                                                    *)
(*   StateBeforeReceive = TRUE  as coded (fix a443069); FALSE = the receive path is started before the       *)
(*                              state machine leaves NOT CONNECTED (the original defect)                     *)
(*   QueueBeforeSend    = TRUE  as coded; FALSE = the response queue is registered after the request was      *)
(*                              written (seeded change C20-2 / C06-2)                                        *)
EXTENDS Naturals, Sequences, FiniteSets, TLC

CONSTANTS Active, StateBeforeReceive, QueueBeforeSend, PeerScript
(* PeerScript: what the peer sends on its own: 1 = <<Select.req p1>>, 2 = <<Select.req p1, Data p2>>,      *)
(*             3 = <<Data p2, Select.req p1, Data p3>>, 0 = nothing                                         *)

F(t, sys, st) == [t |-> t, sys |-> sys, st |-> st]
Script == CASE PeerScript = 1 -> <<F("SelReq", "p1", 0)>>
            [] PeerScript = 2 -> <<F("SelReq", "p1", 0), F("Data", "p2", 0)>>
            [] PeerScript = 3 -> <<F("Data", "p2", 0), F("SelReq", "p1", 0), F("Data", "p3", 0)>>
            [] OTHER -> <<>>
None == F("none", "-", 0)

VARIABLES cs,         \* "NC" | "NS" | "SEL"
          cpc,        \* conn thread: "wait" | "c1" | "c2" | "done"
          prOn,       \* ProtocolDispatcher started
          sock,       \* inbound frames in the socket, not yet framed
          dq,         \* dispatch queue
          dpc, dcur,  \* dispatcher: program counter and message in hand
          sendq,      \* send queue: <<[f, by]>>
          sentFor,    \* senders whose block was written (BlockSendInfo resolved)
          wire,       \* frames written to the peer
          queues,     \* system ids with a registered response queue
          qbuf,       \* content of our select transaction's response queue
          spc,        \* select thread: "none" | "s0" | "s1" | "s2" | "s3" | "s3b" | "s4" | "ok" | "refused" | "timeout"
          delivered,  \* data messages handed to the application
          errs,       \* exceptions swallowed by the dispatcher ("invalid transition", KeyError)
          peerLeft,   \* rest of the peer's script
          peerWill,   \* how the peer treats our Select.req: "ok" | "refuse" | "silent"
          answered,   \* the peer answered our Select.req
          nData       \* number of data messages the peer has sent (history)
vars == <<cs, cpc, prOn, sock, dq, dpc, dcur, sendq, sentFor, wire, queues, qbuf, spc, delivered, errs, peerLeft, peerWill, answered, nData>>

Init == /\ cs = "NC" /\ cpc = "wait" /\ prOn = FALSE /\ sock = <<>> /\ dq = <<>> /\ dpc = "idle" /\ dcur = None
        /\ sendq = <<>> /\ sentFor = {} /\ wire = <<>> /\ queues = {} /\ qbuf = <<>> /\ spc = "none"
        /\ delivered = <<>> /\ errs = 0 /\ peerLeft = Script /\ answered = FALSE /\ nData = 0
        /\ peerWill \in (IF Active THEN {"ok", "refuse", "silent"} ELSE {"silent"})

(* ---- conn thread                                                                                      *)
Accept == cpc = "wait" /\ cpc' = "c1"
          /\ UNCHANGED <<cs, prOn, sock, dq, dpc, dcur, sendq, sentFor, wire, queues, qbuf, spc, delivered, errs, peerLeft, peerWill, answered, nData>>
DoCsConnect == /\ cs' = IF cs = "NC" THEN "NS" ELSE cs
               /\ spc' = IF Active /\ cs = "NC" THEN "s0" ELSE spc
DoPrStart == prOn' = TRUE
CsConnect == /\ cpc = (IF StateBeforeReceive THEN "c1" ELSE "c2")
             /\ DoCsConnect /\ cpc' = (IF StateBeforeReceive THEN "c2" ELSE "done")
             /\ UNCHANGED <<prOn, sock, dq, dpc, dcur, sendq, sentFor, wire, queues, qbuf, delivered, errs, peerLeft, peerWill, answered, nData>>
PrStart == /\ cpc = (IF StateBeforeReceive THEN "c2" ELSE "c1")
           /\ DoPrStart /\ cpc' = (IF StateBeforeReceive THEN "done" ELSE "c2")
           /\ UNCHANGED <<cs, sock, dq, dpc, dcur, sendq, sentFor, wire, queues, qbuf, spc, delivered, errs, peerLeft, peerWill, answered, nData>>

(* ---- peer                                                                                              *)
PeerSends(f) == /\ sock' = Append(sock, f) /\ nData' = nData + (IF f.t = "Data" THEN 1 ELSE 0)
                /\ UNCHANGED <<cs, cpc, prOn, dq, dpc, dcur, sendq, sentFor, wire, queues, qbuf, spc, delivered, errs, peerWill, answered>>
PeerSend == peerLeft # <<>> /\ PeerSends(Head(peerLeft)) /\ peerLeft' = Tail(peerLeft)
OurSelReqOut == \E i \in 1..Len(wire) : wire[i].t = "SelReq"
PeerAnswer == /\ OurSelReqOut /\ ~answered /\ peerWill # "silent"
              /\ sock' = Append(sock, F("SelRsp", "o1", IF peerWill = "ok" THEN 0 ELSE 1)) /\ answered' = TRUE
              /\ UNCHANGED <<cs, cpc, prOn, dq, dpc, dcur, sendq, sentFor, wire, queues, qbuf, spc, delivered, errs, peerLeft, peerWill, nData>>

(* ---- receive / send path (protocol_receiver thread)                                                     *)
Frame == /\ prOn /\ sock # <<>> /\ dq' = Append(dq, Head(sock)) /\ sock' = Tail(sock)
         /\ UNCHANGED <<cs, cpc, prOn, dpc, dcur, sendq, sentFor, wire, queues, qbuf, spc, delivered, errs, peerLeft, peerWill, answered, nData>>
WireOut == /\ prOn /\ sendq # <<>>
           /\ wire' = Append(wire, Head(sendq).f) /\ sentFor' = sentFor \cup {Head(sendq).by} /\ sendq' = Tail(sendq)
           /\ UNCHANGED <<cs, cpc, prOn, sock, dq, dpc, dcur, queues, qbuf, spc, delivered, errs, peerLeft, peerWill, answered, nData>>

(* ---- dispatcher thread                                                                                *)
Dispatch == /\ dpc = "idle" /\ dq # <<>> /\ dcur' = Head(dq) /\ dq' = Tail(dq)
            /\ dpc' = CASE Head(dq).t = "SelReq" -> "selreq_enq" [] Head(dq).t = "SelRsp" -> "selrsp_chk" [] OTHER -> "data_gate"
            /\ UNCHANGED <<cs, cpc, prOn, sock, sendq, sentFor, wire, queues, qbuf, spc, delivered, errs, peerLeft, peerWill, answered, nData>>
Idle == dpc' = "idle" /\ dcur' = None
DSelReqEnq == /\ dpc = "selreq_enq" /\ sendq' = Append(sendq, [f |-> F("SelRsp", dcur.sys, 0), by |-> "D"]) /\ dpc' = "selreq_wait"
              /\ UNCHANGED <<cs, cpc, prOn, sock, dq, dcur, sentFor, wire, queues, qbuf, spc, delivered, errs, peerLeft, peerWill, answered, nData>>
DSelReqSent == /\ dpc = "selreq_wait" /\ "D" \in sentFor /\ sentFor' = sentFor \ {"D"} /\ dpc' = "selreq_cs"
               /\ UNCHANGED <<cs, cpc, prOn, sock, dq, dcur, sendq, wire, queues, qbuf, spc, delivered, errs, peerLeft, peerWill, answered, nData>>
DSelReqCs == /\ dpc = "selreq_cs"
             /\ IF cs = "NS" THEN cs' = "SEL" /\ UNCHANGED errs ELSE errs' = errs + 1 /\ UNCHANGED cs      \* invalid transition: raised, swallowed
             /\ Idle
             /\ UNCHANGED <<cpc, prOn, sock, dq, sendq, sentFor, wire, queues, qbuf, spc, delivered, peerLeft, peerWill, answered, nData>>
DSelRspChk == /\ dpc = "selrsp_chk"
              /\ IF dcur.sys \in queues THEN dpc' = "selrsp_cs" /\ UNCHANGED dcur ELSE Idle          \* no open transaction: ignored
              /\ UNCHANGED <<cs, cpc, prOn, sock, dq, sendq, sentFor, wire, queues, qbuf, spc, delivered, errs, peerLeft, peerWill, answered, nData>>
DSelRspCs == /\ dpc = "selrsp_cs"
             /\ IF dcur.st # 0 THEN dpc' = "selrsp_put" /\ UNCHANGED <<cs, errs, dcur>>
                ELSE IF cs = "NS" THEN cs' = "SEL" /\ dpc' = "selrsp_put" /\ UNCHANGED <<errs, dcur>>
                ELSE errs' = errs + 1 /\ Idle /\ UNCHANGED cs
             /\ UNCHANGED <<cpc, prOn, sock, dq, sendq, sentFor, wire, queues, qbuf, spc, delivered, peerLeft, peerWill, answered, nData>>
DSelRspPut == /\ dpc = "selrsp_put"
              /\ IF dcur.sys \in queues THEN qbuf' = Append(qbuf, dcur) /\ UNCHANGED errs ELSE errs' = errs + 1 /\ UNCHANGED qbuf
              /\ Idle
              /\ UNCHANGED <<cs, cpc, prOn, sock, dq, sendq, sentFor, wire, queues, spc, delivered, peerLeft, peerWill, answered, nData>>
DDataGate == /\ dpc = "data_gate"
             /\ IF cs # "SEL"
                  THEN /\ sendq' = Append(sendq, [f |-> F("Reject", dcur.sys, 4), by |-> "D"]) /\ dpc' = "rej_wait"
                       /\ UNCHANGED <<delivered, dcur>>
                  ELSE /\ delivered' = Append(delivered, dcur) /\ Idle /\ UNCHANGED sendq
             /\ UNCHANGED <<cs, cpc, prOn, sock, dq, sentFor, wire, queues, qbuf, spc, errs, peerLeft, peerWill, answered, nData>>
DRejSent == /\ dpc = "rej_wait" /\ "D" \in sentFor /\ sentFor' = sentFor \ {"D"} /\ Idle
            /\ UNCHANGED <<cs, cpc, prOn, sock, dq, sendq, wire, queues, qbuf, spc, delivered, errs, peerLeft, peerWill, answered, nData>>

(* ---- select thread (active mode): HsmsProtocol.send_select_req                                          *)
SelSys == /\ spc = "s0" /\ spc' = (IF QueueBeforeSend THEN "s1" ELSE "s2")
          /\ UNCHANGED <<cs, cpc, prOn, sock, dq, dpc, dcur, sendq, sentFor, wire, queues, qbuf, delivered, errs, peerLeft, peerWill, answered, nData>>
SelReg == /\ spc \in {"s1", "s3b"} /\ queues' = queues \cup {"o1"} /\ spc' = (IF spc = "s1" THEN "s2" ELSE "s4")
          /\ UNCHANGED <<cs, cpc, prOn, sock, dq, dpc, dcur, sendq, sentFor, wire, qbuf, delivered, errs, peerLeft, peerWill, answered, nData>>
SelEnq == /\ spc = "s2" /\ sendq' = Append(sendq, [f |-> F("SelReq", "o1", 0), by |-> "S"]) /\ spc' = "s3"
          /\ UNCHANGED <<cs, cpc, prOn, sock, dq, dpc, dcur, sentFor, wire, queues, qbuf, delivered, errs, peerLeft, peerWill, answered, nData>>
SelSent == /\ spc = "s3" /\ "S" \in sentFor /\ sentFor' = sentFor \ {"S"} /\ spc' = (IF QueueBeforeSend THEN "s4" ELSE "s3b")
           /\ UNCHANGED <<cs, cpc, prOn, sock, dq, dpc, dcur, sendq, wire, queues, qbuf, delivered, errs, peerLeft, peerWill, answered, nData>>
SelGet == /\ spc = "s4" /\ qbuf # <<>> /\ spc' = (IF Head(qbuf).st = 0 THEN "ok" ELSE "refused") /\ queues' = queues \ {"o1"}
          /\ UNCHANGED <<cs, cpc, prOn, sock, dq, dpc, dcur, sendq, sentFor, wire, qbuf, delivered, errs, peerLeft, peerWill, answered, nData>>
(* T6 is long compared with every step above: it expires only when no answer is on its way or being handled  *)
NothingInFlight == sock = <<>> /\ dq = <<>> /\ dpc = "idle"
SelTimeout == /\ spc = "s4" /\ qbuf = <<>> /\ NothingInFlight /\ (peerWill = "silent" \/ answered)
              /\ spc' = "timeout" /\ queues' = queues \ {"o1"}
              /\ UNCHANGED <<cs, cpc, prOn, sock, dq, dpc, dcur, sendq, sentFor, wire, qbuf, delivered, errs, peerLeft, peerWill, answered, nData>>

Next == Accept \/ CsConnect \/ PrStart \/ PeerSend \/ PeerAnswer \/ Frame \/ WireOut \/ Dispatch \/ DSelReqEnq \/ DSelReqSent
        \/ DSelReqCs \/ DSelRspChk \/ DSelRspCs \/ DSelRspPut \/ DDataGate \/ DRejSent \/ SelSys \/ SelReg \/ SelEnq \/ SelSent
        \/ SelGet \/ SelTimeout
Spec == Init /\ [][Next]_vars /\ WF_vars(Next)

(* ---- properties                                                                                        *)
SelDone == spc \in {"none", "ok", "refused", "timeout"}
Quiescent == /\ cpc = "done" /\ sock = <<>> /\ dq = <<>> /\ dpc = "idle" /\ sendq = <<>> /\ SelDone /\ peerLeft = <<>>
             /\ (OurSelReqOut /\ peerWill # "silent" => answered)
WeAccepted == \E i \in 1..Len(wire) : wire[i].t = "SelRsp" /\ wire[i].st = 0
TypeOK == cs \in {"NC", "NS", "SEL"} /\ errs \in Nat /\ queues \subseteq {"o1"}
(* a Select.req we answered with status 0 leaves us SELECTED, also when it was already in flight at accept   *)
AnsweredSelectMeansSelected == (Quiescent /\ WeAccepted) => cs = "SEL"
(* active: a peer that accepts our Select.req ends up with a SELECTED endpoint whose select call succeeded     *)
AcceptedSelectMeansSelected == (Quiescent /\ Active /\ peerWill = "ok") => cs = "SEL"
PeerSelects == \E i \in 1..Len(Script) : Script[i].t = "SelReq"
(* ... and our select call returns the response -- unless the peer runs its own select procedure at the same    *)
(* time: then the second select() of the state machine raises in the dispatcher, the response never reaches     *)
(* the caller and send_select_req returns None after T6 (the session is SELECTED all the same; C05 does not      *)
(* speak about the return value; recorded in DESIGN.md as an observation)                                      *)
SelectCallSucceeds == (Quiescent /\ Active /\ peerWill = "ok" /\ ~PeerSelects) => spc = "ok"
RefusedSelectStaysNotSelected == (Quiescent /\ Active /\ peerWill # "ok" /\ ~WeAccepted) => cs = "NS"
(* data is handed to the application only in SELECTED; in NOT SELECTED it is rejected                        *)
DeliverOnlySelected == [][delivered' # delivered => cs = "SEL"]_vars
Rejects == Cardinality({i \in 1..Len(wire) : wire[i].t = "Reject"})
EveryDataHandledOnce == Quiescent => Len(delivered) + Rejects = nData
NothingSwallowed == errs = 0
NoQueueLeak == Quiescent => queues = {}
Settles == <>Quiescent
=============================================================================
