------------------------------ MODULE CloseJudge ----------------------------
(* Trace validation for C09: one record per fault scenario executed on the real endpoint.       *)
(* TRACE_FILE: JSON array of                                                                    *)
(*  [id, fault : "peerclose"|"disable"|"reconnect", sel : BOOLEAN,                              *)
(*   ev : Seq(STRING)   link/protocol events in order, from the fault on                        *)
(*   closed : BOOLEAN   the close sequence finished (CloseDone seen before the run went idle)   *)
(*   idle   : "ok"|"wedged"|"time"   why the run stopped waiting                                *)
(*   cs : STRING, rxlen : Nat, returned : BOOLEAN (disable() returned),                         *)
(*   reqs : Nat, rsps : Nat   complete Linktest.req fed before the fault / Linktest.rsp written *)
(*   resel : BOOLEAN, redlv : BOOLEAN   (reconnect) select on the new link worked, first frame  *)
(*                                       of the new link was decoded and delivered]             *)
(* The monitor is what C09 states; it is also what HsmsClose guarantees (CloseFinishes,         *)
(* CleanWhenDone, DisableReturns).                                                              *)
EXTENDS Naturals, Sequences, TLC, Json, IOUtils

Traces == JsonDeserialize(IOEnv.TRACE_FILE)

Count(q, x) == Len(SelectSeq(q, LAMBDA e : e = x))
Index(q, x) == IF \E i \in 1..Len(q) : q[i] = x THEN CHOOSE i \in 1..Len(q) : q[i] = x /\ \A j \in 1..(i-1) : q[j] # x ELSE 0

Clause(t) ==
  IF t.rsps # t.reqs THEN "request-before-cut-not-answered"
  ELSE IF ~t.closed THEN "close-sequence-did-not-finish"
  ELSE IF t.fault = "disable" /\ ~t.returned THEN "disable-did-not-return"
  ELSE IF t.cs # "NC" THEN "not-NOT_CONNECTED-after-close"
  ELSE IF Count(t.ev, "disconnected") # 1 THEN "disconnected-event-not-once"
  ELSE IF ~(Index(t.ev, "Disconnecting") < Index(t.ev, "SockClosed") /\ Index(t.ev, "SockClosed") < Index(t.ev, "CloseDone"))
         THEN "close-order"
  ELSE IF t.rxlen # 0 THEN "stale-bytes"
  ELSE IF t.fault = "reconnect" /\ ~t.resel THEN "reselect-failed"
  ELSE IF t.fault = "reconnect" /\ ~t.redlv THEN "first-frame-of-new-connection-lost"
  ELSE "ok"

ASSUME \A n \in 1..Len(Traces) :
         PrintT(<<"V", ToJson([id |-> Traces[n].id, clause |-> Clause(Traces[n])])>>)
=============================================================================
