---------------------------- MODULE E30CommJudge ----------------------------
(* Trace validation for C07 with a nondeterministic monitor: the judge keeps the set of monitor  *)
(* states consistent with the observations (subset construction).                               *)
(* TRACE_FILE: JSON array of [id, steps : Seq([inp, obs : [frames, comm, cb, dt, cm]])]           *)
EXTENDS E30CommMon, Json, IOUtils

Traces == JsonDeserialize(IOEnv.TRACE_FILE)

NormF(f) == F(f.s, f.f, f.w, f.sys, f.ack)
Norm(obs) == [frames |-> [i \in 1..Len(obs.frames) |-> NormF(obs.frames[i])], comm |-> obs.comm, cb |-> obs.cb,
              dt |-> obs.dt, cm |-> obs.cm, wfc |-> obs.wfc]

RECURSIVE Run(_, _, _)
Run(S, steps, l) ==
  IF l > Len(steps) THEN [at |-> 0, clause |-> "ok", allowed |-> {}]
  ELSE LET i == steps[l].inp
           obs == Norm(steps[l].obs)
           feas == {s \in S : Feasible(s, i)}
           outs == UNION {Eff(s, i) : s \in feas}
           S2 == {r.s : r \in {r \in outs : Matches(r, obs)}}
       IN IF feas = {} THEN [at |-> l, clause |-> "harness-input-infeasible", allowed |-> {}]
          ELSE IF S2 = {} THEN [at |-> l, clause |-> "observation-not-allowed", allowed |-> outs]
          ELSE Run(S2, steps, l + 1)

S0(t) == {[cm |-> "DISABLED", link |-> "down", en |-> FALSE, deny |-> t.deny]}

ASSUME \A n \in 1..Len(Traces) :
         LET v == Run(S0(Traces[n]), Traces[n].steps, 1)
         IN PrintT(<<"V", ToJson([id |-> Traces[n].id, at |-> v.at, clause |-> v.clause, allowed |-> v.allowed])>>)
=============================================================================
