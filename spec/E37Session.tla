----------------------------- MODULE E37Session -----------------------------
(* Behaviour spec (generator) over the monitor E37Mon: all histories of inputs, with the        *)
(* required observation of every step; dumped as labelled transition relation for replay.       *)
EXTENDS E37Mon

(* ---- behaviour spec (generator)                                                             *)
VARIABLES st, inp, out
vars == <<st, inp, out>>

Init == /\ st \in {[mode |-> m, enabled |-> FALSE, cs |-> "NC", openSel |-> FALSE, openData |-> FALSE] : m \in {"active", "passive"}}
        /\ inp = [k |-> "Init"] /\ out = NoOut

Step(i) == LET e == Eff(st, i) IN e.en /\ st' = e.s /\ out' = e.out /\ inp' = i

DoStep == \E i \in Inputs : Step(i)
Next == DoStep
Spec == Init /\ [][Next]_vars

View == st
Dump == PrintT(<<"TR", ToJson([from |-> st, inp |-> inp', out |-> out', to |-> st'])>>)

(* ---- sanity of the monitor itself (E37 state model invariants)                              *)
TypeOK == st.cs \in {"NC", "NS", "SEL"} /\ st.enabled \in BOOLEAN /\ st.openSel \in BOOLEAN
NotConnectedWhenDisabled == ~st.enabled => st.cs = "NC"
OpenOnlyWhenConnected == st.openSel => (st.cs # "NC" /\ st.mode = "active")
NeverDeliverUnlessSelected == (out.dlv \/ out.rep) => st.cs = "SEL"
DataInNotSelectedRejected ==
   (inp.k \in {"Data", "DataFor", "PrimaryFor"} /\ ~out.dlv /\ ~out.rep) => out.req = <<Fr("Reject.req", "echo", 4)>>
EveryRequestAnsweredOnce ==
   (inp.k = "Ctrl" /\ inp.st \in CtrlReq) => (Len(out.req) = 1 /\ out.req[1].sys = "echo")
SelectedOnlyBySelect == [][(st.cs # "SEL" /\ st'.cs = "SEL") =>
                             (inp'.k = "Ctrl" /\ inp'.st \in {"Select.req", "Select.rsp"})]_vars
=============================================================================
