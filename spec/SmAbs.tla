------------------------------- MODULE SmAbs -------------------------------
(* Property-level monitor for C18: what a hierarchical state machine must do.                  *)
(* Written from the property statement, not from secsgem's engine.                             *)
(*                                                                                             *)
(* A machine is a record                                                                       *)
(*   [states : set of names, parent : [name -> name | "-"], init : name,                       *)
(*    trans  : [tname -> [src : set of names, dst : name]],                                    *)
(*    handler: [name -> Seq(tname)] ]     requests issued by the enter handler of a state      *)
EXTENDS Naturals, Sequences, FiniteSets, Bags

RECURSIVE AncSeq(_, _)
AncSeq(M, s) == IF M.parent[s] = "-" THEN <<s>> ELSE <<s>> \o AncSeq(M, M.parent[s])

SeqToSet(q) == {q[i] : i \in 1..Len(q)}
AncSet(M, s) == SeqToSet(AncSeq(M, s))

(* states exited / entered by a transition c -> d, innermost first                             *)
ExitSeq(M, c, d)  == IF c = d THEN <<c>> ELSE SelectSeq(AncSeq(M, c), LAMBDA x : x \notin AncSet(M, d))
EntrySeq(M, c, d) == IF c = d THEN <<d>> ELSE SelectSeq(AncSeq(M, d), LAMBDA x : x \notin AncSet(M, c))

Ev(k, x) == <<k, x>>

(* One request `t` in current state `c`.  Result: [cur, ev, res].                              *)
(* A request made by an enter handler is a complete request of its own, nested at that point.  *)
RECURSIVE AbsReq(_, _, _, _), RunEnters(_, _, _, _), RunHandler(_, _, _, _)

AbsReq(M, c, t, fuel) ==
  IF t \notin DOMAIN M.trans
    THEN [cur |-> c, ev |-> <<>>, res |-> "UnknownTransitionError"]
  ELSE IF c \notin M.trans[t].src
    THEN [cur |-> c, ev |-> <<>>, res |-> "WrongSourceStateError"]
  ELSE LET d  == M.trans[t].dst
           ex == ExitSeq(M, c, d)
           lv == [i \in 1..Len(ex) |-> Ev("leave", ex[i])]
           r  == RunEnters(M, d, EntrySeq(M, c, d), fuel)
       IN [cur |-> r.cur, ev |-> lv \o r.ev \o <<Ev("called", t)>>, res |-> "ok"]

RunEnters(M, cur, q, fuel) ==
  IF q = <<>> THEN [cur |-> cur, ev |-> <<>>]
  ELSE LET y    == Head(q)
           h    == RunHandler(M, cur, M.handler[y], fuel)
           rest == RunEnters(M, h.cur, Tail(q), fuel)
       IN [cur |-> rest.cur, ev |-> <<Ev("enter", y)>> \o h.ev \o rest.ev]

RunHandler(M, cur, reqs, fuel) ==
  IF reqs = <<>> \/ fuel = 0 THEN [cur |-> cur, ev |-> <<>>]
  ELSE LET r    == AbsReq(M, cur, Head(reqs), fuel - 1)
           e    == IF r.res = "ok" THEN r.ev ELSE <<<<"nested_err", Head(reqs), r.res>>>>
           rest == RunHandler(M, r.cur, Tail(reqs), fuel)
       IN [cur |-> rest.cur, ev |-> e \o rest.ev]

Fuel == 6

SeqToBag(q) == LET S == SeqToSet(q) IN [x \in S |-> Cardinality({i \in 1..Len(q) : q[i] = x})]

(* What an observer must see after a top-level request t made in state c.                      *)
Expected(M, c, t) ==
  LET r == AbsReq(M, c, t, Fuel)
  IN [cur |-> r.cur, active |-> AncSet(M, r.cur), res |-> r.res, ev |-> r.ev]

(* An observation obs = [cur, active, res, ev] conforms when the result, the current state and  *)
(* the active set are equal and the events are the same multiset (the property does not order   *)
(* events of different states).                                                                *)
Conforms(M, c, t, obs) ==
  LET e == Expected(M, c, t)
  IN /\ obs.res = e.res
     /\ obs.cur = e.cur
     /\ obs.active = e.active
     /\ SeqToBag(obs.ev) = SeqToBag(e.ev)

FirstDiff(M, c, t, obs) ==
  LET e == Expected(M, c, t)
  IN IF obs.res # e.res THEN "result"
     ELSE IF obs.cur # e.cur THEN "current"
     ELSE IF obs.active # e.active THEN "active"
     ELSE IF SeqToBag(obs.ev) # SeqToBag(e.ev) THEN "events"
     ELSE "none"

(* Two concurrent top-level requests t1, t2 from state c must look like one serial order.       *)
Serial(M, c, t1, t2) ==
  LET a == Expected(M, c, t1)
      b == Expected(M, a.cur, t2)
  IN [cur |-> b.cur, active |-> b.active, res1 |-> a.res, res2 |-> b.res, ev |-> a.ev \o b.ev]

SerialConforms(M, c, t1, t2, obs) ==
  LET s12 == Serial(M, c, t1, t2)
      s21 == Serial(M, c, t2, t1)
      ok(s, ra, rb) == /\ obs.cur = s.cur /\ obs.active = s.active
                       /\ obs.res1 = ra /\ obs.res2 = rb
                       /\ SeqToBag(obs.ev) = SeqToBag(s.ev)
  IN ok(s12, s12.res1, s12.res2) \/ ok(s21, s21.res2, s21.res1)
=============================================================================
