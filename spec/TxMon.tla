------------------------------- MODULE TxMon --------------------------------
(* Property-level monitor for C06 (written from the property statement).                        *)
(* It observes one endpoint through these events (total order = order of occurrence):           *)
(*   [e:"Call", c, tag]           caller c issues a request identified by tag                    *)
(*   [e:"Out",  sys, tag]         the request tag is written to the link with system bytes sys   *)
(*   [e:"InReply", sys, tag]      the peer's reply to request tag arrives (carrying sys)         *)
(*   [e:"InOther", id]            any other inbound data message (unsolicited primary)           *)
(*   [e:"Ret",  c, tag, got]      the call for tag returns: got = tag of the request the         *)
(*                                returned reply answers, "none" for a timeout                   *)
(*   [e:"DBegin", id] [e:"DEnd", id]   the application is handed message id / the hand-over ends *)
(* Monitor state: out (tag -> sys of outstanding, i.e. written and not yet returned requests),   *)
(* replied (tags whose reply arrived while outstanding), others (ids arrived, in order),         *)
(* handed (ids handed over, in order), busy (id being handed over or "-").                      *)
EXTENDS Naturals, Sequences, FiniteSets, TLC

Init0 == [out |-> <<>>, replied |-> {}, others |-> <<>>, handed |-> <<>>, busy |-> "-", late |-> {}]

OutTags(s) == {s.out[i][1] : i \in 1..Len(s.out)}
SysOf(s, tag) == LET i == CHOOSE i \in 1..Len(s.out) : s.out[i][1] = tag IN s.out[i][2]
Remove(s, tag) == SelectSeq(s.out, LAMBDA p : p[1] # tag)

R(ok, s, clause) == [ok |-> ok, s |-> s, clause |-> clause]

Eff(s, ev) ==
  CASE ev.e = "Call" -> R(TRUE, s, "ok")
    [] ev.e = "Out" ->
         \* system bytes distinct from every other outstanding request
         IF \E i \in 1..Len(s.out) : s.out[i][2] = ev.sys
           THEN R(FALSE, s, "duplicate-system-bytes-among-outstanding-requests")
           ELSE R(TRUE, [s EXCEPT !.out = Append(@, <<ev.tag, ev.sys>>)], "ok")
    [] ev.e = "InReply" ->
         IF ev.tag \in OutTags(s)
           THEN R(TRUE, [s EXCEPT !.replied = @ \cup {ev.tag}], "ok")
           ELSE \* nobody waits for it any more: it is an "other inbound message"
                R(TRUE, [s EXCEPT !.others = Append(@, ev.tag)], "ok")
    [] ev.e = "InOther" -> R(TRUE, [s EXCEPT !.others = Append(@, ev.id)], "ok")
    [] ev.e = "Ret" ->
         IF ev.got = "none"
           THEN IF ev.tag \in s.replied
                  THEN R(FALSE, s, "timeout-although-own-reply-arrived")
                  ELSE R(TRUE, [s EXCEPT !.out = Remove(s, ev.tag)], "ok")
           ELSE IF ev.got # ev.tag THEN R(FALSE, s, "caller-received-another-callers-reply")
           ELSE IF ev.tag \notin s.replied THEN R(FALSE, s, "caller-received-a-reply-that-never-arrived")
           ELSE R(TRUE, [s EXCEPT !.out = Remove(s, ev.tag), !.replied = @ \ {ev.tag}], "ok")
    [] ev.e = "DBegin" ->
         IF s.busy # "-" THEN R(FALSE, s, "two-messages-handed-over-at-the-same-time")
         ELSE IF Len(s.handed) >= Len(s.others) THEN R(FALSE, s, "handed-over-a-message-that-did-not-arrive-or-twice")
         ELSE IF s.others[Len(s.handed) + 1] # ev.id THEN R(FALSE, s, "handed-over-out-of-order-or-duplicated")
         ELSE R(TRUE, [s EXCEPT !.handed = Append(@, ev.id), !.busy = ev.id], "ok")
    [] ev.e = "DEnd" ->
         IF s.busy # ev.id THEN R(FALSE, s, "hand-over-end-without-begin")
         ELSE R(TRUE, [s EXCEPT !.busy = "-"], "ok")
    [] OTHER -> R(TRUE, s, "ok")

(* at the end of a (quiescent) run every other inbound message was handed over exactly once      *)
Final(s) == IF s.handed # s.others THEN "other-inbound-message-lost" ELSE "ok"
=============================================================================
