---------------------------- MODULE SecsIBlockVec ---------------------------
(* Boundary universe for C16: TLC proves Join(Split) = identity, block-count / E-bit rules and that  *)
(* every single-byte corruption of an encoded block is rejected by the reference; prints vectors.    *)
EXTENDS SecsIBlock, Json

Heads == [r : BOOLEAN, dev : {0, 1, 255, 256, 32767}, w : BOOLEAN, s : {0, 1, 127}, f : {0, 1, 255}, e : {FALSE}, blk : {0},
          sys : {<<0, 0, 0, 0>>, <<255, 255, 255, 255>>, <<1, 2, 3, 4>>}]
H0 == [r |-> TRUE, dev |-> 258, w |-> TRUE, s |-> 6, f |-> 11, e |-> FALSE, blk |-> 0, sys |-> <<1, 2, 3, 4>>]
Lens == {0, 1, 243, 244, 245, 487, 488, 489, 732}

ASSUME \A h \in Heads : SplitJoin(h, Pattern(5))
ASSUME \A n \in Lens : SplitJoin(H0, Pattern(n)) /\ Len(Split(H0, Pattern(n))) = NBlocks(n)
ASSUME \A n \in Lens : \A i \in 1..NBlocks(n) : Len(Split(H0, Pattern(n))[i]) <= 13 + BlockSize
ASSUME NBlocks(0) = 1 /\ NBlocks(244) = 1 /\ NBlocks(245) = 2 /\ NBlocks(7995148) = 32767 /\ NBlocks(7995149) = 32768
(* every single-byte corruption of blocks with 0 / 1 / 244 data bytes is rejected                        *)
ASSUME \A n \in {0, 1, 244} : \A c \in Corruptions(EncodeBlock(BlockHdr(H0, n, 1), Pattern(n))) : ~DecodeBlock(c).ok

(* block numbers across the 15-bit range, with and without E-bit, as single encoded blocks               *)
BlkNums == {1, 2, 255, 256, 16383, 16384, 16385, 32766, 32767}
BlkVec(b, e) == EncodeBlock([H0 EXCEPT !.blk = b, !.e = e], Pattern(3))
ASSUME \A b \in BlkNums : \A e \in BOOLEAN :
         LET d == DecodeBlock(BlkVec(b, e)) IN d.ok /\ d.h.blk = b /\ d.h.e = e /\ d.data = Pattern(3)
ASSUME \A b \in BlkNums : \A e \in BOOLEAN : PrintT(<<"KV", ToJson([blk |-> b, e |-> e, block |-> BlkVec(b, e)])>>)
(* every single-BIT flip of a block is rejected as well                                                     *)
BitFlips(b) == UNION {{[b EXCEPT ![i] = IF (b[i] \div k) % 2 = 1 THEN b[i] - k ELSE b[i] + k] : k \in {1, 2, 4, 8, 16, 32, 64, 128}} : i \in 1..Len(b)}
ASSUME \A c \in BitFlips(EncodeBlock(BlockHdr(H0, 1, 1), Pattern(1))) : ~DecodeBlock(c).ok

(* the length byte is not covered by the checksum: a block whose data happens to contain, after k bytes, the       *)
(* checksum of its own first k bytes turns into a "valid" shorter block when the length byte is lowered to 10 + k --  *)
(* unless the announced length is compared with the number of bytes that are there.  Such blocks, length byte        *)
(* lowered, are rejected by the reference (and printed for the real decoder).                                       *)
CraftData(n, k) == LET base == Pattern(n)
                       c == Sum(Hdr(BlockHdr(H0, n, 1)) \o SubSeq(base, 1, k))
                   IN [i \in 1..n |-> IF i = k + 1 THEN c \div 256 ELSE IF i = k + 2 THEN c % 256 ELSE base[i]]
Crafted(n, k) == [EncodeBlock(BlockHdr(H0, n, 1), CraftData(n, k)) EXCEPT ![1] = 10 + k]
CraftKs == {0, 1, 30, 57, 58}
ASSUME \A k \in CraftKs : /\ DecodeBlock(SubSeq(Crafted(60, k), 1, 13 + k)).ok          \* the trap is armed: the prefix is a valid block
                          /\ ~DecodeBlock(Crafted(60, k)).ok
ASSUME \A k \in CraftKs : PrintT(<<"CV", ToJson([k |-> k, block |-> Crafted(60, k)])>>)

(* blocks whose checksum has a zero byte (sum of header and data below 256, or a multiple of 256): altering the other   *)
(* checksum byte to 0 gives the checksum 0x0000 -- "no checksum" for a decoder that tests it for truth.  Every value of  *)
(* every checksum byte, and the usual corruptions of the other bytes, are rejected by the reference; the blocks are     *)
(* printed for the real decoder (ZV).                                                                                *)
ZHead(sy) == [r |-> FALSE, dev |-> 0, w |-> FALSE, s |-> 1, f |-> 1, e |-> FALSE, blk |-> 0, sys |-> sy]
ZBlocks == {EncodeBlock(BlockHdr(ZHead(<<0, 0, 0, 1>>), 0, 1), <<>>),            \* sum 0x0084
            EncodeBlock(BlockHdr(ZHead(<<0, 0, 0, 0>>), 1, 1), <<7>>),           \* sum 0x008A
            EncodeBlock(BlockHdr(ZHead(<<0, 0, 0, 0>>), 1, 1), <<125>>),         \* sum 0x0100
            EncodeBlock(BlockHdr(ZHead(<<255, 255, 255, 255>>), 2, 1), <<127, 2>>)}     \* sum 0x0500
ChecksumValues(b) == UNION {{[b EXCEPT ![i] = x] : x \in 0..255} : i \in {Len(b) - 1, Len(b)}} \ {b}
ASSUME \A b \in ZBlocks : DecodeBlock(b).ok /\ (b[Len(b) - 1] = 0 \/ b[Len(b)] = 0)
ASSUME \A b \in ZBlocks : \A c \in ChecksumValues(b) \cup Corruptions(b) : ~DecodeBlock(c).ok
ASSUME \A b \in ZBlocks : PrintT(<<"ZV", ToJson([block |-> b])>>)

ASSUME \A h \in Heads : PrintT(<<"HV", ToJson([h |-> h, block |-> Split(h, Pattern(5))[1]])>>)
ASSUME \A n \in Lens : PrintT(<<"LV", ToJson([n |-> n, blocks |-> Split(H0, Pattern(n))])>>)
ASSUME \A k \in {3, 100, 32766, 32767} : \A d \in {0, 1, 2} :
          LET n == k * 244 + d - 1 IN
          PrintT(<<"BV", ToJson([n |-> n, nblocks |-> NBlocks(n), last |-> n - (NBlocks(n) - 1) * 244])>>)
=============================================================================
