------------------------- MODULE DispatcherLoopsTrace ------------------------
(* Trace validation for DispatcherLoops: every operation of the real receiver / dispatcher threads on their     *)
(* triggers and on the dispatch queue, recorded by the deterministic runtime's shims at the moment it takes       *)
(* effect, must be a step of DispatcherLoops.                                                                  *)
(* TRACE_FILE: JSON array of [id, ev : Seq([e, n, src])]                                                        *)
(*   Data(n)   ByteQueue.append added a chunk that completes n frames to the receive buffer (logged under its lock)  *)
(*   RSet(src) receiver trigger set: src = "data" by the connection's receiver thread, "kick" by a sender          *)
(*   RWake / RClear / RCall / RRet   receiver loop: wait returned, clear, _process_data entered / returned           *)
(*   Frame / DSet                    queue_block: put into the dispatch queue, dispatcher trigger set                *)
(*   DWake / DClear / DQsize(n) / DGet   dispatcher loop                                                         *)
EXTENDS DispatcherLoops, Json, IOUtils

Traces == JsonDeserialize(IOEnv.TRACE_FILE)
VARIABLES tid, l
tvars == <<vars, tid, l>>
Ev == Traces[tid].ev
Cur == Ev[l]
Is(e) == l <= Len(Ev) /\ Cur.e = e
Adv == l' = l + 1 /\ UNCHANGED tid

TInit == Init /\ tid \in 1..Len(Traces) /\ l = 1
TData == Is("Data") /\ Data(Cur.n) /\ Adv
TRSet == Is("RSet") /\ (IF Cur.src = "data" THEN DataSet ELSE Kick) /\ Adv
TRWake == Is("RWake") /\ RWake /\ Adv
TRClear == Is("RClear") /\ RClear /\ Adv
TRCall == Is("RCall") /\ RCall /\ Adv
TFrame == Is("Frame") /\ RFrame /\ Adv
TDSet == Is("DSet") /\ RDSet /\ Adv
TRRet == Is("RRet") /\ RRet /\ Adv
TDWake == Is("DWake") /\ DWake /\ Adv
TDClear == Is("DClear") /\ DClear /\ Adv
TDQsize == Is("DQsize") /\ Cur.n = Len(dq) /\ DQsize /\ Adv
TDGet == Is("DGet") /\ DGet /\ Adv
Silent == RSeesEmpty /\ UNCHANGED <<tid, l>>
TNext == TData \/ TRSet \/ TRWake \/ TRClear \/ TRCall \/ TFrame \/ TDSet \/ TRRet \/ TDWake \/ TDClear \/ TDQsize \/ TDGet \/ Silent
TSpec == TInit /\ [][TNext]_tvars
Progress == PrintT(<<"AT", ToJson([id |-> Traces[tid].id, l |-> l, n |-> Len(Ev)])>>)
=============================================================================
