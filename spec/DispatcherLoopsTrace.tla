------------------------- MODULE DispatcherLoopsTrace ------------------------
(* Trace validation for DispatcherLoops: every operation of the real receiver / dispatcher threads on their     *)
(* triggers and on the dispatch queue, recorded by the deterministic runtime's shims at the moment it takes       *)
(* effect, must be a step of DispatcherLoops.                                                                  *)
(* TRACE_FILE: JSON array of [id, ev : Seq([e, n, src])]                                                        *)
(*   Data(n)   ByteQueue.append added a chunk that completes n frames to the receive buffer (logged under its lock)  *)
(*   RSet(src) receiver trigger set: src = "data" by the connection's receiver thread, "kick" by a sender          *)
(*   RWake / RClear / RCall / RRet   receiver loop: wait returned, clear, _process_data entered / returned           *)
(*   Frame / DSet                    queue_block: put into the dispatch queue, dispatcher trigger set                *)
(*   DWake / DClear / DQsize(n) / DGet   dispatcher loop                                                         *)
(*   RStart / REnd                   ProtocolDispatcher.start entered (a receiver thread is created) / the receiver    *)
(*                                   thread function returned (after stop()).  The model has one receiver loop: a new    *)
(*                                   receiver thread may only be started when there is none (before the first           *)
(*                                   connection, or after the previous one ended) -- rthreads counts them.               *)
EXTENDS DispatcherLoops, Json, IOUtils

Traces == JsonDeserialize(IOEnv.TRACE_FILE)
VARIABLES tid, l, rthreads
tvars == <<vars, tid, l, rthreads>>
Ev == Traces[tid].ev
Cur == Ev[l]
Is(e) == l <= Len(Ev) /\ Cur.e = e
Adv == l' = l + 1 /\ UNCHANGED tid
Same == UNCHANGED rthreads

TInit == Init /\ tid \in 1..Len(Traces) /\ l = 1 /\ rthreads = 0
TData == Same /\ Is("Data") /\ Data(Cur.n) /\ Adv
TRSet == Same /\ Is("RSet") /\ (IF Cur.src = "data" THEN DataSet ELSE Kick) /\ Adv
TRWake == Same /\ Is("RWake") /\ rthreads = 1 /\ RWake /\ Adv
TRClear == Same /\ Is("RClear") /\ RClear /\ Adv
TRCall == Same /\ Is("RCall") /\ RCall /\ Adv
TFrame == Same /\ Is("Frame") /\ RFrame /\ Adv
TDSet == Same /\ Is("DSet") /\ RDSet /\ Adv
TRRet == Same /\ Is("RRet") /\ RRet /\ Adv
TDWake == Same /\ Is("DWake") /\ DWake /\ Adv
TDClear == Same /\ Is("DClear") /\ DClear /\ Adv
TDQsize == Same /\ Is("DQsize") /\ Cur.n = Len(dq) /\ DQsize /\ Adv
TDGet == Same /\ Is("DGet") /\ DGet /\ Adv
Silent == RSeesEmpty /\ UNCHANGED <<tid, l, rthreads>>
(* stop(): the loop wakes, clears, sees the stop flag and leaves; start(): a fresh loop                               *)
TREnd == /\ Is("REnd") /\ rpc \in {"call", "wait"} /\ rthreads = 1 /\ rthreads' = 0 /\ rpc' = "wait"
         /\ UNCHANGED <<buf, pend, rtrig, dtrig, dq, dpc, handed, nextF, kicks>> /\ Adv
TRStart == /\ Is("RStart") /\ rthreads = 0 /\ rpc = "wait" /\ rthreads' = 1
           /\ UNCHANGED vars /\ Adv
(* the connection ended: what was in the receive buffer is dropped (Protocol clears it)                            *)
TBufClear == Is("BufClear") /\ buf' = <<>> /\ pend' = FALSE /\ UNCHANGED <<rtrig, dtrig, rpc, dq, dpc, handed, nextF, kicks, rthreads>> /\ Adv
TNext == TData \/ TRSet \/ TRWake \/ TRClear \/ TRCall \/ TFrame \/ TDSet \/ TRRet \/ TDWake \/ TDClear \/ TDQsize \/ TDGet \/ TREnd \/ TRStart \/ TBufClear \/ Silent
TSpec == TInit /\ [][TNext]_tvars
OneReceiver == rthreads <= 1
Progress == PrintT(<<"AT", ToJson([id |-> Traces[tid].id, l |-> l, n |-> Len(Ev)])>>)
=============================================================================
