------------------------------ MODULE E37Closing ----------------------------
(* C05, the closing window: the application disables the endpoint while a Select.req and a data message     *)
(* behind it are on their way through the receive path.  Whatever the interleaving:                          *)
(*   - the Select.req is answered by Select.rsp (handled before the close began), by Reject (handled while     *)
(*     the endpoint is already closing) or not at all (dropped with the connection) -- exactly one at most;    *)
(*   - the session is SELECTED ("communicating" is reported) only if it was answered by Select.rsp (the close     *)
(*     may overtake the state change after the response went out);                                            *)
(*   - the data message is handed to the application only if the session was SELECTED by that Select.rsp.       *)
(* TRACE_FILE: JSON array of [id, sel : "rsp" | "reject" | "none" | "both", comm : BOOLEAN,                   *)
(*                            data : "delivered" | "rejected" | "none", final : state after disable()]         *)
EXTENDS Naturals, Sequences, TLC, Json, IOUtils
T == JsonDeserialize(IOEnv.TRACE_FILE)
Clause(o) ==
  IF o.final # "NC" THEN "not-NOT-CONNECTED-after-disable"
  ELSE IF o.sel = "both" THEN "select-request-answered-twice"
  ELSE IF o.sel # "rsp" /\ o.comm THEN "selected-although-the-select-request-was-not-accepted"
  ELSE IF o.sel # "rsp" /\ o.data = "delivered" THEN "data-delivered-although-not-selected"
  ELSE "ok"
ASSUME \A n \in 1..Len(T) : PrintT(<<"V", ToJson([id |-> T[n].id, clause |-> Clause(T[n])])>>)
=============================================================================
