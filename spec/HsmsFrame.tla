----------------------------- MODULE HsmsFrame ------------------------------
(* SEMI E37 message format, written from the standard (not from secsgem):                      *)
(*   4 length bytes (big endian, = 10 + |body|), then the 10 byte header                        *)
(*   bytes 0-1 session id, byte 2 = W-bit (msb) | stream, byte 3 function, byte 4 PType,        *)
(*   byte 5 SType, bytes 6-9 system bytes; then the body.                                       *)
(* System bytes are kept as 4 explicit bytes (TLC integers are 32 bit signed).                  *)
EXTENDS Naturals, Sequences

BE2(n) == <<n \div 256, n % 256>>
BE4(n) == <<(n \div 16777216) % 256, (n \div 65536) % 256, (n \div 256) % 256, n % 256>>
FromBE2(q) == q[1] * 256 + q[2]
FromBE4(q) == ((q[1] * 256 + q[2]) * 256 + q[3]) * 256 + q[4]

(* a frame is [session, w, stream, function, ptype, stype, system (4 bytes), body (bytes)]       *)
Header(f) == BE2(f.session) \o <<(IF f.w THEN 128 ELSE 0) + f.stream, f.function, f.ptype, f.stype>> \o f.system
Encode(f) == BE4(10 + Len(f.body)) \o Header(f) \o f.body

FrameLen(bytes) == 4 + FromBE4(SubSeq(bytes, 1, 4))      \* total length of the first frame (needs >= 4 bytes)
Complete(bytes) == Len(bytes) >= 4 /\ Len(bytes) >= FrameLen(bytes)

Decode(bytes) ==   \* of exactly one complete frame
  LET n == FromBE4(SubSeq(bytes, 1, 4)) IN
  [session |-> FromBE2(SubSeq(bytes, 5, 6)), w |-> bytes[7] >= 128, stream |-> bytes[7] % 128,
   function |-> bytes[8], ptype |-> bytes[9], stype |-> bytes[10], system |-> SubSeq(bytes, 11, 14),
   body |-> SubSeq(bytes, 15, 4 + n)]

Pattern(n) == [i \in 1..n |-> (i * 7 + 3) % 251]
=============================================================================
