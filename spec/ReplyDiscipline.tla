--------------------------- MODULE ReplyDiscipline --------------------------
(* Behaviour view of C08: the dispatcher takes inbound primaries one at a time (C06), answers     *)
(* per ReplyMon, possibly interleaved with unrelated outbound traffic of other threads.           *)
(* TLC checks that in every history each W-primary has exactly one answer with its own system     *)
(* bytes and no answer exists without a request, independent of what came before.                 *)
EXTENDS ReplyMon

CONSTANTS MaxMsgs
Classes == {"none", "builtin", "probe-reply", "probe-none", "probe-raise"}
Msgs == [s : {1, 9, 64}, f : {1, 3}, w : BOOLEAN, cls : Classes, body : {"ok", "bad"}]

VARIABLES inbox,    \* sequence of [id, m] waiting for the dispatcher
          cur,      \* message being handled or <<>>
          wire,     \* outbound: sequence of [sys, rep]
          n         \* ids handed out

vars == <<inbox, cur, wire, n>>

Init == inbox = <<>> /\ cur = <<>> /\ wire = <<>> /\ n = 0
Arrive(m) == /\ n < MaxMsgs /\ n' = n + 1
             /\ inbox' = Append(inbox, [id |-> n + 1, m |-> m]) /\ UNCHANGED <<cur, wire>>
Take == /\ cur = <<>> /\ inbox # <<>>
        /\ cur' = <<Head(inbox)>> /\ inbox' = Tail(inbox) /\ UNCHANGED <<wire, n>>
Answer == /\ cur # <<>>
          /\ \E a \in Allowed(cur[1].m) :
               wire' = wire \o [i \in 1..Len(a) |-> [sys |-> cur[1].id, rep |-> a[i]]]
          /\ cur' = <<>> /\ UNCHANGED <<inbox, n>>
OtherTraffic == /\ Len(wire) < 2 * MaxMsgs
                /\ wire' = Append(wire, [sys |-> 0, rep |-> Rep(6, 11, FALSE)]) /\ UNCHANGED <<inbox, cur, n>>

DoArrive == \E m \in Msgs : Arrive(m)
Next == DoArrive \/ Take \/ Answer \/ OtherTraffic
Spec == Init /\ [][Next]_vars

Answers(id) == Cardinality({i \in 1..Len(wire) : wire[i].sys = id})
NoAnswerWithoutRequest == \A i \in 1..Len(wire) : wire[i].sys \in 0..n
AtMostOnce == \A id \in 1..n : Answers(id) <= 1
=============================================================================
