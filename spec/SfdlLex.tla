------------------------------- MODULE SfdlLex -------------------------------
(* C19, lexical level: how a definition text is cut into tokens (secsgem/secs/functions/sfdl_tokenizer.py,        *)
(* SFDLTokenizer.parse_all), against the documented rules (docs/firststeps/sfdl.md):                               *)
(*   tokens are the brackets < > and maximal runs of other characters; blanks and line breaks separate tokens;       *)
(*   "Comments start with a # and end with the line break."                                                         *)
(* Reference: RefTokens(text) -- comments removed (the line break stays), then split.                                 *)
(* Implementation-shaped machine: one step per character, state (cur, inc, out) as in parse_all.                       *)
(*   CommentEndSeparates = FALSE : as originally coded -- the line break that ends a comment is swallowed with the     *)
(*     comment ("continue"), so a token right before the comment runs on into the next line: "L# c <nl> NAME" is read  *)
(*     as the single token LNAME.  Kept as a regression witness TLC must refute.  TRUE: after fix:.                    *)
(* Characters: "w" stands for any character of a name, "n" for a line break.                                         *)
EXTENDS Naturals, Sequences, FiniteSets, TLC, Json

CONSTANTS CommentEndSeparates, N

Chars == {"w", " ", "n", "#", "<", ">"}
Blank(c) == c \in {" ", "n"}
Bracket(c) == c \in {"<", ">"}

RECURSIVE Strip(_, _)
Strip(t, c) == IF t = <<>> THEN <<>>
               ELSE LET h == Head(t) IN
                    IF c THEN (IF h = "n" THEN <<"n">> \o Strip(Tail(t), FALSE) ELSE Strip(Tail(t), TRUE))
                    ELSE IF h = "#" THEN Strip(Tail(t), TRUE) ELSE <<h>> \o Strip(Tail(t), FALSE)
Flush(cur) == IF cur = <<>> THEN <<>> ELSE <<cur>>
RECURSIVE Split(_, _)
Split(t, cur) == IF t = <<>> THEN Flush(cur)
                 ELSE LET h == Head(t) IN
                      IF Blank(h) THEN Flush(cur) \o Split(Tail(t), <<>>)
                      ELSE IF Bracket(h) THEN Flush(cur) \o <<<<h>>>> \o Split(Tail(t), <<>>)
                      ELSE Split(Tail(t), Append(cur, h))
RefTokens(t) == Split(Strip(t, FALSE), <<>>)

VARIABLES text, cur, inc, out
vars == <<text, cur, inc, out>>
Init == text = <<>> /\ cur = <<>> /\ inc = FALSE /\ out = <<>>

Whitespace == cur' = <<>> /\ out' = out \o Flush(cur)
Feed(ch) ==
  /\ Len(text) < N
  /\ text' = Append(text, ch)
  /\ IF inc \/ ch = "#"
       THEN IF ch = "n"
              THEN /\ inc' = FALSE
                   /\ IF CommentEndSeparates THEN Whitespace ELSE UNCHANGED <<cur, out>>
              ELSE inc' = TRUE /\ UNCHANGED <<cur, out>>
       ELSE /\ inc' = FALSE
            /\ IF Blank(ch) THEN Whitespace
               ELSE IF Bracket(ch) THEN cur' = <<>> /\ out' = out \o Flush(cur) \o <<<<ch>>>>
               ELSE cur' = Append(cur, ch) /\ UNCHANGED out
Next == \E ch \in Chars : Feed(ch)
Spec == Init /\ [][Next]_vars

(* at the end of any text the machine has produced the documented tokens                                        *)
AtEnd == out \o Flush(cur)
LexAsDocumented == AtEnd = RefTokens(text)
(* a comment never contributes to a token                                                                        *)
NoCommentCharInToken == inc => AtEnd = RefTokens(SubSeq(text, 1, CHOOSE i \in 1..Len(text) : text[i] = "#" /\ \A j \in (i + 1)..Len(text) : text[j] # "n") \o <<"n">>)
=============================================================================
