"""Regenerate spec constants from the tree: CatalogueData.tla (C03)."""
from __future__ import annotations


def shape_str(obj):
    import secsgem.secs.variables as var
    from secsgem.secs.variables.functions import generate

    if obj is None:
        return "none"
    if isinstance(obj, var.List):
        return "{" + ",".join(f"{k}:{shape_str(obj.data[k])}" for k in obj.data) + "}"
    if isinstance(obj, var.Array):
        return "[" + shape_str(generate(obj.item_decriptor)) + "]"
    return getattr(obj, "name", type(obj).__name__)


def tla_bool(b):
    return "TRUE" if b else "FALSE"


def rec(s, f, th, te, rp, rq, mb, shape):
    return (f"[s |-> {s}, f |-> {f}, toHost |-> {tla_bool(th)}, toEq |-> {tla_bool(te)}, reply |-> {tla_bool(rp)}, "
            f"replyReq |-> {tla_bool(rq)}, multi |-> {tla_bool(mb)}, shape |-> \"{shape}\"]")


def read_python():
    from secsgem.secs.functions._all import secs_streams_functions
    from secsgem.secs.variables.functions import generate

    out = []
    for c in secs_streams_functions:
        try:
            shp = shape_str(generate(c._data_format))
        except Exception as exc:  # noqa: BLE001
            shp = "ERROR"
        out.append((c._stream, c._function, c._to_host, c._to_equipment, c._has_reply, c._is_reply_required, c._is_multi_block, shp, c))
    return out


def read_yaml(path=None):
    import re

    import yaml
    from secsgem.secs.variables.functions import generate

    if path is None:
        import secsgem.secs
        import os
        path = os.path.join(os.path.dirname(secsgem.secs.__file__), "functions.yaml")
    data = yaml.safe_load(open(path))
    out = []
    for key, d in data.items():
        m = re.fullmatch(r"S(\d+)F(\d+)", key)
        s, f = int(m.group(1)), int(m.group(2))
        st = d.get("structure")
        try:
            shp = shape_str(generate(st)) if st else "none"
        except Exception as exc:  # noqa: BLE001
            shp = "ERROR"
        out.append((s, f, bool(d.get("to_host")), bool(d.get("to_equipment")), bool(d.get("reply")), bool(d.get("reply_required")),
                    bool(d.get("multi_block")), shp))
    return out


def write_module(path):
    py = read_python()
    ya = read_yaml()
    text = "---- MODULE CatalogueData ----\n(* generated from /repo at check time *)\nPy == <<\n  " + \
        ",\n  ".join(rec(*r[:8]) for r in py) + "\n>>\nYaml == <<\n  " + ",\n  ".join(rec(*r) for r in ya) + "\n>>\n====\n"
    path.write_text(text)
    return py, ya
