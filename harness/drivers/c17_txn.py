"""C17, leg Q: request / reply transactions over the SECS-I line, the reply in time or only after the requester's T3 expired.
Every message whose send call reported success must arrive exactly once: an in-time reply at the waiting caller, a late one at the
application (message_received).  The event traces are folded through the C06 monitor TxMon by TLC (TxJudge)."""
from __future__ import annotations

import json
import random

from .. import simrt, tlc
from ..common import Machinery, chunks


def pattern(n):
    return bytes((i * 13 + 7) % 251 for i in range(n))


def run_batch(job):
    import logging
    logging.disable(logging.CRITICAL)
    simrt.install()
    return [run_one(it) for it in job]


def run_one(it):
    rec = dict(it)
    ev = []
    rec["ev"] = ev

    def main(s):
        import secsgem.common
        import secsgem.secs.functions as sf
        import secsgem.secsi
        from ..link import FakeConnection, Link

        class St(secsgem.secsi.SecsISettings):
            def __init__(self, lk, **kw):
                super().__init__(**kw)
                self._lk = lk

            def create_connection(self):
                return FakeConnection(self, self._lk)

        rng = random.Random(it["seed"])
        lh, le = Link("host"), Link("equipment")
        host = secsgem.secsi.SecsIProtocol(St(lh, port="A", device_type=secsgem.common.DeviceType.HOST))
        eqp = secsgem.secsi.SecsIProtocol(St(le, port="B", device_type=secsgem.common.DeviceType.EQUIPMENT))
        req, rsp = (host, eqp) if it["dir"] == "h2e" else (eqp, host)
        lq, lp = (lh, le) if it["dir"] == "h2e" else (le, lh)
        t3 = req._settings.timeouts.t3
        pend = {"Q": bytearray(), "P": bytearray()}
        lq.on_send_hook = lambda d: pend["Q"].extend(d)
        lp.on_send_hook = lambda d: pend["P"].extend(d)
        primaries = []
        rsp.events.message_received += lambda d: primaries.append(d["message"])

        def on_late(d):
            m = d["message"]
            tag = "t1" if bytes(m.data) == reply_body[0] and m.header.system == sysb[0] else f"x{m.header.stream}.{m.header.function}"
            ev.append({"e": "DBegin", "id": tag})
            ev.append({"e": "DEnd", "id": tag})

        req.events.message_received += on_late
        host.enable()
        eqp.enable()
        lh.connect()
        le.connect()
        s.settle()

        def pump(until, max_idle=3):
            idle = 0
            while idle < max_idle and not until():
                s.settle()
                moved = False
                for who, dst in (("Q", lp), ("P", lq)):
                    buf = pend[who]
                    if not buf:
                        continue
                    k = len(buf) if it["chunk"] == "whole" else (1 if it["chunk"] == "byte" else rng.choice([1, 2, 3, 5, 11, 64, len(buf)]))
                    k = min(k, len(buf))
                    part = bytes(buf[:k])
                    del buf[:k]
                    dst.feed(part)
                    moved = True
                idle = 0 if moved else idle + 1

        ret = {}
        sysb = [None]
        reply_body = [None]

        def call():
            ev.append({"e": "Call", "c": 1, "tag": "t1"})
            r = req.send_and_waitfor_response(sf.SecsS02F25(pattern(it["n"])))
            ret["v"] = r
            ret["done"] = True

        simrt.Thread(target=call, name="requester_app").start()
        pump(lambda: bool(primaries))
        if not primaries:
            rec["no_primary"] = True
            return
        pm = primaries[0]
        sysb[0] = pm.header.system
        ev.append({"e": "Out", "sys": format(pm.header.system, "08x"), "tag": "t1"})
        if it["late"]:
            # the replier takes longer than the requester's T3
            ok, _ = s.run_until(lambda: ret.get("done"), max_dt=t3 + 5)
            if not ok:
                rec["requester_did_not_time_out"] = True
                return
            ev.append({"e": "Ret", "c": 1, "tag": "t1", "got": "none" if ret["v"] is None else "t?"})
        fn = sf.SecsS02F26(pattern(it["n"])[::-1])
        reply_body[0] = bytes(fn.encode())
        sent = {}

        def reply():
            sent["ok"] = bool(rsp.send_response(fn, pm.header.system))
            sent["done"] = True

        ev.append({"e": "InReply", "sys": format(pm.header.system, "08x"), "tag": "t1"})
        simrt.Thread(target=reply, name="replier_app").start()
        pump(lambda: sent.get("done") and (it["late"] or ret.get("done")) and not pend["Q"] and not pend["P"], max_idle=4)
        s.run_until(lambda: sent.get("done") and ret.get("done"), max_dt=t3 + 60)
        rec["reply_send_ok"] = sent.get("ok")
        if not it["late"]:
            r = ret.get("v")
            got = "none" if r is None else ("t1" if bytes(r.data) == reply_body[0] and r.header.function == 26 else "t?")
            ev.append({"e": "Ret", "c": 1, "tag": "t1", "got": got})
        s.run_until(lambda: False, max_dt=2.0)

    s = simrt.run(main, seed=it["seed"], policy=it["policy"], switch_prob=0.3, max_vtime=1e6, wall_timeout=120)
    rec["outcome"] = s.outcome
    if s.errors:
        rec["errors"] = [e[:2] for e in s.errors[:2]]
    return rec


def check(ctx, wd, pmap):
    rng = random.Random(ctx.seed + 1717)
    items = []
    tid = 0
    for d in ("h2e", "e2h"):
        for n in ((5, 300) if ctx.quick else (0, 5, 244, 300, 700)):
            for late in (False, True):
                for chunk in (("rand",) if ctx.quick else ("whole", "byte", "rand")):
                    tid += 1
                    items.append({"id": tid, "dir": d, "n": n, "late": late, "chunk": chunk, "seed": rng.randrange(1 << 30),
                                  "policy": rng.choice(["fifo", "random", "pct"])})
    recs = [r for b in pmap(run_batch, chunks(items, 2)) for r in b]
    for r in recs:
        if r.get("errors") and "Machinery" in str(r["errors"]):
            raise Machinery(str(r["errors"]))
    good = []
    for r in recs:
        base = {"check": "txn", "dir": r["dir"], "n": r["n"], "late_reply": r["late"], "chunk": r["chunk"], "sched": [r["seed"], r["policy"]]}
        if r["outcome"] != "done" or r.get("errors") or r.get("no_primary") or r.get("requester_did_not_time_out"):
            ctx.violation(dict(base, clause="transaction-did-not-finish", outcome=r["outcome"], errors=r.get("errors"),
                               what=f"SECS-I transaction {r['dir']} body {r['n']} ({'late' if r['late'] else 'in-time'} reply): run ended {r['outcome']} "
                                    f"{r.get('errors')} no_primary={r.get('no_primary')} no_timeout={r.get('requester_did_not_time_out')}"))
        elif not r.get("reply_send_ok"):
            ctx.violation(dict(base, clause="reply-send-reported-failure", what=f"SECS-I {r['dir']}: sending the reply over a fault-free line reported failure"))
        else:
            good.append(r)
    f = wd / "txn_traces.json"
    f.write_text(json.dumps([{"id": r["id"], "ev": r["ev"]} for r in good]))
    rj = tlc.run("TxJudge", cfg_text="", workdir=wd, workers=1, env={"TRACE_FILE": str(f)}, what="txn_judge", coverage=False, timeout=900)
    tlc.require_ok(rj, "TxJudge (SECS-I transactions)")
    verd = {v["id"]: v for v in rj.tagged("V")}
    if len(verd) != len(good):
        raise Machinery(f"TxJudge: {len(verd)} verdicts for {len(good)} traces")
    ctx.traces += len(good)
    ctx.evaluations += sum(len(r["ev"]) for r in good)
    ctx.extra["secs1_transactions"] = len(good)
    ctx.extra["secs1_transactions_with_late_reply"] = len([r for r in good if r["late"]])
    for r in good:
        v = verd[r["id"]]
        if v["clause"] != "ok":
            ctx.violation({"check": "txn", "clause": v["clause"], "dir": r["dir"], "n": r["n"], "late_reply": r["late"], "chunk": r["chunk"], "events": r["ev"],
                           "sched": [r["seed"], r["policy"]],
                           "what": f"SECS-I transaction {r['dir']}, body {r['n']}, reply {'after the requester s T3' if r['late'] else 'in time'}, its send reported success: "
                                   f"{v['clause']} at event {v['at']} ({[e['e'] for e in r['ev']]})"})


# ------------------------------------------------------------------------------------------------------------------------------
# C06 over SECS-I: requests of both stations at the same moment (line contention: both send ENQ, the host yields)
def run_contention(it):
    rec = dict(it)
    ev = []
    rec["ev"] = ev

    def main(s):
        import secsgem.common
        import secsgem.secs.functions as sf
        import secsgem.secsi
        from ..link import FakeConnection, Link

        class St(secsgem.secsi.SecsISettings):
            def __init__(self, lk, **kw):
                super().__init__(**kw)
                self._lk = lk

            def create_connection(self):
                return FakeConnection(self, self._lk)

        rng = random.Random(it["seed"])
        lh, le = Link("host"), Link("equipment")
        host = secsgem.secsi.SecsIProtocol(St(lh, port="A", device_type=secsgem.common.DeviceType.HOST))
        eqp = secsgem.secsi.SecsIProtocol(St(le, port="B", device_type=secsgem.common.DeviceType.EQUIPMENT))
        pend = {"H": bytearray(), "E": bytearray()}
        lh.on_send_hook = lambda d: pend["H"].extend(d)
        le.on_send_hook = lambda d: pend["E"].extend(d)
        t3 = host._settings.timeouts.t3
        ncall = it["ncall"]

        # the equipment answers the host's requests and sends primaries of its own; the host hands those to the application
        def eq_app(d):
            m = d["message"]
            if m.header.function == 25:
                tag = int.from_bytes(bytes(m.data)[-4:], "big") if len(m.data) >= 4 else -1
                ev.append({"e": "Out", "sys": format(m.header.system, "08x"), "tag": f"t{tag}"})
                if tag not in it["never"]:
                    mark = {"e": "InReply", "sys": format(m.header.system, "08x"), "tag": f"t{tag}"}
                    ev.append(mark)

                    def reply(m=m, mark=mark):
                        okk = eqp.send_response(sf.SecsS02F26(bytes(m.data)[2:] if len(m.data) > 2 else b""), m.header.system)
                        if not okk:
                            mark["e"] = "ReplyNotDelivered"      # the line protocol reported failure: for the requester no reply arrived

                    simrt.Thread(target=reply, name="eq_reply").start()

        def host_app(d):
            m = d["message"]
            uid = f"u{int.from_bytes(bytes(m.data)[-2:], 'big')}" if m.header.function == 25 else f"x{m.header.stream}.{m.header.function}"
            rec.setdefault("handed", []).append(uid)      # whether a primary gets through a contended line is the line protocol's matter
                                                          # (C17); what arrives is handed over at most once, in order

        eqp.events.message_received += eq_app
        host.events.message_received += host_app
        host.enable()
        eqp.enable()
        lh.connect()
        le.connect()
        s.settle()
        done = {}

        def caller(c):
            tag = 100 + c
            ev.append({"e": "Call", "c": c, "tag": f"t{tag}"})
            r = host.send_and_waitfor_response(sf.SecsS02F25(pattern(it["n"]) + tag.to_bytes(4, "big")))
            got = "none"
            if r is not None:
                body = bytes(r.data)
                got = f"t{int.from_bytes(body[-4:], 'big')}" if len(body) >= 4 and r.header.function == 26 else "t?"
            ev.append({"e": "Ret", "c": c, "tag": f"t{tag}", "got": got})
            done[c] = True

        def eq_primaries():
            # one application thread of the equipment: its primaries go out one after the other (their order is defined)
            for k in range(1, it["neq"] + 1):
                eqp.send_message(eqp._create_message_for_function(sf.SecsS02F25(pattern(3) + k.to_bytes(2, "big")), eqp.get_next_system_counter()))
                done[f"e{k}"] = True

        # both sides ask for the line at the same moment: nothing moves on the line until all requests are queued
        for c in range(1, ncall + 1):
            simrt.Thread(target=caller, args=(c,), name=f"caller{c}").start()
        if it["neq"]:
            simrt.Thread(target=eq_primaries, name="eq_primaries").start()
        s.settle()
        idle = 0
        want = ncall + it["neq"]
        t_end = s.now + 4 * t3
        while s.now < t_end and len(done) < want:
            s.settle()
            moved = False
            for who, dst in (("H", le), ("E", lh)):
                buf = pend[who]
                if not buf:
                    continue
                k = len(buf) if it["chunk"] == "whole" else (1 if it["chunk"] == "byte" else rng.choice([1, 2, 3, 5, 11, 64, len(buf)]))
                part = bytes(buf[:k])
                del buf[:k]
                dst.feed(part)
                moved = True
            if not moved:
                idle += 1
                nd = s.next_deadline()
                if nd is None:
                    break
                s.block(("pace",), min(max(0.0, nd - s.now), t3))
            else:
                idle = 0
        rec["returned"] = sorted(str(k) for k in done)
        rec["all_returned"] = len(done) >= want
        if not rec["all_returned"]:
            rec["blocked"] = [b["thread"] + ":" + "/".join(b["stack"][-2:]) for b in s.blocked_report()][:6]

    s = simrt.run(main, seed=it["seed"], policy=it["policy"], switch_prob=0.3, max_vtime=1e6, wall_timeout=120)
    rec["outcome"] = s.outcome
    if s.errors:
        rec["errors"] = [e[:2] for e in s.errors[:2]]
    return rec


def run_contention_batch(job):
    import logging
    logging.disable(logging.CRITICAL)
    simrt.install()
    return [run_contention(it) for it in job]


def check_contention(ctx, wd, pmap):
    rng = random.Random(ctx.seed + 606)
    items = []
    tid = 0
    for ncall, neq in ((1, 0), (1, 1), (2, 0), (2, 1), (1, 2), (3, 0), (2, 2)):
        for n in (0, 300):
            for chunk in (("rand",) if ctx.quick else ("whole", "byte", "rand")):
                for never in ([], [101]):
                    tid += 1
                    items.append({"id": tid, "ncall": ncall, "neq": neq, "n": n, "chunk": chunk, "never": never, "seed": rng.randrange(1 << 30),
                                  "policy": rng.choice(["fifo", "random", "pct"])})
    recs = [r for b in pmap(run_contention_batch, chunks(items, 2)) for r in b]
    good = []
    for r in recs:
        if r.get("errors") and "Machinery" in str(r["errors"]):
            raise Machinery(str(r["errors"]))
        if r["outcome"] != "done" or r.get("errors") or not r.get("all_returned"):
            ctx.violation({"check": "secs1-contention", "clause": "a-caller-neither-got-its-reply-nor-a-timeout", "callers": r["ncall"], "equipment_primaries": r["neq"],
                           "transfers_wanted_at_once": r["ncall"] + r["neq"],
                           "body": r["n"], "chunk": r["chunk"], "sched": [r["seed"], r["policy"]], "returned": r.get("returned"), "blocked": r.get("blocked"),
                           "what": f"SECS-I, {r['ncall']} host request(s) and {r['neq']} equipment primary(ies) asking for the line at the same moment: not every call "
                                   f"returned (returned {r.get('returned')}; run {r['outcome']} {r.get('errors')}); blocked {(r.get('blocked') or [])[:2]}"})
        else:
            good.append(r)
            handed = r.get("handed", [])
            nums = [int(h[1:]) for h in handed if h.startswith("u") and h[1:].isdigit()]
            if len(nums) != len(handed) or nums != sorted(set(nums)):
                ctx.violation({"check": "secs1-contention", "clause": "primary-handed-over-twice-or-out-of-order", "handed": handed, "sched": [r["seed"], r["policy"]],
                               "what": f"SECS-I line contention: the equipment's primaries u1..u{r['neq']} were handed to the host application as {handed}"})
    # with three or more transfers at once the line protocol of the unchanged library gets confused (known finding): what arrived
    # where is then not observable from the applications' side (the line protocol reports failure for blocks that arrived and vice versa),
    # so only "every call returns" is demanded there; runs with one request against at most one primary are judged event by event
    judged = [r for r in good if r["ncall"] == 1 and r["neq"] <= 1]      # (two requests: the first reply already contends with the second request)
    f = wd / "secs1_contention_traces.json"
    f.write_text(json.dumps([{"id": r["id"], "ev": r["ev"]} for r in judged]))
    good_all, good = good, judged
    if good:
        rj = tlc.run("TxJudge", cfg_text="", workdir=wd, workers=1, env={"TRACE_FILE": str(f)}, what="secs1_contention_judge", coverage=False, timeout=900)
        tlc.require_ok(rj, "TxJudge (SECS-I contention)")
        verd = {v["id"]: v for v in rj.tagged("V")}
        for r in good:
            v = verd[r["id"]]
            if v["clause"] != "ok":
                ctx.violation({"check": "secs1-contention", "clause": v["clause"], "callers": r["ncall"], "equipment_primaries": r["neq"], "events": r["ev"],
                               "sched": [r["seed"], r["policy"]],
                               "what": f"SECS-I line contention ({r['ncall']} host requests, {r['neq']} equipment primaries): {v['clause']} at event {v['at']}"})
    ctx.traces += len(good)
    ctx.evaluations += sum(len(r["ev"]) for r in good)
    ctx.extra["secs1_contention_runs"] = len(recs)
