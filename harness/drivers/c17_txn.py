"""C17, leg Q: request / reply transactions over the SECS-I line, the reply in time or only after the requester's T3 expired.
Every message whose send call reported success must arrive exactly once: an in-time reply at the waiting caller, a late one at the
application (message_received).  The event traces are folded through the C06 monitor TxMon by TLC (TxJudge)."""
from __future__ import annotations

import json
import random

from .. import simrt, tlc
from ..common import Machinery, chunks


def pattern(n):
    return bytes((i * 13 + 7) % 251 for i in range(n))


def run_batch(job):
    import logging
    logging.disable(logging.CRITICAL)
    simrt.install()
    return [run_one(it) for it in job]


def run_one(it):
    rec = dict(it)
    ev = []
    rec["ev"] = ev

    def main(s):
        import secsgem.common
        import secsgem.secs.functions as sf
        import secsgem.secsi
        from ..link import FakeConnection, Link

        class St(secsgem.secsi.SecsISettings):
            def __init__(self, lk, **kw):
                super().__init__(**kw)
                self._lk = lk

            def create_connection(self):
                return FakeConnection(self, self._lk)

        rng = random.Random(it["seed"])
        lh, le = Link("host"), Link("equipment")
        host = secsgem.secsi.SecsIProtocol(St(lh, port="A", device_type=secsgem.common.DeviceType.HOST))
        eqp = secsgem.secsi.SecsIProtocol(St(le, port="B", device_type=secsgem.common.DeviceType.EQUIPMENT))
        req, rsp = (host, eqp) if it["dir"] == "h2e" else (eqp, host)
        lq, lp = (lh, le) if it["dir"] == "h2e" else (le, lh)
        t3 = req._settings.timeouts.t3
        pend = {"Q": bytearray(), "P": bytearray()}
        lq.on_send_hook = lambda d: pend["Q"].extend(d)
        lp.on_send_hook = lambda d: pend["P"].extend(d)
        primaries = []
        rsp.events.message_received += lambda d: primaries.append(d["message"])

        def on_late(d):
            m = d["message"]
            tag = "t1" if bytes(m.data) == reply_body[0] and m.header.system == sysb[0] else f"x{m.header.stream}.{m.header.function}"
            ev.append({"e": "DBegin", "id": tag})
            ev.append({"e": "DEnd", "id": tag})

        req.events.message_received += on_late
        host.enable()
        eqp.enable()
        lh.connect()
        le.connect()
        s.settle()

        def pump(until, max_idle=3):
            idle = 0
            while idle < max_idle and not until():
                s.settle()
                moved = False
                for who, dst in (("Q", lp), ("P", lq)):
                    buf = pend[who]
                    if not buf:
                        continue
                    k = len(buf) if it["chunk"] == "whole" else (1 if it["chunk"] == "byte" else rng.choice([1, 2, 3, 5, 11, 64, len(buf)]))
                    k = min(k, len(buf))
                    part = bytes(buf[:k])
                    del buf[:k]
                    dst.feed(part)
                    moved = True
                idle = 0 if moved else idle + 1

        ret = {}
        sysb = [None]
        reply_body = [None]

        def call():
            ev.append({"e": "Call", "c": 1, "tag": "t1"})
            r = req.send_and_waitfor_response(sf.SecsS02F25(pattern(it["n"])))
            ret["v"] = r
            ret["done"] = True

        simrt.Thread(target=call, name="requester_app").start()
        pump(lambda: bool(primaries))
        if not primaries:
            rec["no_primary"] = True
            return
        pm = primaries[0]
        sysb[0] = pm.header.system
        ev.append({"e": "Out", "sys": format(pm.header.system, "08x"), "tag": "t1"})
        if it["late"]:
            # the replier takes longer than the requester's T3
            ok, _ = s.run_until(lambda: ret.get("done"), max_dt=t3 + 5)
            if not ok:
                rec["requester_did_not_time_out"] = True
                return
            ev.append({"e": "Ret", "c": 1, "tag": "t1", "got": "none" if ret["v"] is None else "t?"})
        fn = sf.SecsS02F26(pattern(it["n"])[::-1])
        reply_body[0] = bytes(fn.encode())
        sent = {}

        def reply():
            sent["ok"] = bool(rsp.send_response(fn, pm.header.system))
            sent["done"] = True

        ev.append({"e": "InReply", "sys": format(pm.header.system, "08x"), "tag": "t1"})
        simrt.Thread(target=reply, name="replier_app").start()
        pump(lambda: sent.get("done") and (it["late"] or ret.get("done")) and not pend["Q"] and not pend["P"], max_idle=4)
        s.run_until(lambda: sent.get("done") and ret.get("done"), max_dt=t3 + 60)
        rec["reply_send_ok"] = sent.get("ok")
        if not it["late"]:
            r = ret.get("v")
            got = "none" if r is None else ("t1" if bytes(r.data) == reply_body[0] and r.header.function == 26 else "t?")
            ev.append({"e": "Ret", "c": 1, "tag": "t1", "got": got})
        s.run_until(lambda: False, max_dt=2.0)

    s = simrt.run(main, seed=it["seed"], policy=it["policy"], switch_prob=0.3, max_vtime=1e6, wall_timeout=120)
    rec["outcome"] = s.outcome
    if s.errors:
        rec["errors"] = [e[:2] for e in s.errors[:2]]
    return rec


def check(ctx, wd, pmap):
    rng = random.Random(ctx.seed + 1717)
    items = []
    tid = 0
    for d in ("h2e", "e2h"):
        for n in ((5, 300) if ctx.quick else (0, 5, 244, 300, 700)):
            for late in (False, True):
                for chunk in (("rand",) if ctx.quick else ("whole", "byte", "rand")):
                    tid += 1
                    items.append({"id": tid, "dir": d, "n": n, "late": late, "chunk": chunk, "seed": rng.randrange(1 << 30),
                                  "policy": rng.choice(["fifo", "random", "pct"])})
    recs = [r for b in pmap(run_batch, chunks(items, 2)) for r in b]
    for r in recs:
        if r.get("errors") and "Machinery" in str(r["errors"]):
            raise Machinery(str(r["errors"]))
    good = []
    for r in recs:
        base = {"check": "txn", "dir": r["dir"], "n": r["n"], "late_reply": r["late"], "chunk": r["chunk"], "sched": [r["seed"], r["policy"]]}
        if r["outcome"] != "done" or r.get("errors") or r.get("no_primary") or r.get("requester_did_not_time_out"):
            ctx.violation(dict(base, clause="transaction-did-not-finish", outcome=r["outcome"], errors=r.get("errors"),
                               what=f"SECS-I transaction {r['dir']} body {r['n']} ({'late' if r['late'] else 'in-time'} reply): run ended {r['outcome']} "
                                    f"{r.get('errors')} no_primary={r.get('no_primary')} no_timeout={r.get('requester_did_not_time_out')}"))
        elif not r.get("reply_send_ok"):
            ctx.violation(dict(base, clause="reply-send-reported-failure", what=f"SECS-I {r['dir']}: sending the reply over a fault-free line reported failure"))
        else:
            good.append(r)
    f = wd / "txn_traces.json"
    f.write_text(json.dumps([{"id": r["id"], "ev": r["ev"]} for r in good]))
    rj = tlc.run("TxJudge", cfg_text="", workdir=wd, workers=1, env={"TRACE_FILE": str(f)}, what="txn_judge", coverage=False, timeout=900)
    tlc.require_ok(rj, "TxJudge (SECS-I transactions)")
    verd = {v["id"]: v for v in rj.tagged("V")}
    if len(verd) != len(good):
        raise Machinery(f"TxJudge: {len(verd)} verdicts for {len(good)} traces")
    ctx.traces += len(good)
    ctx.evaluations += sum(len(r["ev"]) for r in good)
    ctx.extra["secs1_transactions"] = len(good)
    ctx.extra["secs1_transactions_with_late_reply"] = len([r for r in good if r["late"]])
    for r in good:
        v = verd[r["id"]]
        if v["clause"] != "ok":
            ctx.violation({"check": "txn", "clause": v["clause"], "dir": r["dir"], "n": r["n"], "late_reply": r["late"], "chunk": r["chunk"], "events": r["ev"],
                           "sched": [r["seed"], r["policy"]],
                           "what": f"SECS-I transaction {r['dir']}, body {r['n']}, reply {'after the requester s T3' if r['late'] else 'in time'}, its send reported success: "
                                   f"{v['clause']} at event {v['at']} ({[e['e'] for e in r['ev']]})"})
