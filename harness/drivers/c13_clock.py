"""C13, leg K: the predefined status variable Clock answers S1F3 with the current time in the format selected by the equipment
constant TimeFormat (set through S2F15).  The equipment's view of `datetime` is replaced the way `time` is (simrt.install extra
shim): the clock stands at instants chosen by the driver (sub-second parts at and around every digit boundary); ClockJudge (TLC)
decides every reply.  Should the equipment read the time another way the wall clock window of the request is accepted as well."""
from __future__ import annotations

import datetime as _dt
import json
import random

from .. import e5, hsmsrun, simrt, tlc
from ..common import Machinery, chunks

CLOCK_SVID = 1001
TIMEFORMAT_ECID = 2
_frozen = {"now": None}


class _Frozen(_dt.datetime):
    @classmethod
    def now(cls, tz=None):
        cur = _frozen["now"]
        if cur is None:
            return _dt.datetime.now(tz)
        return cur.astimezone(tz) if tz is not None else cur.astimezone().replace(tzinfo=None)


class _DatetimeShim:
    datetime = _Frozen

    def __getattr__(self, name):
        return getattr(_dt, name)


datetime_shim = _DatetimeShim()


def pt(d):
    """(YYYYMMDD, centiseconds of the day) of a naive local datetime."""
    return [d.year * 10000 + d.month * 100 + d.day, ((d.hour * 60 + d.minute) * 60 + d.second) * 100 + d.microsecond // 10000]


def local_naive(d):
    return d.astimezone().replace(tzinfo=None) if d.tzinfo is not None else d


def run_batch(job):
    bid, samples, seed = job
    hsmsrun.quiet_logging()
    simrt.install(extra={"datetime": datetime_shim})
    out = []

    def main(s):
        import secsgem.common
        import secsgem.gem
        ep = hsmsrun.Ep(mode="passive", kind="equipment", device_type=secsgem.common.DeviceType.EQUIPMENT,
                        settings={"establish_communication_timeout": 30})
        if not hsmsrun.establish(s, ep):
            raise Machinery("could not establish communication")

        def ask(sfn, fn, body):
            sysid = ep.fresh_sys()
            ep.link.feed(hsmsrun.data_frame(sfn, fn, True, sysid, body))
            s.settle()
            rep = None
            for f in ep.link.take_frames():
                if f.get("stype") == 0 and f["system"] == sysid:
                    rep = f
            return rep

        cur_fmt = None
        for sm in samples:
            if sm["fmt"] != cur_fmt:
                rep = ask(2, 15, e5.encode(e5.L(e5.L(e5.U4(TIMEFORMAT_ECID), e5.U4(sm["fmt"])))))
                if rep is None or rep["f"] != 16 or e5.plain(e5.decode_all(rep["body"])) != 0:
                    raise Machinery(f"TimeFormat {sm['fmt']} not accepted through S2F15: {rep}")
                cur_fmt = sm["fmt"]
            inst = _dt.datetime.fromisoformat(sm["at"]).astimezone()
            before = _dt.datetime.now()
            _frozen["now"] = inst
            try:
                rep = ask(1, 3, e5.encode(e5.L(*[e5.U4(CLOCK_SVID)] * sm["n"])))
            finally:
                _frozen["now"] = None
            after = _dt.datetime.now()
            fz = pt(local_naive(inst))
            rec = {"id": sm["id"], "fmt": sm["fmt"], "at": sm["at"], "n": sm["n"], "txt": [], "iso": [0, 0],
                   "win": [fz + fz, pt(before) + pt(after)], "shape": "ok"}
            if rep is None or rep["f"] != 4:
                rec["shape"] = "no S1F4"
            else:
                vals = e5.decode_all(rep["body"])[1]
                if len(vals) != sm["n"] or any(v[0] != "A" for v in vals) or len({bytes(v[1]) if not isinstance(v[1], str) else v[1] for v in vals}) != 1:
                    rec["shape"] = f"reply is not {sm['n']} equal text item(s): {[v[0] for v in vals]}"
                else:
                    t = vals[0][1]
                    t = t if isinstance(t, str) else bytes(t).decode("latin-1")
                    rec["text"] = t
                    rec["txt"] = [ord(c) for c in t]
                    if sm["fmt"] == 2:
                        try:
                            rec["iso"] = pt(local_naive(_dt.datetime.fromisoformat(t)))
                        except ValueError:
                            rec["iso"] = [0, 0]
            out.append(rec)

    s = simrt.run(main, seed=seed, policy="fifo", max_vtime=1e7, wall_timeout=300)
    if s.outcome != "done" or s.errors:
        return [{"id": -1, "failed": f"{s.outcome} {[e[:2] for e in s.errors[:2]]}"}]
    return out


def check(ctx, wd, pmap):
    rng = random.Random(ctx.seed + 1313)
    micro = [0, 1, 7, 9, 10, 99, 100, 999, 1000, 5000, 9999, 10000, 50000, 99999, 100000, 123456, 500000, 909090, 987654, 999999]
    secs = [(2024, 3, 9, 7, 5, 3), (1999, 12, 31, 23, 59, 59), (2000, 1, 1, 0, 0, 0), (2031, 10, 5, 9, 0, 9), (2027, 2, 28, 12, 30, 0)]
    samples = []
    sid = 0
    for fmt in (1, 0, 2):
        for us in micro if ctx.quick else micro + [rng.randrange(1000000) for _ in range(200)]:
            for base in (secs if fmt == 1 else secs[:2]):
                if fmt == 0 and base[0] < 2000:
                    continue          # two-digit years: the judge reads them in the current century
                sid += 1
                at = _dt.datetime(*base, us)
                samples.append({"id": sid, "fmt": fmt, "at": at.isoformat(), "n": 1 if sid % 4 else 2})
    rng.shuffle(samples)
    recs = [r for b in pmap(run_batch, [(i, ch, ctx.seed) for i, ch in enumerate(chunks(samples, max(8, len(samples) // 16)))]) for r in b]
    bad = [r for r in recs if r.get("failed")]
    if bad:
        if "Machinery" in bad[0]["failed"]:
            raise Machinery(bad[0]["failed"])
        ctx.violation({"check": "clock", "clause": "run-did-not-finish", "what": f"clock run ended {bad[0]['failed']}"})
        return
    f = wd / "clock_samples.json"
    f.write_text(json.dumps([{k: r[k] for k in ("id", "fmt", "txt", "win", "iso")} for r in recs]))
    rj = tlc.run("ClockJudge", cfg_text="", workdir=wd, workers=1, env={"TRACE_FILE": str(f)}, what="clock_judge", coverage=False, timeout=900)
    tlc.require_ok(rj, "ClockJudge")
    verd = {v["id"]: v["clause"] for v in rj.tagged("V")}
    if len(verd) != len(recs):
        raise Machinery(f"ClockJudge: {len(verd)} verdicts for {len(recs)} samples")
    ctx.evaluations += len(recs)
    ctx.extra["clock_samples"] = len(recs)
    ctx.extra["clock_samples_answered_from_the_frozen_clock"] = len([r for r in recs if r.get("text") and r["shape"] == "ok"])
    shown = 0
    for r in recs:
        cl = verd[r["id"]] if r["shape"] == "ok" else "clock-reply-shape"
        if cl != "ok" and shown < 25:
            shown += 1
            ctx.violation({"check": "clock", "clause": cl, "time_format": r["fmt"], "clock_at": r["at"], "reply": r.get("text"), "shape": r["shape"],
                           "what": f"S1F3 for the predefined Clock variable, TimeFormat {r['fmt']}, equipment clock at {r['at']}: "
                                   f"reply {r.get('text')!r} ({r['shape']}): {cl}"})
    # the judge must reject replies that are wrong in one digit / one character
    ok = next((r for r in recs if r["fmt"] == 1 and r["shape"] == "ok" and verd[r["id"]] == "ok"), None)
    if ok is not None:
        muts = []
        for k, (pos, delta) in enumerate(((15, 1), (14, 1), (9, 1)), start=1):
            t = list(ok["txt"])
            t[pos - 1] = 48 + (t[pos - 1] - 48 + delta) % 10
            muts.append({"id": k, "fmt": 1, "txt": t, "win": ok["win"], "iso": [0, 0]})
        muts.append({"id": 4, "fmt": 1, "txt": ok["txt"][:15], "win": ok["win"], "iso": [0, 0]})
        fm = wd / "clock_mutants.json"
        fm.write_text(json.dumps(muts))
        rm = tlc.run("ClockJudge", cfg_text="", workdir=wd, workers=1, env={"TRACE_FILE": str(fm)}, what="clock_mutants", coverage=False, timeout=300)
        tlc.require_ok(rm, "ClockJudge (mutants)")
        if any(v["clause"] == "ok" for v in rm.tagged("V")):
            raise Machinery("ClockJudge accepted a clock text altered in one digit")
        ctx.extra["clock_mutants_rejected"] = len(muts)
