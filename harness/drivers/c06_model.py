"""Leg M of C06: TLC on the implementation-shaped Transactions model."""
from .. import tlc
from ..common import Machinery


def cfg(atomic, single, callers=2, unsol=2, m=4, conns=2, late="FALSE", sec="TRUE"):
    return (f"SPECIFICATION Spec\nCONSTANTS AtomicCounter = {atomic}\n SingleDispatcher = {single}\n LateReplies = {late}\n SecondaryOnly = {sec}\n NC = {callers}\n"
            f" NU = {unsol}\n M = {m}\n MaxConn = {conns}\nINVARIANT DistinctOutstanding\nINVARIANT OwnReplyOnly\n"
            "INVARIANT OneAtATime\nINVARIANT InOrderOnce\nINVARIANT NothingSwallowed\n")


def check(ctx, wd):
    big = dict(callers=3, unsol=1, m=4) if ctx.quick else dict(callers=3, unsol=2, m=4)
    r = tlc.run("Transactions", cfg_text=cfg("TRUE", "TRUE", **big), workdir=wd, what="tx_model", timeout=2400)
    tlc.require_ok(r, "Transactions")
    tlc.require_covered(r, ["CallInc", "CallRegister", "CallSend", "CallGot", "CallTimeout", "PeerReply",
                            "PeerUnsol", "PeerCollide", "DtTake", "DtRoute", "DtDeliverEnd", "Reconnect"])
    ctx.add_tlc(r, "transaction layer as coded (locked counter, one dispatcher, replies are secondaries): all interleavings")
    wide = dict(callers=2, unsol=3, m=4) if ctx.quick else dict(callers=2, unsol=3, m=5)
    rw = tlc.run("Transactions", cfg_text=cfg("TRUE", "TRUE", **wide), workdir=wd, what="tx_model_wide", timeout=2400)
    tlc.require_ok(rw, "Transactions (more unsolicited / colliding primaries)")
    ctx.add_tlc(rw, "the same with two callers and three primaries of the peer (plain or carrying the system bytes of an open request)")
    small = dict(callers=2, unsol=2, m=4) if ctx.quick else dict(callers=3, unsol=2, m=4)
    rl = tlc.run("Transactions", cfg_text=cfg("TRUE", "TRUE", late="TRUE", **small), workdir=wd, what="tx_model_late", timeout=2400)
    tlc.require_ok(rl, "Transactions (late replies)")
    tlc.require_covered(rl, ["PeerLateReply", "CallTimeout", "DtRoute"])
    ctx.add_tlc(rl, "the same with answers arriving after the caller gave up (T3)")
    r2 = tlc.run("Transactions", cfg_text=cfg("FALSE", "TRUE"), workdir=wd, what="tx_model_nonatomic", timeout=2400,
                 expect_error=True)
    ctx.add_tlc(r2, "regression witness: non-atomic counter -> TLC finds duplicate system bytes")
    r3 = tlc.run("Transactions", cfg_text=cfg("TRUE", "FALSE"), workdir=wd, what="tx_model_two_dispatchers", timeout=2400,
                 expect_error=True)
    ctx.add_tlc(r3, "regression witness: a second dispatcher after reconnect -> overlapping / reordered hand-over")
    r4 = tlc.run("Transactions", cfg_text=cfg("TRUE", "TRUE", sec="FALSE"), workdir=wd, what="tx_model_route_by_sys_only", timeout=2400,
                 expect_error=True)
    ctx.add_tlc(r4, "regression witness: routing by system bytes alone -> a primary of the peer that carries the system bytes of an open request is taken as its reply")
    if r4.error_kind != "invariant":
        raise Machinery(f"Transactions regression witness (routing by system bytes only) no longer fails ({r4.error_kind})")
    if r2.error_kind != "invariant" or r3.error_kind != "invariant":
        raise Machinery("Transactions regression witnesses no longer fail: the model lost its teeth "
                        f"({r2.error_kind}, {r3.error_kind})")
