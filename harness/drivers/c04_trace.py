"""C04, leg T -- the trigger-driven receiver / dispatcher loops: model DispatcherLoops (TLC, all interleavings, two
lost-wake-up witnesses) and trace validation of the real loops (every Event / Queue operation recorded by the runtime's shims
at the moment it takes effect; DispatcherLoopsTrace decides whether the recorded execution is a behaviour of the model)."""
from __future__ import annotations

import json
import random

from .. import hsmsrun, link, simrt, tlc
from ..common import Machinery


def model_check(ctx, wd):
    def cfg(r, d, mf, mk):
        return (f"SPECIFICATION Spec\nCONSTANTS RClearFirst = {r}\n DClearFirst = {d}\n MaxF = {mf}\n MaxKick = {mk}\nINVARIANT TypeOK\n"
                "INVARIANT NoLostWakeup\nINVARIANT InOrderOnce\nPROPERTY EverythingHandedOver\n")

    mf = 3 if ctx.quick else 4
    r = tlc.run("DispatcherLoops", cfg_text=cfg("TRUE", "TRUE", mf, 1 if ctx.quick else 2), workdir=wd, what="loops", timeout=1800, deadlock=False)
    tlc.require_ok(r, "DispatcherLoops")
    tlc.require_covered(r, ["DoData|Data", "DataSet", "Kick", "RWake", "RClear", "RCall", "RFrame", "RDSet", "RSeesEmpty", "RRet", "DWake", "DClear",
                            "DQsize", "DGet"])
    ctx.add_tlc(r, "receiver + dispatcher loops as coded: all interleavings, NoLostWakeup, InOrderOnce, EverythingHandedOver")
    for nm, (rr, dd) in (("receiver_clear_late", ("FALSE", "TRUE")), ("dispatcher_clear_late", ("TRUE", "FALSE"))):
        w = tlc.run("DispatcherLoops", cfg_text=cfg(rr, dd, 3, 1), workdir=wd, what=nm, timeout=900, deadlock=False, expect_error=True)
        ctx.add_tlc(w, f"witness {nm}: trigger cleared after the work -> TLC refutes NoLostWakeup")
        if w.error_kind != "invariant":
            raise Machinery(f"DispatcherLoops witness {nm} no longer fails")


def run_scenario(job):
    sid, seed, policy, nframes, gaps = job[:5]
    reconnect = job[5] if len(job) > 5 else None
    hsmsrun.quiet_logging()
    simrt.install()
    import secsgem.common.protocol as cp

    rec = {"id": sid, "seed": seed, "policy": policy, "ev": [], "chunks": []}

    def main(s):
        rng = random.Random(seed)
        ep = hsmsrun.Ep(mode="passive", kind="protocol")
        disp = ep.protocol._thread
        rtrig, dtrig, dq = disp._receiver_thread_trigger, disp._dispatcher_thread_trigger, disp._dispatch_queue

        rbuf_cond = ep.protocol._receive_buffer._buffer_lock
        pend_data = [None]

        def op(kind, obj, val):
            me = s.cur.name if s.cur is not None else "?"
            if obj is rbuf_cond:
                if kind == "notify":
                    s.emit("Data")            # ByteQueue.append: the bytes were just added (lock still held, no yield since)
                    pend_data[0] = me
            elif obj is rtrig:
                if kind == "set":
                    # the set that announces the data just appended by this thread; every other set is a mere kick
                    s.emit("RSet", src="data" if pend_data[0] == me else "kick")
                    if pend_data[0] == me:
                        pend_data[0] = None
                elif kind == "wait":
                    s.emit("RWake")
                elif kind == "clear":
                    s.emit("RClear")
            elif obj is dtrig:
                s.emit({"set": "DSet", "wait": "DWake", "clear": "DClear"}[kind])
            elif obj is dq:
                if kind == "qsize":
                    s.emit("DQsize", n=val)
                elif kind == "get":
                    s.emit("DGet")

        s.op_hook = op
        s.put_hook = lambda q, item: s.emit("Frame") if q is dq else None

        def mk_frames(n, first_sys):
            frames = [link.hsms_frame(stype=1, system=first_sys)]
            for i in range(n):
                if rng.random() < 0.3:
                    frames.append(link.hsms_frame(stype=5, system=0x20000 + first_sys * 100 + i))
                else:
                    frames.append(link.hsms_frame(stype=0, system=0x10000 + first_sys * 100 + i, session=0, stream=1, function=rng.choice([1, 3, 13]),
                                                  wbit=rng.random() < 0.7, body=bytes(rng.randrange(256) for _ in range(rng.choice([0, 0, 3, 40])))))
            return frames

        def feed_stream(frames):
            stream = b"".join(frames)
            bounds, acc = [], 0
            for f in frames:
                acc += len(f)
                bounds.append(acc)
            pos = 0
            first = True
            while pos < len(stream):
                k = len(frames[0]) if first else min(len(stream) - pos, rng.choice([1, 3, 4, 10, 14, 15, 28, 60, 1000]))
                first = False
                before = sum(1 for b in bounds if b <= pos)
                after = sum(1 for b in bounds if b <= pos + k)
                rec["chunks"].append(after - before)
                ep.link.feed(stream[pos:pos + k])
                pos += k
                g = rng.choice(gaps)
                if g < 0:
                    s.settle()
                else:
                    for _ in range(g):
                        s.yield_point()
            s.settle()

        ep.protocol.enable()
        ep.link.connect()
        s.settle()
        feed_stream(mk_frames(nframes, 1))
        s.run_until(lambda: False, max_dt=1.0)
        if reconnect:
            gate = None
            if reconnect == "stalled":
                # a response is being written to a full socket when the connection layer reports the loss
                gate = simrt.Event()
                ep.link.stall_event = gate
                rec["chunks"].append(1)
                ep.link.feed(link.hsms_frame(stype=5, system=0x60001))
                s.advance(0.25)
                ep.link.abrupt_close = True
            n0 = ep.link.closed_count
            ep.link.peer_close()
            s.run_until(lambda: ep.link.closed_count > n0, max_dt=7.0)
            ep.link.abrupt_close = False
            if gate is not None and ep.link.closed_count == n0:
                ep.link.stall_event = None
                gate.set()
                gate = None
            ok, why = s.run_until(lambda: ep.link.closed_count > n0 and ep.cs == "NC", max_dt=30)
            if not ok:
                raise Machinery(f"close did not finish: {why}")
            ep.link.stall_event = None
            ep.link.connect()
            s.settle()
            if gate is not None:
                gate.set()              # the blocked send comes back only now, on the new connection
                s.settle()
            feed_stream(mk_frames(nframes, 2))
            s.run_until(lambda: False, max_dt=1.0)
        rec["delivered_all"] = True

    import secsgem.common.byte_queue as bq
    import secsgem.common.protocol_dispatcher as pd
    ev_funcs = [(pd.ProtocolDispatcher.start, "RStart", "call", None), (pd.ProtocolDispatcher._receiver_thread_function, "REnd", "return", None),
                (bq.ByteQueue.clear, "BufClear", "return", None),
                (cp.Protocol._process_data, "RCall", "call", None),
                (cp.Protocol._process_data, "RRet", "return", None)]
    s = simrt.run(main, seed=seed, policy=policy, switch_prob=0.4, max_vtime=1e6, wall_timeout=120, pct_depth=3, pct_horizon=600, event_funcs=ev_funcs)
    rec["outcome"] = s.outcome
    if s.errors:
        rec["errors"] = [e[:2] for e in s.errors[:2]]
    di = 0
    evs = []
    for e in s.events:
        x = {"e": e["e"], "n": e.get("n", 0), "src": e.get("src", "-")}
        if e["e"] == "Data":
            x["n"] = rec["chunks"][di] if di < len(rec["chunks"]) else 0
            di += 1
        evs.append(x)
    rec["ev"] = evs
    return rec


def check(ctx, wd, pmap, only_reconnect=False, only_plain=False):
    """only_reconnect / only_plain: the C06 / C08 checks reuse this leg for 30 (300) histories with / without a reconnect (the
    model itself is checked by C04)."""
    if not (only_reconnect or only_plain):
        model_check(ctx, wd)
    rng = random.Random(ctx.seed + 404)
    jobs = []
    for i in range(1, (90 if ctx.quick else 900) + 1):
        pol = ["fifo", "random", "pct", "random"][i % 4]
        gaps = [[-1], [0, 1, 2, 5, 13, 34], [0, 0, 1, 3, 8, 21, 55, -1]][i % 3]
        rc = [None, None, "plain", "stalled"][i % 4 if i % 8 < 4 else 0]
        if only_reconnect:
            rc = ["plain", "stalled"][i % 2]
            if i > (30 if ctx.quick else 300):
                break
        if only_plain:
            rc = None
            if i > (30 if ctx.quick else 300):
                break
        jobs.append((i, rng.randrange(1 << 30), pol, rng.choice([2, 3, 5, 8]), gaps, rc))
    recs = pmap(run_scenario, jobs)
    for r in recs:
        if r["outcome"] != "done" or r.get("errors"):
            if "Machinery" in str(r.get("errors")):
                raise Machinery(str(r["errors"]))
            ctx.violation({"check": "loops-trace", "clause": "run-did-not-finish", "what": f"receive-path scenario ended {r['outcome']} {r.get('errors')}",
                           "sched": [r["seed"], r["policy"]]})
    recs = [r for r in recs if r["outcome"] == "done" and not r.get("errors")]
    f = wd / "loops_traces.json"
    f.write_text(json.dumps([{"id": r["id"], "ev": r["ev"]} for r in recs]))
    cfg = ("SPECIFICATION TSpec\nCONSTANTS RClearFirst = TRUE\n DClearFirst = TRUE\n MaxF = 100000\n MaxKick = 100000\nCONSTRAINT Progress\n"
           "INVARIANT TypeOK\nINVARIANT NoLostWakeup\nINVARIANT InOrderOnce\nINVARIANT OneReceiver\n")
    rt = tlc.run("DispatcherLoopsTrace", cfg_text=cfg, workdir=wd, workers=4, env={"TRACE_FILE": str(f)}, what="loops_trace", coverage=False,
                 deadlock=False, timeout=1800, expect_error=True)
    best = {}
    for a in rt.tagged("AT"):
        best[a["id"]] = max(best.get(a["id"], 0), a["l"])
    if rt.error_kind is not None:
        ctx.violation({"check": "loops-trace", "clause": "invariant-on-recorded-execution", "tlc_error": rt.error_kind, "name": rt.error_name,
                       "what": f"TLC: {rt.error_kind} {rt.error_name} violated on a recorded execution of the receiver / dispatcher loops"})
    ctx.tlc_runs.append({"spec": "DispatcherLoopsTrace.tla", "what": f"validation of {len(recs)} recorded executions of the receiver / dispatcher loops",
                         "distinct_states": rt.distinct, "wall_s": round(rt.wall, 1)})
    nev = 0
    for r in recs:
        n = len(r["ev"])
        nev += n
        at = best.get(r["id"], 0)
        if at != n + 1:
            bad = r["ev"][at - 1] if 1 <= at <= n else None
            ctx.violation({"check": "loops-trace", "clause": "execution-is-not-a-behaviour-of-DispatcherLoops", "event": bad, "at": at, "of": n,
                           "before": [e["e"] for e in r["ev"][max(0, at - 8):at - 1]], "sched": [r["seed"], r["policy"]],
                           "what": f"recorded execution of the receiver / dispatcher loops ({r['policy']}): event {at} of {n} {bad} is not allowed by "
                                   f"DispatcherLoops after {[e['e'] for e in r['ev'][max(0, at - 6):at - 1]]}"})
    ctx.traces += len(recs)
    ctx.evaluations += nev
    ctx.extra["loops_traces"] = len(recs)
    ctx.extra["loops_trace_events"] = nev
    base = next((r for r in recs if best.get(r["id"], 0) == len(r["ev"]) + 1 and sum(1 for e in r["ev"] if e["e"] == "DGet") >= 2), None)
    if base is None and ctx.violations:
        return
    if base is None:
        raise Machinery("no accepted loop execution to derive mutants from")
    ev = base["ev"]
    iw = next(i for i, e in enumerate(ev) if e["e"] == "DWake")
    ic = next(i for i, e in enumerate(ev) if e["e"] == "DClear" and i > iw)
    m1 = list(ev)
    m1.append(m1.pop(ic))                                                  # the clear moved to the end
    ig = next(i for i, e in enumerate(ev) if e["e"] == "DGet")
    m2 = [e for i, e in enumerate(ev) if i != ig]                          # a get that did not happen
    iq = next(i for i, e in enumerate(ev) if e["e"] == "DQsize")
    m3 = [dict(e, n=e["n"] + 1) if i == iq else e for i, e in enumerate(ev)]   # a wrong queue size
    fm = wd / "loops_mutants.json"
    fm.write_text(json.dumps([{"id": k, "ev": m} for k, m in ((1, m1), (2, m2), (3, m3))]))
    rm = tlc.run("DispatcherLoopsTrace", cfg_text=cfg, workdir=wd, workers=1, env={"TRACE_FILE": str(fm)}, what="loops_mutants", coverage=False,
                 deadlock=False, timeout=600, expect_error=True)
    bm = {}
    for a in rm.tagged("AT"):
        bm[a["id"]] = max(bm.get(a["id"], 0), a["l"])
    for k, m in ((1, m1), (2, m2), (3, m3)):
        if bm.get(k, 0) == len(m) + 1 and rm.error_kind is None:
            raise Machinery(f"DispatcherLoopsTrace accepted mutant {k}: the binding lost its teeth")
    ctx.extra["loops_trace_mutants_rejected"] = 3
