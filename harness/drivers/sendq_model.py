"""TLC on SendHandover (send queue hand-over between sending threads, the receiver loop and the connection thread): used by
C09 (the close sequence finishes while sends are in flight) and C10 (send_message reports success only for bytes that went out)."""
from .. import tlc
from ..common import Machinery


def cfg(ns, rof="FALSE", wto="FALSE", smr="FALSE"):
    return (f"SPECIFICATION Spec\nCONSTANTS NS = {ns}\n ReturnOnFailure = {rof}\n WaitTimesOut = {wto}\n SendMayRaise = {smr}\nINVARIANT TypeOK\n"
            "INVARIANT ReportedSuccessMeansSent\nINVARIANT ResultMatches\nINVARIANT NoStrandedBlock\nPROPERTY CloseFinishes\nPROPERTY EverySendReturns\n")


def check(ctx, wd, witness):
    ns = 2 if ctx.quick else 3
    r = tlc.run("SendHandover", cfg_text=cfg(ns), workdir=wd, what="sendq", timeout=1800, deadlock=False)
    tlc.require_ok(r, "SendHandover")
    tlc.require_covered(r, ["Put", "Trig", "Got", "PeerCloses", "Notice", "Finish", "RWake", "RClear", "RCheck", "RSend"])
    ctx.add_tlc(r, f"send queue hand-over, {ns} application senders + the connection thread's Separate.req, peer closing at any point: "
                   "success only for blocks that went out, no stranded block, the close sequence finishes, every send returns")
    if witness == "close":
        w = tlc.run("SendHandover", cfg_text=cfg(1, rof="TRUE"), workdir=wd, what="sendq_return_on_failure", timeout=600, deadlock=False, expect_error=True)
        ctx.add_tlc(w, "regression witness: queue processing returns after a failed send -> Separate.req stranded, the close sequence never ends")
    else:
        w = tlc.run("SendHandover", cfg_text=cfg(1, wto="TRUE"), workdir=wd, what="sendq_wait_times_out", timeout=600, deadlock=False, expect_error=True)
        ctx.add_tlc(w, "regression witness: wait() gives up and counts 'no result yet' as success -> success reported for bytes never sent")
    if w.error_kind not in ("invariant", "property"):
        raise Machinery(f"SendHandover regression witness ({witness}) no longer fails ({w.error_kind})")
    w2 = tlc.run("SendHandover", cfg_text=cfg(1, smr="TRUE"), workdir=wd, what="sendq_send_raises", timeout=600, deadlock=False, expect_error=True)
    ctx.add_tlc(w2, "regression witness: send_data raises on a closed socket -> the block that was taken is never resolved, its sender never returns")
    if w2.error_kind not in ("invariant", "property"):
        raise Machinery(f"SendHandover regression witness (send raises) no longer fails ({w2.error_kind})")


def validate(ctx, wd, recs, tag):
    """Every recorded execution of the real send path must be a behaviour of SendHandover (SendHandoverTrace)."""
    import json
    recs = [r for r in recs if r.get("tev")]
    if not recs:
        raise Machinery("no recorded executions of the send path")
    cfg_t = ("SPECIFICATION TSpec\nCONSTANTS NS = 3\n ReturnOnFailure = FALSE\n WaitTimesOut = FALSE\n SendMayRaise = FALSE\nCONSTRAINT Progress\nINVARIANT TypeOK\n"
             "INVARIANT ReportedSuccessMeansSent\nINVARIANT ResultMatches\nINVARIANT NoStrandedBlock\n")

    def run(traces, what, workers):
        f = wd / f"{what}.json"
        f.write_text(json.dumps(traces))
        rt = tlc.run("SendHandoverTrace", cfg_text=cfg_t, workdir=wd, workers=workers, env={"TRACE_FILE": str(f)}, what=what, coverage=False,
                     deadlock=False, timeout=1800, expect_error=True)
        best = {}
        for a in rt.tagged("AT"):
            best[a["id"]] = max(best.get(a["id"], 0), a["l"])
        return rt, best

    rt, best = run([{"id": r["id"], "ev": r["tev"]} for r in recs], f"sendq_traces_{tag}", 4)
    if rt.error_kind is not None:
        ctx.violation({"check": "sendq-trace", "clause": "invariant-on-recorded-execution", "tlc_error": rt.error_kind, "name": rt.error_name,
                       "what": f"TLC: {rt.error_kind} {rt.error_name} violated on a recorded execution of the send path"})
    ctx.tlc_runs.append({"spec": "SendHandoverTrace.tla", "what": f"validation of {len(recs)} recorded executions of the send path against SendHandover",
                         "distinct_states": rt.distinct, "wall_s": round(rt.wall, 1)})
    nev, shown = 0, 0
    for r in recs:
        n = len(r["tev"])
        nev += n
        at = best.get(r["id"], 0)
        if at != n + 1 and shown < 6:
            shown += 1
            bad = r["tev"][at - 1] if 1 <= at <= n else None
            ctx.violation({"check": "sendq-trace", "clause": "execution-is-not-a-behaviour-of-SendHandover", "event": bad, "at": at, "of": n,
                           "before": r["tev"][max(0, at - 8):at - 1], "bodies": r.get("bodies"), "then": r.get("then"), "sched": [r.get("seed"), r.get("policy"), r.get("lag")],
                           "what": f"send path, {len(r.get('bodies', []))} sender(s), {r.get('then')}: event {at} of {n} {bad} is not allowed by SendHandover "
                                   f"after {[e['e'] + str(e['s'] or '') for e in r['tev'][max(0, at - 7):at - 1]]}"})
    ctx.extra[f"send_path_events_validated_{tag}"] = nev
    # mutants of an accepted execution must be rejected
    base = next((r for r in recs if best.get(r["id"], 0) == len(r["tev"]) + 1 and sum(1 for e in r["tev"] if e["e"] == "Put") >= 2
                 and any(e["e"] == "Got" and e["ok"] for e in r["tev"])), None)
    if base is None:
        if ctx.violations:
            return
        raise Machinery("no accepted execution of the send path with two blocks and a successful send to derive mutants from")
    tev = base["tev"]
    iput = next(i for i, e in enumerate(tev) if e["e"] == "Put")
    itrig = next(i for i, e in enumerate(tev) if e["e"] == "Trig" and e["s"] == tev[iput]["s"])
    m1 = list(tev)
    m1[iput], m1[itrig] = m1[itrig], m1[iput]                       # trigger before the block is queued
    iclr = next(i for i, e in enumerate(tev) if e["e"] == "RClear")
    m2 = tev[:iclr] + tev[iclr + 1:]                                 # a pass without clearing the trigger
    igot = next(i for i, e in enumerate(tev) if e["e"] == "Got" and e["ok"])
    ires = next(i for i, e in enumerate(tev) if e["e"] == "RRes" and e["s"] == tev[igot]["s"])
    m3 = list(tev)
    m3.insert(ires, m3.pop(igot))                                   # the caller returns before its block was resolved
    m4 = [dict(e, ok=False) if i == igot else e for i, e in enumerate(tev)]      # result handed to the caller differs from the block's result
    muts = [(1, m1), (2, m2), (3, m3), (4, m4)]
    rm, bm = run([{"id": k, "ev": mm} for k, mm in muts], f"sendq_mutants_{tag}", 1)
    for k, mm in muts:
        if bm.get(k, 0) == len(mm) + 1 and rm.error_kind is None:
            raise Machinery(f"SendHandoverTrace accepted mutant {k} of a recorded execution: the binding lost its teeth")
    ctx.extra[f"send_path_mutants_rejected_{tag}"] = len(muts)
