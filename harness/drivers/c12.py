"""C12 -- event-report configuration stays consistent and transactional under any history.

Leg M : TLC checks ReportGen (monitor ReportMon over small id domains): Integrity, RefusedChangesNothing,
        ReportWellFormed on all histories (full alphabet, 16k states / 3M transitions) and dumps the complete transition
        relation of the core alphabet.
Leg R : every edge of the core relation (merged into covering walks) and random walks over the full alphabet are
        executed on a real GemEquipmentHandler (real HSMS stack, the driver is the host): S2F33/35/37, S6F15, triggers,
        value changes.
Leg V : acknowledge codes, S6F16/S6F11 contents (decoded by the harness' own E5 decoder), S6F0 aborts and the
        equipment's public report/link tables after every step are validated by TLC (ReportJudge, subset construction).
"""
from __future__ import annotations

import json
import random

from .. import e5, graph, hsmsrun, simrt, tlc
from ..common import Ctx, Machinery, chunks, pmap, workdir

PID = "C12"
RID = {"r1": 1, "r2": 2, "r9": 9}
CID = {"c1": 100, "c2": 200, "cu": 999}
VIDN = {"sv": 10, "dv": 20, "vu": 999}
RNAME = {v: k for k, v in RID.items()}
CNAME = {v: k for k, v in CID.items()}
VNAME = {v: k for k, v in VIDN.items()}


def setup_equipment(h):
    import secsgem.gem
    import secsgem.secs.variables as var

    h.status_variables.update({10: secsgem.gem.StatusVariable(10, "sv", "u", var.U4, False)})
    # dv is a text variable: its value 0 is the empty text (an empty value is a value: it takes its place in the report)
    h.data_values.update({20: secsgem.gem.DataValue(20, "dv", var.String, False)})
    h.data_values[20].value = DVTEXT[0]
    h.collection_events.update({100: secsgem.gem.CollectionEvent(100, "c1", [20]),
                                200: secsgem.gem.CollectionEvent(200, "c2", [])})


def body_of(inp):
    k = inp["k"]
    if k == "Define":
        return 2, 33, e5.encode(e5.L(e5.U4(0), e5.L(*[e5.L(e5.U4(RID[e["r"]]), e5.L(*[e5.U4(VIDN[v]) for v in e["vids"]]))
                                                   for e in inp["es"]])))
    if k == "Link":
        return 2, 35, e5.encode(e5.L(e5.U4(0), e5.L(*[e5.L(e5.U4(CID[e["c"]]), e5.L(*[e5.U4(RID[r]) for r in e["rpts"]]))
                                                   for e in inp["es"]])))
    if k == "Enable":
        return 2, 37, e5.encode(e5.L(e5.BOOL(inp["en"]), e5.L(*[e5.U4(CID[c]) for c in inp["cs"]])))
    if k == "Request":
        return 6, 15, e5.encode(e5.U4(CID[inp["c"]]))
    raise ValueError(k)


DVTEXT = {0: "", 1: "v"}


def rpt_list(item):
    """S6F16/S6F11 body -> [{'r':..,'vals':[..]}]"""
    p = e5.plain(item)
    out = []
    for rp in p[2]:
        vals = rp[1]
        out.append({"r": RNAME.get(rp[0], f"?{rp[0]}"), "vals": [{"": 0, "v": 1}.get(v, v) if isinstance(v, str) else v for v in vals]})
    return out


def tables(h):
    reports = {}
    for k, r in h.registered_reports.items():
        kk = k.get() if hasattr(k, "get") else k
        reports[RNAME.get(kk, f"?{kk}")] = [VNAME.get(v.get() if hasattr(v, "get") else v, "?") for v in r.vars]
    links = {}
    for k, l in h.registered_collection_events.items():
        kk = k.get() if hasattr(k, "get") else k
        links[CNAME.get(kk, f"?{kk}")] = {"rpts": [RNAME.get(x.get() if hasattr(x, "get") else x, "?") for x in l.reports],
                                         "en": bool(l.enabled)}
    return reports, links


def run_batch(job):
    bid, walks, seed = job
    hsmsrun.quiet_logging()
    simrt.install()
    out = []
    for tid, inputs in walks:
        out.append(run_walk(tid, inputs, seed))
    return out


def run_walk(tid, inputs, seed):
    rec = {"id": tid, "steps": []}

    def main(s):
        import secsgem.common
        ep = hsmsrun.Ep(mode="passive", kind="equipment", device_type=secsgem.common.DeviceType.EQUIPMENT)
        h = ep.handler
        setup_equipment(h)
        if not hsmsrun.establish(s, ep):
            raise Machinery("could not establish communication")
        for inp in inputs:
            k = inp["k"]
            obs = {"ack": 9, "rpt": [], "sent": False, "abort": False}
            sysid = ep.fresh_sys()
            if k == "Set":
                if inp["v"] == "sv":
                    h.status_variables[10].value = inp["x"]
                else:
                    h.data_values[20].value = DVTEXT[inp["x"]]
            elif k == "Trigger":
                h.trigger_collection_events([CID[inp["c"]]])
            elif k == "TriggerMany":
                h.trigger_collection_events([CID[c] for c in inp["cs"]])
            else:
                sfn, fn, body = body_of(inp)
                ep.link.feed(hsmsrun.data_frame(sfn, fn, True, sysid, body))
            s.settle()
            for _round in range(8):
                frames_now = ep.link.take_frames()
                if not frames_now:
                    break
                for f in frames_now:
                    if f.get("stype") != 0:
                        continue
                    if f["system"] == sysid and k not in ("Set", "Trigger", "TriggerMany"):
                        if f["f"] == 0:
                            obs["abort"] = True
                        elif f["s"] == 2:
                            obs["ack"] = e5.plain(e5.decode_all(f["body"]))
                        elif f["s"] == 6 and f["f"] == 16:
                            obs["rpt"] = [rpt_list(e5.decode_all(f["body"]))]
                    elif f["s"] == 6 and f["f"] == 11:
                        obs["sent"] = True
                        obs["rpt"] = (obs["rpt"] if k == "TriggerMany" else []) + [rpt_list(e5.decode_all(f["body"]))]
                        ep.link.feed(hsmsrun.data_frame(6, 12, False, f["system"], e5.encode(e5.B(0))))
                        s.settle()
            if k == "Request" and not obs["rpt"] and not obs["abort"]:
                obs["abort"] = True   # no S6F16 at all
            obs["reports"], obs["links"] = tables(h)
            rec["steps"].append({"inp": inp, "obs": obs})
            if s.errors:
                break
        rec["thread_errors"] = [e[:2] for e in s.errors[:2]]

    s = simrt.run(main, seed=seed, policy="fifo", max_vtime=1e7, wall_timeout=300)
    rec["outcome"] = s.outcome
    if s.errors:
        rec["errors"] = [e[:2] for e in s.errors[:3]]
    return rec


def run(ctx: Ctx):
    wd = workdir(PID)
    base = "SPECIFICATION Spec\nCONSTANTS MaxRpts = {m}\n Small = {s}\nCONSTRAINT Bound\nVIEW View\n{extra}INVARIANT IntegrityInv\n" \
           "INVARIANT ReportWellFormed\nINVARIANT NoEmptyLinks\nPROPERTY RefusedChangesNothing\n"
    r1 = tlc.run("ReportGen", cfg_text=base.format(m=3, s="FALSE", extra=""), workdir=wd, what="full", timeout=1800)
    tlc.require_ok(r1, "ReportGen full alphabet")
    ctx.add_tlc(r1, "report configuration monitor, full alphabet (1-2 entry requests incl. duplicates/unknown ids): all histories")
    r2 = tlc.run("ReportGen", cfg_text=base.format(m=2, s="TRUE", extra="ACTION_CONSTRAINT Dump\n"), workdir=wd, workers=1,
                 what="core", coverage=False, timeout=1800)
    tlc.require_ok(r2, "ReportGen core alphabet")
    ctx.add_tlc(r2, "core alphabet: complete labelled transition relation dumped for replay")
    edges = r2.tagged("TR")
    if len(edges) < 5000:
        raise Machinery(f"core relation too small: {len(edges)}")
    rin = tlc.run("ReportInputs", cfg_text="", workdir=wd, workers=1, what="inputs", coverage=False)
    alphabet = rin.tagged("IN")
    rng = random.Random(ctx.seed + 12)
    g = graph.Graph(edges, inits=[edges[0]["from"]] if False else None) if False else None
    init = {"reports": [], "links": [], "val": {"sv": 0, "dv": 0}}
    # the initial state as dumped by TLC (empty functions print as [])
    inits = [e["from"] for e in edges if not e["from"]["reports"] and not e["from"]["links"]
             and e["from"]["val"] == {"dv": 0, "sv": 0}][:1]
    g = graph.Graph(edges, inits=inits)
    cover = g.merged_cover(max_len=60, rng=rng)
    if ctx.quick:
        cover = cover[:: 4]
    walks = [[e["inp"] for e in p] for p in cover]
    prod = [i for i in alphabet if i["k"] in ("Define", "Link")]
    for _ in range(150 if ctx.quick else 3000):
        w = []
        for _ in range(40):
            w.append(rng.choice(prod) if rng.random() < 0.5 else rng.choice(alphabet))
        walks.append(w)
    jobs = [(b, ch, ctx.seed) for b, ch in enumerate(chunks(list(enumerate(walks, start=1)), 28))]
    recs = [r for batch in pmap(run_batch, jobs) for r in batch]
    for r_ in [r_ for r_ in recs if r_["outcome"] != "done"][:3]:
        ctx.violation({"check": "reports-run", "clause": "run-did-not-finish", "what": f"run ended {r_['outcome']} {r_.get('errors')}",
                       "steps": r_["steps"][-3:]})
    f = wd / "traces.json"
    f.write_text(json.dumps([{"id": r_["id"], "steps": r_["steps"]} for r_ in recs]))
    rj = tlc.run("ReportJudge", cfg_text="", workdir=wd, workers=1, env={"TRACE_FILE": str(f)}, what="judge", coverage=False,
                 timeout=3600, heap="12g")
    tlc.require_ok(rj, "ReportJudge")
    verd = {v["id"]: v for v in rj.tagged("V")}
    if len(verd) != len(recs):
        raise Machinery(f"ReportJudge: {len(verd)} verdicts for {len(recs)} traces")
    ctx.traces += len(recs)
    ctx.evaluations += sum(len(r_["steps"]) for r_ in recs)
    ctx.nontrivial += len({json.dumps(st_) for r_ in recs for st_ in r_["steps"] if st_["obs"]["ack"] == 0 or st_["obs"]["rpt"]})
    ctx.extra["core_edges"] = len(edges)
    ctx.extra["covering_walks"] = len(cover)
    for r_ in recs:
        v = verd[r_["id"]]
        if r_["id"] == 2:
            ctx.sample({"steps": r_["steps"][:6]})
        if v["clause"] != "ok":
            st_ = r_["steps"][v["at"] - 1]
            hist = [s_["inp"] for s_ in r_["steps"][: v["at"]]]
            dup = any(i["k"] == "Link" and any(len(e["rpts"]) != len(set(e["rpts"])) for e in i["es"]) for i in hist) or \
                any(i["k"] == "Link" and len({e["c"] for e in i["es"]}) != len(i["es"]) for i in hist)
            ctx.violation({"check": "reports", "clause": v["clause"], "input": st_["inp"]["k"], "dup_link_in_history": dup,
                           "observed": st_["obs"], "inputs": hist[-8:], "thread_errors": r_.get("thread_errors"),
                           "what": f"step {v['at']} {json.dumps(st_['inp'])}: {v['clause']} (observed {json.dumps(st_['obs'])[:300]})"})
    ctx.rule = ("histories = walks covering every edge of the core-alphabet transition relation + random walks of 40 requests over the "
                "full alphabet (147 requests incl. duplicates, unknown ids, delete forms); non-trivial = distinct (request, "
                "observation) pairs with an accepted change or a produced report")
    ctx.assumptions += ["id domains: 2 report ids (+1 never defined), 2 collection events (+1 unknown), 2 variables (+1 unknown)",
                        "the equipment's registered_reports / registered_collection_events properties are its public tables"]
    return ctx.finish()
