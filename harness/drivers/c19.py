"""C19 -- function structure definitions (SFDL) are read exactly as documented.

Leg M : spec/Sfdl.tla transcribes docs/firststeps/sfdl.md (shape rules, member keys); TLC enumerates every definition tree
        to depth 3 / width 3 over four catalogue data item names with optional list names, computes the documented shape and
        the token sequences of all single missing-bracket / unknown-item mutants.
Leg R : every definition is rendered to text in several layouts (whitespace, line breaks, comments) and given to the real
        variables.functions.generate; the generated structure (List vs Array, key order, leaf data items) must equal the
        documented shape; every mutant must be rejected with an error.
"""
from __future__ import annotations

import json
import random

from .. import tlc
from ..common import Ctx, Machinery, workdir

PID = "C19"


def render(toks, rng, style):
    out = []
    for i, t in enumerate(toks):
        if style == 0:
            out.append(t)
            out.append(" ")
        elif style == 1:
            out.append(t)
            out.append(rng.choice([" ", "\n", "\t", "  \n   "]))
        elif style == 4:
            # comments and line ends in the three conventions: LF, CR LF, and a bare CR
            out.append(t)
            out.append(rng.choice([" ", "\r", "\r\n", " # a comment < L > \r", " # c \r\n", "   # x\r\t", " # y\n", "# glued to the token\r", "#\r\n"]))
        else:
            out.append(t)
            out.append(rng.choice([" ", "\n", " # a comment < L > \n", "   # x\n\t", "# a comment right after the token\n", "#\n"]))
    text = "".join(out)
    if style == 3:
        # compact: no space around brackets
        text = ""
        for i, t in enumerate(toks):
            if t in "<>":
                text += t
            else:
                text += t + (" " if i + 1 < len(toks) and toks[i + 1] not in "<>" else "")
    return text


def real_shape(obj, key=None):
    import secsgem.secs.variables as var
    from secsgem.secs.variables.functions import generate

    if isinstance(obj, var.List):
        subs = []
        for k in obj.data:
            subs.append(real_shape(obj.data[k], k))
        return {"k": "record", "key": key if key is not None else obj.name, "sub": subs}
    if isinstance(obj, var.Array):
        # the element structure as the first, second and third element of the open list get it: all must be the documented one
        shapes = [real_shape(generate(obj.item_decriptor)) for _ in range(3)]
        # ... and as the open list itself creates its elements when values are put into it (append / set with an empty element)
        for how in ("append", "set"):
            try:
                if how == "append":
                    obj.append([])
                    made = obj[len(obj) - 1]
                else:
                    obj.set([[]])
                    made = obj[0]
                shapes.append(real_shape(made, shapes[0].get("key")))
            except Exception as exc:  # noqa: BLE001
                shapes.append({"k": f"element-not-created-by-{how}: {type(exc).__name__}", "key": "*", "sub": []})
        sub = shapes[0]
        for later in shapes[1:]:
            if later != shapes[0]:
                sub = dict(later, later_element_differs=True)
        return {"k": "array", "key": key if key is not None else obj.name, "sub": [sub]}
    name = getattr(obj, "name", type(obj).__name__)
    return {"k": "item", "key": key if key is not None else name, "sub": []}


def safe_shape(obj):
    try:
        return real_shape(obj)
    except Exception as exc:  # noqa: BLE001
        return f"<structure that cannot be walked: {exc!r}>"


def strip_top(s):
    """The key of the outermost structure is not part of the documented shape."""
    return {"k": s["k"], "sub": [norm(x) for x in s["sub"]]}


def norm(s):
    return {"k": s["k"], "key": s["key"], "sub": [norm_inner(x, s["k"]) for x in s["sub"]]}


def norm_inner(s, parent_kind):
    # the element of an open list has no key of its own
    extra = {"later_element_differs": True} if s.get("later_element_differs") else {}
    if parent_kind == "array":
        return dict({"k": s["k"], "key": "*", "sub": [norm_inner(x, s["k"]) for x in s["sub"]]}, **extra)
    return dict({"k": s["k"], "key": s["key"], "sub": [norm_inner(x, s["k"]) for x in s["sub"]]}, **extra)


def top(s):
    return {"k": s["k"], "key": "*", "sub": [norm_inner(x, s["k"]) for x in s["sub"]]}


def layout_leg(ctx, wd, defs, rng, generate):
    """Lexical level: SfdlLex (the tokenizer's character loop against the documented rules, all texts up to 7 (8) characters)
    and every separator text of up to 3 (4) characters the documented rules allow between two tokens (SfdlSep), placed at
    every gap of real definitions."""
    n_chars = 7 if ctx.quick else 8
    cfg = "SPECIFICATION Spec\nCONSTANTS CommentEndSeparates = {}\n N = {}\nINVARIANT LexAsDocumented\nINVARIANT NoCommentCharInToken\n"
    r1 = tlc.run("SfdlLex", cfg_text=cfg.format("TRUE", n_chars), workdir=wd, what="lex", timeout=1800, deadlock=False)
    tlc.require_ok(r1, "SfdlLex")
    ctx.add_tlc(r1, f"tokenizer character loop vs documented lexical rules: every text of up to {n_chars} characters over name char / blank / line break / # / < / >")
    r2 = tlc.run("SfdlLex", cfg_text=cfg.format("FALSE", 5), workdir=wd, what="lex_witness", timeout=600, deadlock=False, expect_error=True)
    ctx.add_tlc(r2, "regression witness: the line break ending a comment swallowed with it -> a name before the comment runs on into the next line")
    if r2.error_kind != "invariant":
        raise Machinery(f"SfdlLex regression witness no longer fails ({r2.error_kind})")
    rs = tlc.run("SfdlSep", cfg_text=f"SPECIFICATION Spec\nCONSTANTS CommentEndSeparates = TRUE\n N = 0\n K = {3 if ctx.quick else 4}\n", workdir=wd, workers=1,
                 what="separators", timeout=1800, deadlock=False, coverage=False)
    tlc.require_ok(rs, "SfdlSep")
    seps = {(x["a"], x["b"]): ["".join(q) for q in x["seps"]] for x in rs.tagged("SEP")}
    if len(seps) != 9 or min(len(v) for v in seps.values()) < 20:
        raise Machinery(f"separator vectors incomplete: { {k: len(v) for k, v in seps.items()} }")
    picks = []
    for want_len, need in ((3, None), (6, None), (7, "NAMED"), (10, "NAMED"), (12, "DATA"), (14, None), (15, "NAMED")):
        d = next((d for d in defs if len(d["toks"]) >= want_len and (need is None or need in d["toks"]) and d not in picks), None)
        if d is not None:
            picks.append(d)
    if len(picks) < 5:
        raise Machinery("no definitions to lay out")

    def cls(t):
        return t if t in "<>" else "w"

    def real_text(sep):
        out = []
        for ch in sep:
            out.append({"n": rng.choice(["\n", "\r\n", "\r"]), " ": rng.choice([" ", "\t"]), "w": rng.choice(["x", "L", "9"]), "<": rng.choice("<>"), "#": "#"}[ch])
        return "".join(out)

    count = 0
    for d in picks:
        toks = d["toks"]
        want = top(d["shape"])
        for g in range(len(toks) - 1):
            for sep in seps[(cls(toks[g]), cls(toks[g + 1]))]:
                parts = []
                for i, t in enumerate(toks):
                    parts.append(t)
                    if i < len(toks) - 1:
                        parts.append(real_text(sep) if i == g else " ")
                text = "".join(parts)
                count += 1
                try:
                    got = top(real_shape(generate(text)))
                except Exception as exc:  # noqa: BLE001
                    ctx.violation({"check": "sfdl-layout", "clause": "well-formed-definition-rejected", "text": text, "separator": sep, "gap": [toks[g], toks[g + 1]],
                                   "what": f"definition {' '.join(toks)!r} with {real_text(sep)!r} (documented: reads as nothing) between {toks[g]!r} and {toks[g + 1]!r} raised {exc!r}"})
                    continue
                if got != want:
                    ctx.violation({"check": "sfdl-layout", "clause": "shape-differs", "text": text, "separator": sep, "gap": [toks[g], toks[g + 1]], "got": got, "want": want,
                                   "what": f"definition {' '.join(toks)!r} with separator {sep!r} between {toks[g]!r} and {toks[g + 1]!r} is read as {json.dumps(got)[:160]}"})
    ctx.extra["layout_texts"] = count
    ctx.extra["separators_per_token_pair"] = {f"{a} {b}": len(v) for (a, b), v in seps.items()}
    return count


def linebreak_leg(ctx, defs, generate):
    """A comment ends at the line break: texts made of the same words, with the line break that ends a comment at different places,
    are different definitions (what stands between # and the line break is commented out).  Such pairs are read one after the other,
    in both orders, in one process: what a definition means does not depend on what was read before."""
    shape_of = {tuple(d["toks"]): d["shape"] for d in defs}
    count, shown = 0, 0
    pairs = []
    for d in defs:
        toks = d["toks"]
        if len(pairs) >= 60:
            break
        for i in range(2, len(toks) - 1):
            # comment after token i-1; variant A ends it at once, variant B only after one more token (which is thereby commented out)
            if toks[i] in "<>" :
                continue
            rest = toks[:i] + toks[i + 1:]
            if tuple(rest) not in shape_of:
                continue
            pairs.append((toks, i, rest))
            break
    for n, (toks, i, rest) in enumerate(pairs):
        for order in (0, 1):
            tag = f"c{n}o{order}"
            text_a = " ".join(toks[:i]) + f" # {tag}\n " + " ".join(toks[i:])
            text_b = " ".join(toks[:i]) + f" # {tag} " + toks[i] + "\n " + " ".join(toks[i + 1:])
            seq = [(text_a, toks), (text_b, rest)] if order == 0 else [(text_b, rest), (text_a, toks)]
            for pos, (text, means) in enumerate(seq):
                count += 1
                want = top(shape_of[tuple(means)])
                try:
                    got = top(real_shape(generate(text)))
                except Exception as exc:  # noqa: BLE001
                    got = f"raised {exc!r}"
                if got != want and shown < 10:
                    shown += 1
                    ctx.violation({"check": "sfdl-linebreak", "clause": "meaning-depends-on-what-was-read-before" if pos == 1 else "shape-differs", "text": text,
                                   "read_before": seq[0][0] if pos == 1 else None, "got": got, "want": want,
                                   "what": f"definition {text!r} (= {' '.join(means)!r}){' read after ' + repr(seq[0][0]) if pos == 1 else ''} is read as "
                                           f"{json.dumps(got)[:140]} instead of {json.dumps(want)[:140]}"})
    ctx.extra["linebreak_pairs"] = len(pairs)
    if len(pairs) < 10:
        raise Machinery(f"too few line-break pairs: {len(pairs)}")
    return count


def run(ctx: Ctx):
    from secsgem.secs.functions.sfdl_tokenizer import SFDLParseError
    from secsgem.secs.variables.functions import generate

    wd = workdir(PID)
    r = tlc.run("Sfdl", cfg_text="", workdir=wd, workers=1, what="definitions", coverage=False, timeout=900)
    tlc.require_ok(r, "Sfdl")
    defs, rej = r.tagged("DEF"), r.tagged("REJ")
    if len(defs) < 1500 or len(rej) < 500:
        raise Machinery(f"SFDL universe too small: {len(defs)} {len(rej)}")
    ctx.states = len(defs)
    ctx.transitions = len(defs) + sum(len(x["close"]) + len(x["unknown"]) for x in rej)
    rng = random.Random(ctx.seed + 19)
    styles = [0, 1, 2, 3, 4]
    n = 0
    for d in defs:
        want = top(d["shape"])
        named_single = "NAMED" in d["toks"] and any(
            d["toks"][i] == "NAMED" and d["toks"][i + 1] == "<" and d["toks"][i + 2] != "L" and d["toks"][i + 4] == ">"
            for i in range(len(d["toks"]) - 4))
        for st in (styles if not ctx.quick else rng.sample(styles, 2) + ([4] if rng.random() < 0.5 else [])):
            text = render(d["toks"], rng, st)
            n += 1
            try:
                obj = generate(text)
                got = top(real_shape(obj))
            except Exception as exc:  # noqa: BLE001
                ctx.violation({"check": "sfdl-shape", "clause": "well-formed-definition-rejected", "text": text, "error": type(exc).__name__,
                               "named_single_item_list": named_single, "style": st,
                               "what": f"well-formed definition {' '.join(d['toks'])!r} raised {exc!r}"})
                break
            if got != want:
                ctx.violation({"check": "sfdl-shape", "clause": "shape-differs", "text": text, "got": got, "want": want,
                               "named_single_item_list": named_single, "style": st,
                               "what": f"definition {' '.join(d['toks'])!r} is read as {json.dumps(got)[:160]} instead of {json.dumps(want)[:160]}"})
                break
    nrej = 0
    for x in rej:
        for kind in ("close", "unknown"):
            for toks in x[kind]:
                text = render(toks, rng, rng.choice(styles))
                nrej += 1
                try:
                    obj = generate(text)
                except SFDLParseError:
                    continue
                except Exception as exc:  # noqa: BLE001
                    # rejected, though not with the documented error class: still "rejected with an error"
                    continue
                ctx.violation({"check": "sfdl-reject", "clause": "missing-closing-bracket-accepted" if kind == "close" else "unknown-item-accepted",
                               "text": text, "what": f"malformed definition {' '.join(toks)!r} ({kind}) was accepted: {safe_shape(obj)}"})
    nlay = layout_leg(ctx, wd, defs, rng, generate)
    nlay += linebreak_leg(ctx, defs, generate)
    ctx.evaluations += n + nrej + nlay
    ctx.nontrivial += len(defs) + nrej
    ctx.traces += n + nrej
    ctx.sample({"tokens": defs[700]["toks"], "documented_shape": defs[700]["shape"]})
    ctx.sample({"rejected_mutant": rej[3]["close"][0]})
    ctx.exhaustive = True
    ctx.rule = ("definitions = every tree of depth <= 3 (width 3 at depth 2, width 2 at depth 3) over 4 data item names with/without list "
                "names, distinct member keys (1884), each in 2-5 text layouts (white space, newlines, comments ended by LF / CR LF / bare CR, compact); mutants = every "
                "single missing '>' and every single unknown item name of the depth-2 and unnamed depth-3 definitions; lexical level: TLC on the tokenizer's character loop (all texts up to 7 / 8 characters) and "
                "every separator of up to 3 / 4 characters the documented rules allow (SfdlSep: 24 per token pair) at every gap of 7 definitions")
    ctx.assumptions += ["the generator stays inside what the document defines (no empty lists, distinct member keys, upper-case L)"]
    return ctx.finish()
