"""C16 -- SECS-I blocks split, checksum and reassemble any message body without loss.

Leg M : TLC proves on a boundary universe (SecsIBlockVec) that Join(Split(h, body)) = (h, body), the block-count / numbering /
        E-bit rules, that every single-byte corruption of an encoded block is rejected, and explores every interleaving of
        the block sequences of three messages in the reassembly model (Reassembly).
Leg R : the universe members are byte-exact vectors for SecsIMessage / SecsIBlock (split, encode, decode); body lengths up
        to the 32767-block limit; every single-byte corruption of real encoded blocks must not decode to a valid block;
        interleaved block sequences are fed through the real protocol's reassembly (dispatch path) and the delivered
        messages compared.
"""
from __future__ import annotations

import itertools
import random

from .. import simrt, tlc
from ..common import Ctx, Machinery, workdir

PID = "C16"


def pattern(n):
    return bytes((i * 11 + 5) % 253 for i in range(1, n + 1))


def mk_header(h, SecsIHeader):
    return SecsIHeader(int.from_bytes(bytes(h["sys"]), "big"), h["dev"], h["s"], h["f"], h.get("blk", 0), h["r"], h["w"], True)


def run(ctx: Ctx):
    import logging

    from secsgem.secsi.header import SecsIHeader
    from secsgem.secsi.message import SecsIBlock, SecsIMessage

    logging.disable(logging.CRITICAL)
    wd = workdir(PID)
    r = tlc.run("SecsIBlockVec", cfg_text="", workdir=wd, workers=1, what="vectors", coverage=False, timeout=900)
    tlc.require_ok(r, "SecsIBlockVec")
    hv, lv, bv, kv = r.tagged("HV"), r.tagged("LV"), r.tagged("BV"), r.tagged("KV")
    if len(hv) < 500 or len(lv) < 9 or len(bv) < 12:
        raise Machinery("SECS-I universe too small")
    r2 = tlc.run("Reassembly", cfg_text="SPECIFICATION Spec\nCONSTANTS NMsg = 3\n NBlk = 3\nINVARIANT Intact\nINVARIANT AllDelivered\n"
                 "INVARIANT OncePerMessage\n", workdir=wd, what="reassembly", timeout=900)
    tlc.require_ok(r2, "Reassembly")
    tlc.require_covered(r2, ["Arrive"])
    ctx.add_tlc(r2, "reassembly keyed by system bytes: every interleaving of the blocks of 3 messages (1-3 blocks each)")
    ctx.states += len(hv) + len(lv) + len(bv)
    # ---- header field vectors
    for v in hv:
        h = v["h"]
        want = bytes(v["block"])
        try:
            msg = SecsIMessage(mk_header(h, SecsIHeader), pattern(5))
            got = bytes(msg.blocks[0].encode())
        except Exception as exc:  # noqa: BLE001
            ctx.violation({"check": "block-encode", "h": h, "error": type(exc).__name__, "what": f"SECS-I block for {h} raised {exc!r}"})
            continue
        if len(msg.blocks) != 1 or got != want:
            ctx.violation({"check": "block-encode", "h": h, "got": got[:14].hex(), "want": want[:14].hex(),
                           "what": f"SECS-I block bytes differ for header {h}: {got[:12].hex()} vs {want[:12].hex()}"})
            continue
        try:
            blk = SecsIBlock.decode(want)
            hh = blk.header
            back = {"r": hh.from_equipment, "dev": hh.device_id, "w": hh.require_response, "s": hh.stream, "f": hh.function,
                    "e": hh.last_block, "blk": hh.block, "sys": list(hh.system.to_bytes(4, "big"))}
            exp = dict(h, e=True, blk=1)
            if back != exp or bytes(blk.data) != pattern(5):
                ctx.violation({"check": "block-decode", "h": h, "got": back, "what": f"decoded SECS-I header differs: {back} vs {exp}"})
        except Exception as exc:  # noqa: BLE001
            ctx.violation({"check": "block-decode", "h": h, "error": type(exc).__name__, "what": f"decode of valid block raised {exc!r}"})
    # ---- block numbers across the 15-bit range
    for v in kv:
        want = bytes(v["block"])
        try:
            blk = SecsIBlock.decode(want)
            ok = blk is not None and blk.header.block == v["blk"] and blk.header.last_block == v["e"] and bytes(blk.data) == pattern(3)
            again = bytes(blk.encode()) if blk is not None else b""
        except Exception as exc:  # noqa: BLE001
            ok, again = False, repr(exc).encode()
        if not ok or again != want:
            ctx.violation({"check": "block-number", "blk": v["blk"], "e": v["e"],
                           "what": f"block number {v['blk']} (E={v['e']}): valid block {want[:8].hex()} decodes wrongly / is rejected"})
        hdr = SecsIHeader(0x01020304, 258, 6, 11, v["blk"], True, True, v["e"])
        got = bytes(SecsIBlock(hdr, pattern(3)).encode())
        if got != want:
            ctx.violation({"check": "block-number", "blk": v["blk"], "e": v["e"], "got": got[:8].hex(), "want": want[:8].hex(),
                           "what": f"block number {v['blk']} (E={v['e']}) encodes to {got[:8].hex()} instead of {want[:8].hex()}"})
    # ---- body length vectors (explicit)
    h0 = {"r": True, "dev": 258, "w": True, "s": 6, "f": 11, "sys": [1, 2, 3, 4]}
    for v in lv:
        n = v["n"]
        want = [bytes(b) for b in v["blocks"]]
        msg = SecsIMessage(mk_header(h0, SecsIHeader), pattern(n))
        got = [bytes(b.encode()) for b in msg.blocks]
        if got != want:
            k = next((i for i, (a, b) in enumerate(zip(got, want)) if a != b), min(len(got), len(want)))
            ctx.violation({"check": "split", "n": n, "nblocks": len(got), "want_blocks": len(want), "first_diff": k,
                           "what": f"body of {n} bytes: {len(got)} blocks vs {len(want)}; first difference in block {k + 1}"})
            continue
        # reassemble from decoded blocks
        m2 = None
        for b in want:
            blk = SecsIBlock.decode(b)
            if m2 is None:
                m2 = SecsIMessage.from_block(blk)
            else:
                m2.blocks.append(blk)
        if not m2.complete or bytes(m2.data) != pattern(n) or m2.header.stream != 6 or m2.header.function != 11:
            ctx.violation({"check": "join", "n": n, "what": f"reassembled body/header differs for body of {n} bytes"})
    # ---- the block number and E-bit of the header a message is built from are not input: blocks are numbered 1..n whatever they say
    # (e.g. a message built from the header of a received multi-block message, which is its last block's header)
    nhdr = 0
    for v in lv:
        n = v["n"]
        want = [bytes(b) for b in v["blocks"]]
        for blk_in in (1, 2, 3, 255, 256, 1000, 32767):
            nhdr += 1
            try:
                msg = SecsIMessage(mk_header(dict(h0, blk=blk_in), SecsIHeader), pattern(n))
                got = [bytes(b.encode()) for b in msg.blocks]
            except Exception as exc:  # noqa: BLE001
                ctx.violation({"check": "split", "n": n, "header_block_field": blk_in, "error": type(exc).__name__,
                               "what": f"body of {n} bytes built from a header whose block-number field is {blk_in}: {exc!r}"})
                continue
            if got != want:
                nums = [b.header.block for b in msg.blocks]
                ctx.violation({"check": "split", "n": n, "header_block_field": blk_in, "numbers": nums[:6],
                               "what": f"body of {n} bytes built from a header whose block-number field is {blk_in}: blocks numbered {nums[:6]} "
                                       f"instead of 1..{len(want)}"})
    ctx.extra["splits_from_headers_with_a_block_number"] = nhdr
    # ---- big bodies up to the block-number limit
    for v in bv:
        n = v["n"]
        if n > 244 * 32767:
            continue  # beyond the 15-bit block number: outside the property
        try:
            msg = SecsIMessage(mk_header(h0, SecsIHeader), bytes(n))
        except Exception as exc:  # noqa: BLE001
            ctx.violation({"check": "split-large", "n": n, "want_blocks": v["nblocks"], "error": type(exc).__name__,
                           "what": f"body of {n} bytes ({v['nblocks']} blocks, within the 32767-block limit) cannot be split: {exc!r}"})
            continue
        nb = len(msg.blocks)
        last = len(msg.blocks[-1].data)
        flags = [b.header.last_block for b in msg.blocks]
        nums_ok = all(b.header.block == i + 1 for i, b in enumerate(msg.blocks))
        if nb != v["nblocks"] or last != v["last"] or flags.count(True) != 1 or not flags[-1] or not nums_ok:
            ctx.violation({"check": "split-large", "n": n, "nblocks": nb, "want_blocks": v["nblocks"], "last": last, "want_last": v["last"],
                           "what": f"body of {n} bytes -> {nb} blocks (want {v['nblocks']}), last {last} (want {v['last']}), "
                                   f"numbering ok={nums_ok}, E-bits={flags.count(True)}"})
    # ---- corruption of real encoded blocks
    ncorr = 0
    for n in (0, 1, 17, 244):
        blk = bytes(SecsIMessage(mk_header(h0, SecsIHeader), pattern(n)).blocks[0].encode())
        for i in range(len(blk)):
            for x in ({(blk[i] + 1) % 256, 0, 255} | {blk[i] ^ (1 << k) for k in range(8)}) - {blk[i]}:
                c = blk[:i] + bytes([x]) + blk[i + 1:]
                ncorr += 1
                try:
                    res = SecsIBlock.decode(c)
                except Exception:  # noqa: BLE001
                    res = None
                if res is not None:
                    ctx.violation({"check": "corruption-accepted", "n": n, "pos": i, "value": x,
                                   "region": "length" if i == 0 else "header" if i <= 10 else "checksum" if i >= len(blk) - 2 else "data",
                                   "what": f"block with byte {i} altered to {x:#x} was accepted as valid"})
    # blocks whose checksum has a zero byte (TLC: SecsIBlockVec.ZBlocks): every value of every byte
    zv = r.tagged("ZV")
    if len(zv) < 4:
        raise Machinery("zero-byte checksum vectors missing")
    for v in zv:
        blk = bytes(v["block"])
        try:
            intact = SecsIBlock.decode(blk)
        except Exception:  # noqa: BLE001
            intact = None
        if intact is None:
            ctx.violation({"check": "valid-block-rejected", "block": blk.hex(), "what": f"the intact block {blk.hex()} (checksum with a zero byte) is not accepted"})
            continue
        for i in range(len(blk)):
            for x in range(256):
                if x == blk[i]:
                    continue
                c = blk[:i] + bytes([x]) + blk[i + 1:]
                ncorr += 1
                try:
                    res = SecsIBlock.decode(c)
                except Exception:  # noqa: BLE001
                    res = None
                if res is not None:
                    ctx.violation({"check": "corruption-accepted", "n": len(blk) - 13, "pos": i, "value": x, "block": blk.hex(),
                                   "region": "length" if i == 0 else "header" if i <= 10 else "checksum" if i >= len(blk) - 2 else "data",
                                   "what": f"block {blk.hex()} with byte {i} altered to {x:#x} was accepted as valid"})
    # crafted blocks (TLC: SecsIBlockVec.Crafted): length byte lowered onto a self-consistent prefix
    for v in r.tagged("CV"):
        c = bytes(v["block"])
        ncorr += 1
        try:
            res = SecsIBlock.decode(c)
        except Exception:  # noqa: BLE001
            res = None
        if res is not None:
            ctx.violation({"check": "corruption-accepted", "n": 60, "pos": 0, "value": c[0], "region": "length", "crafted_prefix": v["k"],
                           "what": f"a block of 60 data bytes whose length byte was lowered to {c[0]} (its first {v['k']} data bytes are followed by "
                                   f"their own checksum) was accepted as a valid block with {len(res.data)} data bytes"})
    # ---- interleaved reassembly through the real protocol (dispatch path)
    simrt.install()
    rng = random.Random(ctx.seed + 16)
    merges = 0

    def main(s):
        nonlocal merges
        import secsgem.common
        import secsgem.secsi
        from ..link import FakeConnection, Link

        class St(secsgem.secsi.SecsISettings):
            def __init__(self, lk, **kw):
                super().__init__(**kw)
                self._lk = lk

            def create_connection(self):
                return FakeConnection(self, self._lk)

        lk = Link("secsi")
        proto = secsgem.secsi.SecsIProtocol(St(lk, port="COM1"))
        got = []
        proto.events.message_received += lambda d: got.append((d["message"].header.system, d["message"].header.stream,
                                                               d["message"].header.function, bytes(d["message"].data)))
        msgs = []
        for k, n in enumerate((0, 300, 489, 245), start=1):
            hdr = SecsIHeader(0x1000 + k, 5, 1, 1 if k % 2 else 3, 0, False, True, True)
            msgs.append((hdr, pattern(n), [SecsIBlock.decode(bytes(b.encode())) for b in SecsIMessage(hdr, pattern(n)).blocks]))
        seqs = [[(mi, bi) for bi in range(len(m[2]))] for mi, m in enumerate(msgs)]
        for trial in range(40 if ctx.quick else 400):
            order = []
            idx = [0] * len(seqs)
            while any(idx[i] < len(seqs[i]) for i in range(len(seqs))):
                i = rng.choice([i for i in range(len(seqs)) if idx[i] < len(seqs[i])])
                order.append(seqs[i][idx[i]])
                idx[i] += 1
            del got[:]
            for mi, bi in order:
                proto._dispatch_block(proto, msgs[mi][2][bi])
            merges += 1
            want = {(m[0].system, 1, m[0].function, m[1]) for m in msgs}
            if set(got) != want or len(got) != len(msgs):
                ctx.violation({"check": "interleaved-reassembly", "order": order, "delivered": [(g[0], len(g[3])) for g in got],
                               "what": f"interleaved blocks {order[:10]}.. reassembled to {[(hex(g[0]), len(g[3])) for g in got]}"})
                break

    s = simrt.run(main)
    if s.outcome != "done" or s.errors:
        raise Machinery(f"reassembly run failed: {s.outcome} {s.errors[:1]}")
    ctx.evaluations += len(hv) + len(lv) + len(bv) + len(kv) + ncorr + merges
    ctx.nontrivial += len(hv) + len(lv) + ncorr
    ctx.traces += merges
    ctx.sample({"header_vector": hv[0]})
    ctx.sample({"body_length": lv[3]["n"], "blocks": [bytes(b)[:12].hex() + ".." for b in lv[3]["blocks"]]})
    ctx.extra["corruptions_tried"] = ncorr
    ctx.rule = ("header field boundary universe x body lengths {0,1,243..245,487..489,732} byte-exact; block counts for 3/100/32766/32767 "
                "blocks +-1 byte; every single-byte corruption (+1, xor 0x80, 0, 0xFF) of blocks with 0/1/17/244 data bytes; random merges "
                "of four multi-block messages through the real reassembly")
    ctx.transitions = ctx.states
    return ctx.finish()
