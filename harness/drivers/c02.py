"""C02 -- every valid SEMI E5 item encoding is decoded to the value it denotes (secs.variables decoders).

Leg M : TLC proves on the boundary universe that every encoding with more length bytes than necessary (1-3 wherever the
        length fits) decodes to the same item as the canonical one (E5Universe: NLB variants), incl. FLT_MAX / DBL_MAX /
        subnormal patterns.
Leg R : the variants are fed to the real decoders -- typed, through Dynamic (untyped), through Dynamic restricted to the one
        allowed format, and nested inside a list; the decoded value must re-encode to the canonical bytes. A format code the
        receiving definition does not allow must be rejected, not mis-decoded.
Leg V : seeded random byte strings that the reference decoder (E5Item via TLC) accepts are decoded by the real code; TLC
        supplies the canonical re-encoding that the real decoder's result must reproduce.
"""
from __future__ import annotations

import json
import random

from .. import e5, e5bind, tlc
from ..common import Ctx, Machinery, workdir
from . import c01

PID = "C02"
GARBAGE = b"\x05\x06"


def has_j(item):
    return '"J"' in json.dumps(item)


def check_variant(ctx, item, data, canon, tag, nlb):
    import secsgem.secs.variables as var

    f = item["f"]
    base = {"fmt": f, "nlb": nlb, "variant": tag, "bytes": data[:40].hex()}
    # typed
    try:
        _obj, fmt = e5bind.vbuild(item)
        fresh = e5bind.vfresh(fmt)
        pos = fresh.decode(data + GARBAGE, 0)
        again = bytes(fresh.encode())
    except Exception as exc:  # noqa: BLE001
        ctx.violation(dict(base, check="typed-decode", error=type(exc).__name__,
                           what=f"{tag}: typed decode of valid encoding {data[:16].hex()} ({c01.desc(item)}, {nlb} length bytes) raised {exc!r}"))
        return
    if pos != len(data) or again != canon:
        ctx.violation(dict(base, check="typed-decode", pos=pos, reencoded=again[:40].hex(), canon=canon[:40].hex(),
                           what=f"{tag}: typed decode of {data[:16].hex()} consumed {pos}/{len(data)}, canonical re-encode equal={again == canon}"))
        return
    if has_j(item):
        return
    try:
        dyn = var.Dynamic([])
        pos = dyn.decode(data + GARBAGE, 0)
        again = bytes(dyn.encode())
    except Exception as exc:  # noqa: BLE001
        ctx.violation(dict(base, check="dynamic-decode", error=type(exc).__name__,
                           what=f"{tag}: Dynamic decode of valid encoding {data[:16].hex()} raised {exc!r}"))
        return
    if pos != len(data) or again != canon:
        ctx.violation(dict(base, check="dynamic-decode", pos=pos, reencoded=again[:40].hex(), canon=canon[:40].hex(),
                           what=f"{tag}: Dynamic decode of {data[:16].hex()} consumed {pos}/{len(data)}, canonical re-encode equal={again == canon}"))
        return
    prev = c01.dynamic_prev(item)
    if prev is None:
        return
    try:
        dyn2 = var.Dynamic([])
        dyn2.set(prev)
        pos = dyn2.decode(data + GARBAGE, 0)
        again = bytes(dyn2.encode())
    except Exception as exc:  # noqa: BLE001
        ctx.violation(dict(base, check="dynamic-decode-reused", error=type(exc).__name__, previous=repr(prev)[:80],
                           what=f"{tag}: a Dynamic that held {prev!r} raised {exc!r} when decoding the valid encoding {data[:16].hex()}"))
        return
    if pos != len(data) or again != canon:
        ctx.violation(dict(base, check="dynamic-decode-reused", pos=pos, reencoded=again[:40].hex(), canon=canon[:40].hex(), previous=repr(prev)[:80],
                           what=f"{tag}: a Dynamic that held {prev!r} decodes {data[:16].hex()} to {again[:16].hex()}"))


def check_allowed(ctx, item, data):
    """Dynamic restricted to types: the item's own format must decode, a different single format must be rejected."""
    import secsgem.secs.variables as var

    f = item["f"]
    if f in ("L", "J"):
        return
    cls = e5bind.VCLS[f]
    other = var.U1 if cls is not var.U1 else var.I4
    try:
        d = var.Dynamic([other, cls])
        pos = d.decode(data, 0)
        if pos != len(data) or bytes(d.encode()) != data:
            ctx.violation({"check": "allowed-format", "fmt": f, "what": f"Dynamic([{other.__name__},{cls.__name__}]) mis-decodes {data[:16].hex()}"})
    except Exception as exc:  # noqa: BLE001
        ctx.violation({"check": "allowed-format", "fmt": f, "error": type(exc).__name__,
                       "what": f"Dynamic allowing {cls.__name__} rejects its valid encoding {data[:16].hex()}: {exc!r}"})
    try:
        d = var.Dynamic([other])
        d.decode(data, 0)
        ctx.violation({"check": "disallowed-format", "fmt": f, "other": other.__name__,
                       "what": f"Dynamic([{other.__name__}]) accepted an item of format {f} ({data[:16].hex()}) -> {d.get()!r}"})
    except Exception:  # noqa: BLE001
        pass


def run(ctx: Ctx):
    wd = workdir(PID)
    vec, ln, nlb, nar = c01.universe(ctx, wd)
    for v in nlb:
        check_variant(ctx, v["item"], bytes(v["bytes"]), bytes(v["canon"]), "outer", v["nlb"])
        # the same variant as the only child of a list
        nested_item = {"f": "L", "v": [v["item"]]}
        check_variant(ctx, nested_item, bytes(v["nested"]), e5.header("L", 1) + bytes(v["canon"]), "nested", v["nlb"])
    for v in vec:
        check_allowed(ctx, v["item"], bytes(v["bytes"]))
    # decoding depends on the CONTENT of the buffer, not on its identity: one receive buffer refilled in place with another
    # valid encoding of the same length, and a message object created where a released one of the same length was
    import secsgem.secs.variables as var
    by_len = {}
    for v in nlb:
        if not has_j(v["item"]):
            by_len.setdefault(len(v["bytes"]), []).append((bytes(v["bytes"]), bytes(v["canon"])))
    nref = 0
    for ln_, lst in sorted(by_len.items()):
        lst = [x for i, x in enumerate(lst) if i == 0 or x[0] != lst[i - 1][0]]
        for (a, _ca), (b, cb) in list(zip(lst, lst[1:]))[:8]:
            nref += 1
            try:
                buf = bytearray(a)
                var.Dynamic([]).decode(buf, 0)
                buf[:] = b
                d2 = var.Dynamic([])
                pos = d2.decode(buf, 0)
                again = bytes(d2.encode())
                tmp = bytes(bytearray(a))                  # a message object that is released ...
                var.Dynamic([]).decode(tmp, 0)
                del tmp
                tmp2 = bytes(bytearray(b))                 # ... and another one of the same length right after it
                d3 = var.Dynamic([])
                d3.decode(tmp2, 0)
                again3 = bytes(d3.encode())
            except Exception as exc:  # noqa: BLE001
                ctx.violation({"check": "buffer-reuse", "error": type(exc).__name__, "first": a[:24].hex(), "second": b[:24].hex(),
                               "what": f"decoding {b[:16].hex()} from a buffer that held {a[:16].hex()} before raised {exc!r}"})
                continue
            if pos != len(b) or again != cb or again3 != cb:
                ctx.violation({"check": "buffer-reuse", "first": a[:24].hex(), "second": b[:24].hex(), "got": again[:24].hex(), "got_new_object": again3[:24].hex(),
                               "canon": cb[:24].hex(),
                               "what": f"valid encoding {b[:16].hex()} decoded from a buffer that held {a[:16].hex()} before gives {again[:16].hex()} / "
                                       f"{again3[:16].hex()} instead of {cb[:16].hex()}"})
    ctx.extra["buffer_reuse_pairs"] = nref
    # what a data item's definition allows does not depend on what was assigned to other instances before: values that are
    # refused (tuples, integers beyond every width) are offered to every catalogued data item class that allows several
    # formats, then fresh instances must still decode every allowed format
    import inspect

    import secsgem.secs.data_items as di
    classes = [c for _n, c in inspect.getmembers(di, inspect.isclass)
               if getattr(c, "__allowedtypes__", None) and len(c.__allowedtypes__) > 1 and issubclass(c, var.Dynamic)]
    text_classes = [c for _n, c in inspect.getmembers(di, inspect.isclass)
                    if c.__module__.startswith("secsgem.secs.data_items") and (issubclass(c, var.String) or (issubclass(c, var.Dynamic) and var.String in (getattr(c, "__allowedtypes__", None) or [])))]
    samples = {"L": bytes([0x01, 0x02, 0xA5, 0x01, 0x05, 0x41, 0x01, 0x78]), "A": b"\x41\x01a", "B": b"\x21\x01\x07", "BOOLEAN": b"\x25\x01\x01",
               "U1": b"\xa5\x01\x05", "U2": b"\xa9\x02\x01\x02", "U4": b"\xb1\x04\x00\x00\x00\x09", "U8": b"\xa1\x08" + bytes(8),
               "I1": b"\x65\x01\xff", "I2": b"\x69\x02\xff\xfe", "I4": b"\x71\x04" + bytes(4), "I8": b"\x61\x08" + bytes(8),
               "F4": b"\x91\x04\x3f\x80\x00\x00", "F8": b"\x81\x08\x3f\xf0" + bytes(6)}
    tname = {var.Array: "L", var.String: "A", var.Binary: "B", var.Boolean: "BOOLEAN", var.U1: "U1", var.U2: "U2", var.U4: "U4", var.U8: "U8",
             var.I1: "I1", var.I2: "I2", var.I4: "I4", var.I8: "I8", var.F4: "F4", var.F8: "F8"}
    ndi = 0
    allowed_before = {c: list(c.__allowedtypes__) for c in classes}        # what the definitions allow, read before any use
    for c in classes:
        for odd in ((1, 2), 10 ** 40, -(10 ** 40), object()):
            try:
                c(odd)
            except Exception:  # noqa: BLE001
                pass
    for c in classes:
        for T in allowed_before[c]:
            nm = tname.get(T)
            if nm is None:
                continue
            data = samples[nm]
            if getattr(c, "__count__", -1) not in (-1, None) and nm in ("A", "B"):
                pass
            ndi += 1
            try:
                o = c()
                pos = o.decode(data + GARBAGE, 0)
                again = bytes(o.encode())
            except Exception as exc:  # noqa: BLE001
                ctx.violation({"check": "data-item-allowed-format", "item": c.__name__, "fmt": nm, "error": type(exc).__name__,
                               "what": f"data item {c.__name__} allows format {nm} but rejects the valid item {data.hex()}: {exc!r}"})
                continue
            if pos != len(data) or again != data:
                ctx.violation({"check": "data-item-allowed-format", "item": c.__name__, "fmt": nm, "got": again.hex(),
                               "what": f"data item {c.__name__} decodes the valid {nm} item {data.hex()} to {again.hex()}"})
    # text in a length-limited data item is the bytes that were sent: blanks and NUL characters at its end belong to it
    ntx = 0
    for c in text_classes:
        try:
            limit = getattr(c(), "count", -1)
        except Exception:  # noqa: BLE001
            continue
        for txt in (b"a", b" ", b"\x00", b"a ", b"a\x00", b" a", b"ab  ", b"a \x00"):
            if limit not in (-1, None) and len(txt) > limit:
                continue
            data = bytes([0x41, len(txt)]) + txt
            ntx += 1
            try:
                o = c()
                pos = o.decode(data + GARBAGE, 0)
                again = bytes(o.encode())
            except Exception as exc:  # noqa: BLE001
                ctx.violation({"check": "data-item-text", "item": c.__name__, "text": txt.hex(), "error": type(exc).__name__,
                               "what": f"data item {c.__name__} (text, limit {limit}) rejects the valid item {data.hex()}: {exc!r}"})
                continue
            if pos != len(data) or again != data:
                ctx.violation({"check": "data-item-text", "item": c.__name__, "text": txt.hex(), "got": again.hex(),
                               "what": f"data item {c.__name__} (text, limit {limit}) decodes the valid item {data.hex()} ({txt!r}) to {again.hex()}"})
    ctx.extra["data_item_text_samples"] = ntx
    if ntx < 50:
        raise Machinery(f"too few text data items found: {ntx}")
    ctx.extra["data_item_format_pairs"] = ndi
    ctx.evaluations += 2 * len(nlb) + len(vec)
    ctx.nontrivial += 2 * len(nlb)
    ctx.sample({"item": nlb[0]["item"], "nlb": nlb[0]["nlb"], "bytes": bytes(nlb[0]["bytes"]).hex(), "canonical": bytes(nlb[0]["canon"]).hex()})
    # ---- Leg V: random valid encodings (non-minimal headers everywhere) built from random items
    rng = random.Random(ctx.seed * 7 + 2)
    recs = []
    n = 1500 if ctx.quick else 20000

    def enc_any(item):
        """Encode with a random admissible number of length bytes at every level."""
        f = item["f"]
        if f == "L":
            body = b"".join(enc_any(c) for c in item["v"])
            ln_ = len(item["v"])
        else:
            body = e5.encode(to_ref(item))[1 + e5.header(f, 0).__len__() - 1:]
            ref = e5.encode(to_ref(item))
            hl = 1 + (ref[0] & 3)
            body = ref[hl:]
            ln_ = len(body)
        k = rng.choice([x for x in (1, 2, 3) if ln_ < (1 << (8 * x))])
        return e5.header(f, ln_, k) + body

    def to_ref(item):
        f = item["f"]
        if f == "L":
            return ("L", [to_ref(c) for c in item["v"]])
        if f in ("B", "A"):
            return (f, bytes(item["v"]))
        if f == "J":
            return ("J", bytes(jis(c) for c in item["v"]))
        if f == "BOOLEAN":
            return (f, list(item["v"]))
        if f in ("F4", "F8"):
            import struct
            return (f, [struct.unpack(">f" if f == "F4" else ">d", bytes(p))[0] for p in item["v"]])
        return (f, [e5bind.num(x) for x in item["v"]])

    def jis(cp):
        return 0x5C if cp == 165 else 0x7E if cp == 8254 else (cp - 65377 + 161 if cp >= 65377 else cp)

    for i in range(1, n + 1):
        it = c01.random_item(rng)
        if has_j(it):
            continue
        data = enc_any(it)
        recs.append({"id": i, "item": it, "bytes": list(e5.encode(to_ref(it))), "variant": data})
    # TLC confirms that the canonical bytes are the E5 encoding of the item (so `variant` denotes `item`)
    f = wd / "recs_c02.json"
    f.write_text(json.dumps([{k: r_[k] for k in ("id", "item", "bytes")} for r_ in recs]))
    rj = tlc.run("E5Judge", cfg_text="", workdir=wd, workers=1, env={"REC_FILE": str(f)}, what="judge", coverage=False,
                 timeout=3000, heap="12g")
    tlc.require_ok(rj, "E5Judge")
    if rj.tagged("V"):
        raise Machinery(f"harness reference encoder disagrees with E5Item: {rj.tagged('V')[:2]}")
    import secsgem.secs.variables as var
    for r_ in recs:
        data, canon = r_["variant"], bytes(r_["bytes"])
        try:
            d = var.Dynamic([])
            pos = d.decode(data + GARBAGE, 0)
            again = bytes(d.encode())
        except Exception as exc:  # noqa: BLE001
            ctx.violation({"check": "random-decode", "fmt": r_["item"]["f"], "error": type(exc).__name__, "bytes": data[:60].hex(),
                           "what": f"decode of valid random encoding {data[:20].hex()} ({c01.desc(r_['item'])}) raised {exc!r}"})
            continue
        if pos != len(data) or again != canon:
            ctx.violation({"check": "random-decode", "fmt": r_["item"]["f"], "bytes": data[:60].hex(), "reencoded": again[:60].hex(),
                           "what": f"decode of valid random encoding {data[:20].hex()} consumed {pos}/{len(data)}; canonical re-encode equal={again == canon}"})
    ctx.traces += len(recs)
    ctx.evaluations += len(recs)
    ctx.rule = ("valid encodings = for every universe item each admissible non-minimal number of length bytes (outermost and as list child) "
                "+ random items encoded with random admissible length-byte counts at every nesting level; the real decoders must return a "
                "value whose encode() is the canonical encoding proved by TLC; disallowed format codes must be rejected")
    ctx.assumptions += ["JIS-8 items are decoded typed only (Dynamic's type list has no JIS-8)",
                        "random byte strings are generated from items, i.e. valid by construction and confirmed by TLC's reference decoder"]
    ctx.states = len(nlb) + len(vec)
    ctx.transitions = ctx.states
    return ctx.finish()
