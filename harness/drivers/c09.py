"""C09 -- no peer behaviour wedges the endpoint; link loss ends in a clean, reusable state.

Leg M : TLC checks HsmsClose (connection thread / receiver thread / application thread as processes, close
        sequence step by step): CleanWhenDone, CloseFinishes, DisableReturns under weak fairness, for every cut
        of the inbound stream and every interleaving; the same model with the original blocking framing loop
        is kept as a regression witness (TLC must find the wedge there).
Leg R/V: for every byte offset of valid inbound streams x {NOT SELECTED, SELECTED} x {peer close, disable(),
        close + reconnect + select} the real endpoint runs under simrt (fifo/random/PCT schedules); a run that
        can make no further progress (WEDGED) or exceeds the virtual-time budget while a close is pending is what
        the property forbids. Every scenario record is validated by TLC (CloseJudge).
"""
from __future__ import annotations

import json
import random

from .. import hsmsrun, link, simrt, tlc
from ..common import Ctx, Machinery, chunks, pmap, workdir

PID = "C09"
LEVEL = "fault_enumeration"


def pattern(n):
    return bytes((i * 7 + 3) % 251 for i in range(1, n + 1))


def streams():
    lt = lambda i: link.hsms_frame(stype=5, system=0x200 + i)  # noqa: E731
    d = lambda i, n: link.hsms_frame(stype=0, system=0x300 + i, session=0, stream=1, function=1, wbit=False, body=pattern(n))  # noqa: E731
    return {
        "lt": [lt(1)],
        "data3": [d(1, 3)],
        "lt_data_lt": [lt(1), d(2, 2), lt(3)],
        "data_big": [d(1, 300)],
        # a long run of requests back to back: every one needs an answer while the next ones are already waiting to be dispatched
        "lt_burst": [lt(i) for i in range(1, 41)],
    }


def complete_linktests(frames, cut):
    n, pos = 0, 0
    for f in frames:
        pos += len(f)
        if pos <= cut and f[9] == 5:
            n += 1
    return n


def run_batch(job):
    bid, items, seed, policy = job
    hsmsrun.quiet_logging()
    simrt.install()
    out = []
    for it in items:
        out.append(run_one(it, seed + it["id"], policy))
    return out


def run_one(it, seed, policy):
    rec = dict(it)
    frames = streams()[it["stream"]]
    data = b"".join(frames)[: it["cut"]]

    def main(s):
        ep = hsmsrun.Ep(mode="passive", kind="protocol")
        delivered = []
        ep.protocol.events.message_received += lambda d: delivered.append(d["message"].header.system)
        ep.protocol.enable()
        ep.link.connect()
        s.settle()
        if it["sel"]:
            ep.link.feed(link.hsms_frame(stype=1, system=1))
            s.settle()
        ep.link.take_frames()
        rng = random.Random(seed)
        pos = 0
        fast = bool(it.get("fast"))
        if fast:
            # the peer closes right behind its last byte: the answers to its complete requests race the close handling
            ep.link.feed(data)
            pos = len(data)
        while pos < len(data):
            k = len(data) - pos if it["chunk"] == "one" else min(len(data) - pos, rng.choice([1, 2, 3, 7, 20]))
            ep.link.feed(data[pos:pos + k])
            pos += k
            s.settle()
        fr = [] if fast else ep.link.take_frames()
        rec["reqs"] = 0 if fast else complete_linktests(frames, it["cut"])      # fast: the peer is gone, nobody counts the answers
        rec["rsps"] = len([f for f in fr if f.get("stype") == 6])
        e0 = len(ep.link.events)
        p0 = len(ep.events)
        rec["returned"] = False
        done = {"v": False}
        if it["fault"] == "disable":
            def dis():
                ep.protocol.disable()
                done["v"] = True
            th = simrt.Thread(target=dis, name="app_disable")
            th.start()
            ok, why = s.run_until(lambda: done["v"] and ep.link.closed_count >= 1, max_dt=200)
            rec["returned"] = done["v"]
        else:
            ep.link.peer_close()
            ok, why = s.run_until(lambda: ep.link.closed_count >= 1, max_dt=200)
        rec["closed"] = ep.link.closed_count >= 1
        rec["idle"] = why
        rec["cs"] = ep.cs
        rec["rxlen"] = len(ep.protocol._receive_buffer)
        rec["ev"] = [e["ev"] for e in ep.link.events[e0:]] + [e for e in ep.events[p0:]]
        rec["resel"] = False
        rec["redlv"] = False
        if not ok:
            rec["blocked"] = s.blocked_report()
        if it["fault"] == "reconnect" and rec["closed"]:
            ep.link.connect()
            s.settle()
            ep.link.take_frames()
            ep.link.feed(link.hsms_frame(stype=1, system=77))
            ok2, _ = s.run_until(lambda: ep.cs == "SEL", max_dt=50)
            fr2 = ep.link.take_frames()
            rec["resel"] = ok2 and any(f.get("stype") == 2 and f["system"] == 77 for f in fr2)
            ep.link.feed(link.hsms_frame(stype=0, system=0x999, session=0, stream=1, function=1, body=b""))
            ok3, _ = s.run_until(lambda: 0x999 in delivered, max_dt=50)
            rec["redlv"] = ok3
            rec["rxlen"] = len(ep.protocol._receive_buffer)

    s = simrt.run(main, seed=seed, policy=policy, switch_prob=0.3, max_vtime=1e6, wall_timeout=60)
    rec["outcome"] = s.outcome
    rec["sched"] = [seed, policy]
    if s.outcome != "done":
        rec.setdefault("closed", False)
        rec["wedge"] = s.wedge_info
    if s.errors:
        rec["errors"] = [e[:2] for e in s.errors[:2]]
    return rec


# --------------------------------------------------------------------------- TCP lifecycle (real Tcp*Connection on simsock)
def run_tcp_batch(job):
    import logging
    logging.disable(logging.CRITICAL)
    from .. import simsock
    simsock.install()
    return [run_tcp_one(it) for it in job]


def run_tcp_one(it):
    """enable / connect / link loss / disable sequences on the real TCP connection classes under HsmsProtocol."""
    import secsgem.common
    import secsgem.common.tcp_client_connection as tcc
    import secsgem.common.tcp_connection as tc
    import secsgem.common.tcp_server_connection as tsc
    import secsgem.hsms
    from .. import simsock

    rec = dict(it)
    rec.update({"steps": [], "ok": True, "clause": "ok"})

    def main(s):
        net = simsock.Net(capacity=65536)
        simsock.set_net(net)
        passive = it["side"] == "server"
        st = secsgem.hsms.HsmsSettings(connect_mode=secsgem.hsms.HsmsConnectMode.PASSIVE if passive else secsgem.hsms.HsmsConnectMode.ACTIVE,
                                       port=5002)
        proto = secsgem.hsms.HsmsProtocol(st)
        proto._linktest_timeout = 1e9
        peer = {"ep": None, "lst": None}
        if not passive:
            peer["lst"] = None

        def fail(clause):
            rec["ok"] = False
            rec["clause"] = clause
            rec["blocked"] = [b["thread"] + ":" + "/".join(b["stack"][-2:]) for b in s.blocked_report()][:8]

        def wait(pred, dt):
            ok, why = s.run_until(pred, max_dt=dt)
            return ok

        hold = {"armed": False, "inside": simrt.Event(), "release": simrt.Event()}

        def slow_connected(_d):
            # the application's "connected" callback, slow once: it runs on the thread that established the connection
            if hold["armed"]:
                hold["armed"] = False
                hold["inside"].set()
                hold["release"].wait(5.0)

        proto.events.connected += slow_connected
        for step in it["script"]:
            rec["steps"].append(step)
            if step == "enable":
                proto.enable()
                s.advance(0.3)
            elif step == "enable_fast":      # no pause: the connect / server thread is still starting up
                proto.enable()
            elif step == "listen_peer":          # client side: a peer starts listening (no-op for the server side)
                if not passive:
                    peer["lst"] = net.listen_raw(5002)
            elif step == "connect":
                if passive:
                    peer["ep"] = net.dial(5002)
                    if peer["ep"] is None:
                        fail("passive-endpoint-not-listening")
                        return
                else:
                    if peer["lst"] is None:
                        peer["lst"] = net.listen_raw(5002)
                    def live():
                        return [e for e in peer["lst"] if not e.fin and not e.closed]

                    if not wait(lambda: bool(live()), 30):
                        fail("active-endpoint-did-not-connect")
                        return
                    peer["ep"] = live()[-1]
                    del peer["lst"][:]
                if not wait(lambda: proto.connection_state.current.name != "NOT_CONNECTED", 30):
                    fail("connection-not-reported")
                    return
            elif step == "connect_held":
                # the peer connects; the application's connected callback is still running when the next step begins
                hold["armed"] = True
                if passive:
                    peer["ep"] = net.dial(5002)
                    if peer["ep"] is None:
                        fail("passive-endpoint-not-listening")
                        return
                else:
                    if peer["lst"] is None:
                        peer["lst"] = net.listen_raw(5002)
                if not hold["inside"].wait(30.0):
                    fail("connection-not-reported")
                    return
                if not passive:
                    live_ = [e for e in peer["lst"] if not e.fin and not e.closed]
                    peer["ep"] = live_[-1] if live_ else None
                    del peer["lst"][:]
            elif step == "disable_while_held":
                dn = {"v": False}

                def dis2(dn=dn):
                    proto.disable()
                    dn["v"] = True

                simrt.Thread(target=dis2, name="app_disable").start()
                s.advance(0.5)                 # disable() has reached its wait for the connecting thread
                hold["release"].set()
                if not wait(lambda: dn["v"], 60):
                    fail("disable-did-not-return")
                    return
                if proto.connection_state.current.name != "NOT_CONNECTED":
                    fail("not-NOT_CONNECTED-after-disable")
                    return
                if not passive:
                    net.raw_accept.pop(5002, None)
                    peer["lst"] = None
            elif step == "select":
                ep = peer["ep"]
                if passive:
                    ep.write(link.hsms_frame(stype=1, system=5))
                else:
                    if not wait(lambda: len(ep.rx) >= 14, 10):
                        fail("no-select-request")
                        return
                    fr, _ = link.parse_frames(ep.read())
                    for f in fr:
                        if f.get("stype") == 1:
                            ep.write(link.hsms_frame(stype=2, system=f["system"]))
                if not wait(lambda: proto.connection_state.current.name == "CONNECTED_SELECTED", 10):
                    fail("not-selected-after-select")
                    return
            elif step == "partial":
                peer["ep"].write(link.hsms_frame(stype=0, system=9, session=0, stream=1, function=1)[:9])
                s.advance(0.7)
            elif step == "peer_close":
                peer["ep"].close()
                if not wait(lambda: proto.connection_state.current.name == "NOT_CONNECTED", 30):
                    fail("link-loss-not-NOT_CONNECTED")
                    return
                if not passive:
                    net.raw_accept.pop(5002, None)
                    peer["lst"] = None
            elif step == "peer_close_fast":      # the peer closes; the next step meets the close handling half-way
                peer["ep"].close()
                if it.get("gap"):
                    s.block(("gap",), it["gap"])
                if not passive:
                    net.raw_accept.pop(5002, None)
                    peer["lst"] = None
            elif step in ("disable", "disable_then_enable"):
                dn = {"v": False, "at_return": None}

                def dis(dn=dn, again=(step == "disable_then_enable")):
                    proto.disable()
                    dn["at_return"] = proto.connection_state.current.name      # the moment disable() returns
                    if again:
                        proto.enable()                                          # the application re-enables at once
                    dn["v"] = True

                th = simrt.Thread(target=dis, name="app_disable")
                th.start()
                if not wait(lambda: dn["v"], 60):
                    fail("disable-did-not-return")
                    return
                if dn["at_return"] != "NOT_CONNECTED":
                    rec["state_at_return"] = dn["at_return"]
                    fail("not-NOT_CONNECTED-when-disable-returned")
                    return
                if step == "disable" and proto.connection_state.current.name != "NOT_CONNECTED":
                    fail("not-NOT_CONNECTED-after-disable")
                    return
                if step == "disable" and passive:
                    s.advance(1.0)
                    lst_ = net.listeners.get(5002)
                    if lst_ is not None and not lst_.closed:
                        # observation only (C09 does not speak about it): a disabled endpoint listens again -- the close handling
                        # restarted the server thread after disable() had cleared the enabled flag
                        rec["listening_after_disable"] = True
                if step == "disable_then_enable":
                    s.advance(0.3)
            elif step == "wait":
                s.advance(it.get("wait", 1.0))
            else:
                raise ValueError(step)
        if it["script"][-1] == "disable" and not passive:
            # the endpoint is disabled: it stays NOT CONNECTED, also past the T5 idling of a connection thread that nobody stopped
            net.listen_raw(5002)
            n0 = len(net.log)
            s.advance(st.timeouts.t5 + 2.0)
            again = [e for e in net.log[n0:] if e[0] == "connect"]
            if again or proto.connection_state.current.name != "NOT_CONNECTED":
                rec["connects_after_disable"] = again[:3]
                rec["state_after_disable"] = proto.connection_state.current.name
                fail("connected-again-while-disabled")
                return

    s = simrt.run(main, seed=it["seed"], policy=it["policy"], switch_prob=0.3, max_vtime=1e5, wall_timeout=120,
                  line_funcs=[tc.TcpConnection._start_receiver, tc.TcpConnection.disconnect, tc.TcpConnection._TcpConnection__receiver_thread,
                              tsc.TcpServerConnection.disable, tsc.TcpServerConnection._disconnected,
                              tcc.TcpClientConnection.disable, tcc.TcpClientConnection._disconnected,
                              tcc.TcpClientConnection._TcpClientConnection__start_connect_thread,
                              tcc.TcpClientConnection._TcpClientConnection__connect_thread,
                              tcc.TcpClientConnection._TcpClientConnection__connect, tcc.TcpClientConnection._TcpClientConnection__idle,
                              tsc.TcpServerConnection._TcpServerConnection__server_thread],
                  line_cost=1e-3, pct_depth=3, pct_horizon=400,
                  line_lag=((tc.TcpConnection._TcpConnection__receiver_thread,), 0.35, 0.02) if it.get("lag") else None)
    simsock.set_net(None)
    rec["outcome"] = s.outcome
    if s.outcome != "done":
        rec["ok"] = False
        rec["clause"] = "run-" + str(s.outcome)
        rec["wedge"] = s.wedge_info
    rec["thread_errors"] = [e[:2] for e in s.errors[:3]]
    return rec


TCP_SCRIPTS = {
    "disable-while-idle": ["enable", "disable"],
    "disable-after-wait": ["enable", "wait", "disable"],
    "disable-while-connected": ["enable", "connect", "disable"],
    "disable-while-selected": ["enable", "connect", "select", "disable"],
    "disable-with-partial-frame": ["enable", "connect", "select", "partial", "disable"],
    "loss-then-disable": ["enable", "connect", "select", "peer_close", "disable"],
    "loss-partial-reconnect": ["enable", "connect", "select", "partial", "peer_close", "wait", "connect", "select", "disable"],
    "disable-enable-cycle": ["enable", "connect", "select", "disable", "enable", "connect", "select", "disable"],
    # disable() the moment the connection is reported (the server thread may still be inside its accept sequence), then use the endpoint again
    "disable-right-after-accept-then-again": ["enable", "connect", "disable", "enable", "connect", "select", "disable"],
    # disable() while the application's connected callback still runs on the accepting / connecting thread, then use the endpoint again
    "disable-inside-connected-callback-then-again": ["enable", "connect_held", "disable_while_held", "enable", "connect", "select", "disable"],
    "idle-disable-enable": ["enable", "disable", "enable", "connect", "select", "disable"],
    "loss-and-disable-at-once": ["enable", "connect", "select", "peer_close_fast", "disable", "enable", "connect", "select", "disable"],
    "loss-partial-and-disable-at-once": ["enable", "connect", "select", "partial", "peer_close_fast", "disable", "enable", "connect", "select",
                                         "disable"],
    "loss-and-disable-enable-at-once": ["enable", "connect", "select", "peer_close_fast", "disable_then_enable", "connect", "select", "disable"],
    "disable-enable-at-once-while-selected": ["enable", "connect", "select", "disable_then_enable", "connect", "select", "disable"],
    # the endpoint is disabled for good while the close handling of the lost connection is under way: it stays NOT CONNECTED
    "loss-and-disable-at-once-then-stay-disabled": ["enable", "connect", "select", "peer_close_fast", "disable"],
    "enable-disable-at-once": ["enable_fast", "disable"],
    "enable-disable-at-once-peer-listening": ["listen_peer", "enable_fast", "disable"],
    "enable-disable-at-once-then-again": ["listen_peer", "enable_fast", "disable", "enable", "connect", "select", "disable"],
}


def run(ctx: Ctx):
    wd = workdir(PID)
    # ---- Leg M
    mu = 9 if ctx.quick else 13

    def cfg(b):
        return (f"SPECIFICATION Spec\nCONSTANTS BlockingFraming = {b}\n FS = 4\n LU = 2\n MaxUnits = {mu}\n"
                "INVARIANT CleanWhenDone\nINVARIANT NeverMoreFramesThanSent\nPROPERTY CloseFinishes\n"
                "PROPERTY PeerCloseLeadsToClosed\nPROPERTY DisableReturns\n")

    r = tlc.run("HsmsClose", cfg_text=cfg("FALSE"), workdir=wd, what="close_model", timeout=1800)
    tlc.require_ok(r, "HsmsClose")
    tlc.require_covered(r, ["CtRead", "CtLeaveLoop", "CtSendSeparate", "CtSepDone", "CtClear", "RtFrame", "AppDisable",
                            "AppReturn", "PeerClose"])
    ctx.add_tlc(r, "close sequence as coded (non-blocking framing loop): safety + liveness for every cut and interleaving")
    rb = tlc.run("HsmsClose", cfg_text=cfg("TRUE"), workdir=wd, what="close_model_blocking", timeout=1800, expect_error=True)
    ctx.add_tlc(rb, "regression witness: with ByteQueue.wait_for inside the framing loop TLC finds the wedge")
    if rb.error_kind != "property":
        raise Machinery("the blocking-framing variant of HsmsClose no longer shows the wedge: model lost its teeth")
    # ---- Leg M: stop-flag handshakes of the real TCP connection classes (disable vs connect / server thread)
    for spec, props, cov in (("TcpServerLifecycle", "PROPERTY DisableReturns\nINVARIANT NoLeakedListener\n", ["SBind", "SSelect", "SAccept", "SExit", "D3", "DWait"]),
                             ("TcpClientLifecycle", "PROPERTY DisableReturns\n", ["CConnect", "CIdle", "D2", "DWait"])):
        rl = tlc.run(spec, cfg_text=f"SPECIFICATION Spec\nCONSTANTS Fixed = TRUE\n{props}", workdir=wd, what=spec + "_fixed", timeout=900)
        tlc.require_ok(rl, spec)
        tlc.require_covered(rl, cov)
        ctx.add_tlc(rl, f"{spec}: disable() returns, no leaked listener, for every interleaving of the handshake")
        rlw = tlc.run(spec, cfg_text=f"SPECIFICATION Spec\nCONSTANTS Fixed = FALSE\n{props}", workdir=wd, what=spec + "_orig", timeout=900,
                      expect_error=True)
        ctx.add_tlc(rlw, f"{spec}: regression witness (original handshake) -- TLC must refute it")
        if rlw.error_kind not in ("property", "invariant"):
            raise Machinery(f"{spec} regression witness no longer fails")
    for spec, consts, wit, props, what in (
            ("TcpReceiverStop", "ResetAtStart = TRUE\n RunningLast = TRUE", ["ResetAtStart = FALSE\n RunningLast = FALSE", "ResetAtStart = TRUE\n RunningLast = FALSE"],
             "INVARIANT NewConnectionIsKept\nPROPERTY DisconnectReturns\n",
             "stop-flag handshake of disconnect() and the receiver thread across two connections: the new connection is kept, disconnect() returns"),
            ("TcpServerRestart", "DisconnectFirst = TRUE", ["DisconnectFirst = FALSE"], "INVARIANT ListensAfterEnable\nINVARIANT QuietWhileDisabled\nPROPERTY DisableReturns\n",
             "restart of the listening thread by the close handling vs disable() / enable(): a live thread listens on its own socket afterwards"),
            ("TcpClientRestart", "DisconnectFirst = TRUE\n Ticks = 3", ["DisconnectFirst = FALSE\n Ticks = 3"],
             "INVARIANT QuietWhileDisabled\nPROPERTY StaysQuiet\nPROPERTY DisableReturns\n",
             "restart of the connection thread by the close handling vs disable(): nothing connects once disable() has returned")):
        rl = tlc.run(spec, cfg_text=f"SPECIFICATION Spec\nCONSTANTS {consts}\n{props}", workdir=wd, what=spec + "_fixed", timeout=900, deadlock=False)
        tlc.require_ok(rl, spec)
        ctx.add_tlc(rl, f"{spec}: {what}")
        for k, wc in enumerate(wit):
            rlw = tlc.run(spec, cfg_text=f"SPECIFICATION Spec\nCONSTANTS {wc}\n{props}", workdir=wd, what=f"{spec}_orig{k}", timeout=900, deadlock=False, expect_error=True)
            ctx.add_tlc(rlw, f"{spec}: regression witness ({wc.replace(chr(10), ',')}) -- TLC must refute it")
            if rlw.error_kind not in ("property", "invariant"):
                raise Machinery(f"{spec} regression witness {wc!r} no longer fails")
    # ---- Leg R/V
    items = []
    tid = 0
    rng = random.Random(ctx.seed + 9)
    for name, frames in streams().items():
        total = sum(len(f) for f in frames)
        offs = list(range(0, total + 1))
        if name == "data_big":
            offs = [0, 1, 3, 4, 5, 13, 14, 15, 100, total - 1, total]
        if name == "lt_burst":
            offs = [14 * 17, 14 * 18 + 3, total - 5, total]
        for cut in offs:
            for sel in (False, True):
                for fault in ("peerclose", "disable", "reconnect"):
                    for chunk in (["one"] if ctx.quick and name != "lt" else ["one", "rand"]):
                        tid += 1
                        items.append({"id": tid, "stream": name, "cut": cut, "sel": sel, "fault": fault, "chunk": chunk})
    # complete requests, the peer closing right behind the last byte, then reconnect + select + a data message
    for name, frames in streams().items():
        if name in ("data_big", "lt_burst"):
            continue
        bounds, acc = [], 0
        for fb in frames:
            acc += len(fb)
            bounds.append(acc)
        for cut in bounds:
            for sel in (False, True):
                for rep in range(2 if ctx.quick else 8):
                    tid += 1
                    items.append({"id": tid, "stream": name, "cut": cut, "sel": sel, "fault": "reconnect", "chunk": "one", "fast": True})
    jobs = []
    pols = ["fifo", "pct", "random"] if not ctx.quick else ["fifo", "pct"]
    for pi, pol in enumerate(pols):
        for b, ch in enumerate(chunks(items, 14)):
            jobs.append((b, ch, ctx.seed * 1000 + pi * 100000, pol))
    recs = [r for batch in pmap(run_batch, jobs) for r in batch]
    for i, rcd in enumerate(recs, start=1):
        rcd["scenario"] = rcd["id"]
        rcd["id"] = i
    f = wd / "close_traces.json"
    keys = ("id", "fault", "sel", "ev", "closed", "idle", "cs", "rxlen", "returned", "reqs", "rsps", "resel", "redlv")
    f.write_text(json.dumps([{k: r_.get(k, False if k in ("closed", "returned", "resel", "redlv") else ([] if k == "ev" else 0))
                              for k in keys} for r_ in recs]))
    rj = tlc.run("CloseJudge", cfg_text="", workdir=wd, workers=1, env={"TRACE_FILE": str(f)}, what="judge", coverage=False,
                 timeout=1800)
    tlc.require_ok(rj, "CloseJudge")
    verd = {v["id"]: v for v in rj.tagged("V")}
    if len(verd) != len(recs):
        raise Machinery(f"CloseJudge: {len(verd)} verdicts for {len(recs)} records")
    ctx.traces += len(recs)
    ctx.evaluations += len(recs)
    ctx.nontrivial += len({(r_["stream"], r_["cut"], r_["sel"], r_["fault"]) for r_ in recs})
    ctx.exhaustive = False
    for r_ in recs:
        v = verd[r_["id"]]
        if r_["id"] in (5, 200):
            ctx.sample({k: r_[k] for k in ("stream", "cut", "sel", "fault", "ev", "closed", "cs", "returned", "sched")})
        if v["clause"] != "ok":
            frames = streams()[r_["stream"]]
            inside = "boundary"
            pos = 0
            for fb in frames:
                if pos < r_["cut"] < pos + len(fb):
                    off = r_["cut"] - pos
                    inside = "length" if off < 4 else ("header" if off < 14 else "body")
                pos += len(fb)
            ctx.violation({"check": "close", "clause": v["clause"], "stream": r_["stream"], "cut": r_["cut"], "cut_in": inside,
                           "sel": r_["sel"], "fault": r_["fault"], "chunk": r_["chunk"], "record": r_,
                           "what": f"{v['clause']}: stream {r_['stream']} cut at byte {r_['cut']} ({inside}), "
                                   f"{'SELECTED' if r_['sel'] else 'NOT SELECTED'}, fault {r_['fault']}; idle={r_.get('idle')}"})
    # ---- sends in flight when the peer goes away: the close sequence must still finish (hand-over model: SendHandover)
    from . import c10, sendq_model
    sendq_model.check(ctx, wd, "close")
    mitems = [it for it in c10.multi_items(random.Random(ctx.seed + 909), 48 if ctx.quick else 480, 1) if it["stop_at"] is not None]
    mrecs = [r_ for batch in pmap(c10.run_proto_multi_batch, chunks(mitems, 4)) for r_ in batch]
    for r_ in mrecs:
        if r_.get("errors") and "Machinery" in str(r_["errors"]):
            raise Machinery(str(r_["errors"]))
    ctx.traces += len(mrecs)
    ctx.evaluations += len(mrecs)
    ctx.extra["peer_left_with_sends_in_flight"] = len(mrecs)
    sendq_model.validate(ctx, wd, [r_ for r_ in mrecs if r_["outcome"] == "done" and not r_.get("errors")], "c09")
    shown = 0
    for r_ in mrecs:
        clause = None
        if r_.get("state_after_peer_close") not in (None, "NOT_CONNECTED") or (r_["outcome"] != "done" and "state_after_peer_close" not in r_):
            clause = "link-loss-not-NOT_CONNECTED"
        elif r_["outcome"] != "done" or not r_.get("disable_returned", False):
            clause = "disable-did-not-return"
        if clause and shown < 8:
            shown += 1
            ctx.violation({"check": "sends-in-flight", "clause": clause, "senders": len(r_["bodies"]), "bodies": r_["bodies"], "then": r_["then"],
                           "sched": [r_["seed"], r_["policy"], r_.get("lag")], "state": r_.get("state_after_peer_close"), "blocked": r_.get("blocked"),
                           "outcome": r_["outcome"],
                           "what": f"{len(r_['bodies'])} thread(s) sending {r_['bodies']} bytes, {r_['then']}: {clause} "
                                   f"(session {r_.get('state_after_peer_close')}, run {r_['outcome']}); blocked: {(r_.get('blocked') or [])[:2]}"})
    # ---- the real TcpServerConnection / TcpClientConnection lifecycle on the simulated socket layer
    titems = []
    tid = 0
    for side in ("server", "client"):
        for name, script in TCP_SCRIPTS.items():
            for pol in (["fifo", "pct", "pct", "random"] if ctx.quick else ["fifo"] + ["pct"] * 12 + ["random"] * 4):
                tid += 1
                titems.append({"id": tid, "side": side, "name": name, "script": script, "policy": pol, "wait": rng.choice([0.3, 1.0, 11.0]),
                               "gap": rng.choice([0, 0, 0.001, 0.003, 0.01, 0.25]), "seed": rng.randrange(1 << 30)})
    # the same "at once" scenarios with the connection's receiver thread descheduled between the statements of its close handling
    for side in ("server", "client"):
        for name, script in TCP_SCRIPTS.items():
            if "at-once" in name and "peer_close_fast" in script:
                for k in range(6 if ctx.quick else 40):
                    tid += 1
                    titems.append({"id": tid, "side": side, "name": name, "script": script, "policy": ["random", "fifo", "pct"][k % 3], "wait": 0.3,
                                   "gap": rng.choice([0, 0.001, 0.003, 0.01, 0.05]), "seed": rng.randrange(1 << 30), "lag": True})
    # the client is disabled for good while its close handling runs (fix 8a4dcbb: a connection thread started behind disable()'s back)
    name = "loss-and-disable-at-once-then-stay-disabled"
    for k in range(36 if ctx.quick else 240):
        tid += 1
        titems.append({"id": tid, "side": "client", "name": name, "script": TCP_SCRIPTS[name], "policy": ["random", "fifo", "pct"][k % 3], "wait": 0.3,
                       "gap": rng.choice([0, 0.001, 0.003, 0.01, 0.05]), "seed": rng.randrange(1 << 30)})
    trecs = [r_ for batch in pmap(run_tcp_batch, chunks(titems, 28)) for r_ in batch]
    ctx.traces += len(trecs)
    ctx.evaluations += len(trecs)
    for r_ in trecs:
        if not r_["ok"]:
            ctx.violation({"check": "tcp-lifecycle", "clause": r_["clause"], "side": r_["side"], "scenario": r_["name"], "policy": r_["policy"],
                           "steps_done": r_["steps"], "blocked": r_.get("blocked"), "thread_errors": r_["thread_errors"],
                           "sched_seed": r_["seed"], "receiver_thread_lag": bool(r_.get("lag")), "connected_at_disable": "connect" in r_["steps"] and "peer_close" not in r_["steps"][-2:],
                           "what": f"{r_['side']} {r_['name']} ({r_['policy']}): {r_['clause']} after {r_['steps']}; thread errors {r_['thread_errors'][:1]}"})
    ctx.extra["tcp_lifecycle_runs"] = len(trecs)
    ctx.extra["observation_listening_again_after_disable"] = sum(1 for r_ in trecs if r_.get("listening_after_disable"))
    ctx.rule = ("every byte offset of 4 inbound streams x {NOT SELECTED, SELECTED} x {peer close, disable(), close+reconnect+select} "
                "x chunking x thread schedule policy on the real endpoint; non-trivial = distinct (stream, cut, state, fault)")
    ctx.assumptions += ["FakeConnection mirrors TcpConnection's close sequence (on_disconnecting -> close -> on_disconnected on "
                        "the connection's own thread, disconnect() waiting for it)",
                        "the real Tcp*Connection enable/disable stop-flag handshakes are covered by the simsocket scenarios"]
    return ctx.finish()
