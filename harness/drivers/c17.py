"""C17 -- the SECS-I line protocol delivers accepted messages intact, once; bad blocks are NAKed.

Leg M : TLC checks SecsILine (sender / receiver stations as coded, byte FIFOs with arbitrary chunking): handshake order,
        success => delivered, NAK => not delivered, termination without fault and with a corrupted payload byte; the
        variant with a corrupted length byte is kept as witness of the known non-termination (no T1/T2 timers).
Leg V : two real SecsIProtocol stations (host and equipment, both directions) joined by an in-memory line under simrt; the
        driver moves the bytes in random chunks (single bytes to whole blocks), optionally alters one byte of one block on the
        line; message sizes 0 / 1 / 244 / 245 / 600 bytes. The order of writes on the line, the send result and what the
        receiver delivered are validated by TLC against the reference blocks (SecsILineJudge over SecsIBlock).
"""
from __future__ import annotations

import json
import random

from .. import simrt, tlc
from ..common import Ctx, Machinery, chunks, pmap, workdir

PID = "C17"


def pattern(n):
    return bytes((i * 11 + 5) % 253 for i in range(1, n + 1))


def run_batch(job):
    import logging
    logging.disable(logging.CRITICAL)
    simrt.install()
    return [r_ for it in job for r_ in run_one(it)]


def run_one(it):
    """One pair of stations, one long-lived line; the messages it["seq"] = [(n, header), ...] (default: the single message
    (it["n"], it["h"])) are transferred one after another.  Returns one record per message."""
    seq = it.get("seq") or [(it["n"], it["h"])]
    recs = []
    for qi, (n_, h_) in enumerate(seq):
        r0 = dict(it)
        r0.pop("seq", None)
        r0.update({"id": it["id"] + qi, "n": n_, "h": h_, "seq_pos": qi, "seq_len": len(seq), "writes": [], "delivered": [], "result": "none",
                   "wedged": False, "length_increased": False, "lenbyte": bool(it["corrupt"] and it["pos"] == 0)})
        recs.append(r0)
    cur = {"rec": recs[0]}
    rec = recs[0]

    def main(s):
        import secsgem.common
        import secsgem.secsi
        from secsgem.secsi.header import SecsIHeader
        from secsgem.secsi.message import SecsIMessage
        from ..link import FakeConnection, Link

        class St(secsgem.secsi.SecsISettings):
            def __init__(self, lk, **kw):
                super().__init__(**kw)
                self._lk = lk

            def create_connection(self):
                return FakeConnection(self, self._lk)

        rng = random.Random(it["seed"])
        lh, le = Link("host"), Link("equipment")
        host = secsgem.secsi.SecsIProtocol(St(lh, port="A", device_type=secsgem.common.DeviceType.HOST))
        eqp = secsgem.secsi.SecsIProtocol(St(le, port="B", device_type=secsgem.common.DeviceType.EQUIPMENT))
        snd, rcv = (host, eqp) if it["dir"] == "h2e" else (eqp, host)
        ls, lr = (lh, le) if it["dir"] == "h2e" else (le, lh)
        pend = {"S": bytearray(), "R": bytearray()}
        sent_count = {"S": 0}
        ls.on_send_hook = lambda d: (cur["rec"]["writes"].append({"who": "S", "bytes": list(d)}), pend["S"].extend(d))
        lr.on_send_hook = lambda d: (cur["rec"]["writes"].append({"who": "R", "bytes": list(d)}), pend["R"].extend(d))

        def on_msg(d):
            m = d["message"]
            h = m.header
            cur["rec"]["delivered"].append({"h": {"r": h.from_equipment, "dev": h.device_id, "w": h.require_response, "s": h.stream,
                                           "f": h.function, "sys": list(h.system.to_bytes(4, "big"))},
                                     "n": len(m.data), "same": bytes(m.data) == (bytes.fromhex(cur["rec"]["bodyhex"]) if cur["rec"].get("bodyhex") else pattern(len(m.data)))})

        rcv.events.message_received += on_msg
        host.enable()
        eqp.enable()
        lh.connect()
        le.connect()
        s.settle()
        def transfer(rec_m):
            sent_count["S"] = 0
            h = rec_m["h"]
            hdr = SecsIHeader(int.from_bytes(bytes(h["sys"]), "big"), h["dev"], h["s"], h["f"], 0, h["r"], h["w"], True)
            msg = SecsIMessage(hdr, bytes.fromhex(rec_m["bodyhex"]) if rec_m.get("bodyhex") else pattern(rec_m["n"]))
            done = {"v": False}

            def do_send():
                rec_m["result"] = bool(snd.send_message(msg))
                done["v"] = True

            th = simrt.Thread(target=do_send, name="sender_app")
            th.start()
            # the line: move bytes in chunks; corrupt one byte of the chosen block on its way to the receiver
            blocks = [bytes(b.encode()) for b in msg.blocks]
            block_no = 0        # which block the sender is currently transmitting
            moved_in_block = 0
            idle = 0
            while idle < 3 and not (done["v"] and not pend["S"] and not pend["R"]):
                s.settle()
                moved = False
                for who, dst in (("S", lr), ("R", ls)):
                    buf = pend[who]
                    if not buf:
                        continue
                    k = len(buf) if it["chunk"] == "whole" else (1 if it["chunk"] == "byte" else rng.choice([1, 2, 3, 5, 11, 64, len(buf)]))
                    k = min(k, len(buf))
                    chunk = bytearray(buf[:k])
                    del buf[:k]
                    if who == "S":
                        # track position inside the block stream to apply the corruption
                        for j in range(len(chunk)):
                            pos = sent_count["S"]
                            sent_count["S"] += 1
                            if it["corrupt"] and pos == it.get("_corrupt_abs", -1):
                                chunk[j] = (chunk[j] ^ it["delta"]) if it.get("op") == "xor" else (chunk[j] + it["delta"]) % 256
                    dst.feed(bytes(chunk))
                    moved = True
                idle = 0 if moved else idle + 1
            ok, why = s.run_until(lambda: done["v"], max_dt=50)
            if not ok:
                rec_m["wedged"] = True
                rec_m["blocked"] = [b["thread"] + ":" + "/".join(b["stack"][-2:]) for b in s.blocked_report()][:6]
                return True
            return False

        for rec_m in recs:
            cur["rec"] = rec_m
            if transfer(rec_m):
                break

    # absolute offset (in the sender->receiver byte stream) of the byte to corrupt: ENQ bytes count too
    if it["corrupt"] and not it.get("seq"):
        # reference block layout (E4): data blocks of 244 bytes; a block is length byte + 10 header bytes + data + 2 checksum bytes
        n = it["n"]
        dlens = [244] * (n // 244) + ([n % 244] if n % 244 or n == 0 else [])
        off = 0
        it["_corrupt_abs"] = -1
        for bi, dl in enumerate(dlens, start=1):
            off += 1  # ENQ
            if bi == it["corrupt"]:
                it["_corrupt_abs"] = off + it["pos"]
                lenbyte = 10 + dl
                rec["length_increased"] = it["pos"] == 0 and (lenbyte + it["delta"]) % 256 > lenbyte
                break
            off += 13 + dl
    s = simrt.run(main, seed=it["seed"], policy=it["policy"], switch_prob=0.3, max_vtime=1e6, wall_timeout=120)
    for r_ in recs:
        r_["outcome"] = s.outcome
        if s.outcome != "done" and r_["result"] == "none":
            r_["wedged"] = True
            r_["wedge"] = s.wedge_info
        if s.errors:
            r_["errors"] = [e[:2] for e in s.errors[:2]]
        r_.pop("_corrupt_abs", None)
    return recs


def run(ctx: Ctx):
    wd = workdir(PID)

    def cfg(mode, live):
        return (f"SPECIFICATION Spec\nCONSTANTS NB = 3\n BL = 4\n CorruptMode = \"{mode}\"\nINVARIANT HandshakeOrder\n"
                "INVARIANT SuccessMeansDelivered\nINVARIANT NakMeansNotDelivered\n" + "".join(f"PROPERTY {p}\n" for p in live))

    r1 = tlc.run("SecsILine", cfg_text=cfg("none", ["NoLossWithoutFault", "Terminates"]), workdir=wd, what="line", timeout=900)
    tlc.require_ok(r1, "SecsILine")
    tlc.require_covered(r1, ["DeliverAB", "DeliverBA", "SEnq", "SGotEot", "SGotAck", "RTakeEnq", "RLen", "RRest"])
    ctx.add_tlc(r1, "line protocol as coded, all chunkings, no fault: safety + delivery + termination")
    r2 = tlc.run("SecsILine", cfg_text=cfg("payload", ["Terminates"]), workdir=wd, what="line_payload", timeout=900)
    tlc.require_ok(r2, "SecsILine payload corruption")
    tlc.require_covered(r2, ["Corrupt"])
    ctx.add_tlc(r2, "one payload unit of one block corrupted at any moment: NAK, not delivered, sender fails, terminates")
    r3 = tlc.run("SecsILine", cfg_text=cfg("length", ["Terminates"]), workdir=wd, what="line_length", timeout=900, expect_error=True)
    ctx.add_tlc(r3, "witness of known finding: a length byte corrupted upwards makes the receiver wait forever (no T1/T2)")
    ctx.extra["model_length_corruption_nonterminating"] = r3.error_kind == "property"
    rng = random.Random(ctx.seed + 17)
    items = []
    tid = 0
    hs = [{"r": False, "dev": 5, "w": True, "s": 1, "f": 1, "sys": [0, 0, 16, 1]},
          {"r": True, "dev": 32767, "w": False, "s": 127, "f": 255, "sys": [255, 255, 255, 255]}]
    sizes = [0, 1, 244, 245, 600]
    for d in ("h2e", "e2h"):
        for n in sizes:
            for chunk in ("whole", "byte", "rand"):
                for h in hs:
                    h = dict(h, r=(d == "e2h"))
                    tid += 1
                    items.append({"id": tid, "dir": d, "n": n, "h": h, "chunk": chunk, "corrupt": 0, "pos": 0, "delta": 0,
                                  "seed": rng.randrange(1 << 30), "policy": rng.choice(["fifo", "random", "pct"])})
    # one long-lived line, several messages one after another, system bytes reused (a later transaction may carry the
    # system bytes of an earlier one; nothing of the earlier message may show up in the later)
    hA, hB = hs[0], dict(hs[0], sys=[0, 0, 16, 2], s=6, f=11)
    for d in ("h2e", "e2h"):
        for sizes_, hdrs in (([600, 5, 245, 0], [hA, hA, hA, hA]), ([245, 244, 600, 1], [hA, hB, hA, hA]), ([1, 600, 600], [hB, hB, hB])):
            for chunk in ("whole", "byte", "rand"):
                tid += 1
                items.append({"id": tid, "dir": d, "n": sizes_[0], "h": dict(hdrs[0], r=(d == "e2h")), "chunk": chunk, "corrupt": 0, "pos": 0,
                              "delta": 0, "seed": rng.randrange(1 << 30), "policy": rng.choice(["fifo", "random", "pct"]),
                              "seq": [(n_, dict(h_, r=(d == "e2h"))) for n_, h_ in zip(sizes_, hdrs)]})
                tid += len(sizes_) - 1
    # bodies that are no complete SECS-II item (cut inside an item header, a list announcing more than follows, more elements than
    # the function defines): the line protocol carries bytes, what they mean is the application's business
    for d in ("h2e", "e2h"):
        for sfn, fn, w, bodyhex in ((1, 13, True, "01"), (1, 13, True, "0102"), (1, 13, True, "010241"), (1, 3, True, "0103a901"), (6, 11, True, "0103"),
                                    (12, 8, False, "13"), (10, 3, False, "0103a50101a50102a50103"), (1, 1, True, "41")):
            tid += 1
            items.append({"id": tid, "dir": d, "n": len(bodyhex) // 2, "bodyhex": bodyhex, "h": dict(hs[0], s=sfn, f=fn, w=w, r=(d == "e2h")),
                          "chunk": rng.choice(["whole", "byte", "rand"]), "corrupt": 0, "pos": 0, "delta": 0, "seed": rng.randrange(1 << 30),
                          "policy": rng.choice(["fifo", "random"])})
    # corruptions: every position of a short block, sampled positions of long ones
    for d in ("h2e", "e2h"):
        for n, blkno in ((0, 1), (1, 1), (244, 1), (245, 2), (600, 2), (600, 3)):
            nblocks = max(1, -(-n // 244))
            blen = 13 + (n - (blkno - 1) * 244 if blkno == nblocks else 244)
            if n <= 1:
                poss = list(range(blen))
            else:
                poss = sorted(set([0, 1, 2, 10, 11, blen - 3, blen - 2, blen - 1] + [rng.randrange(blen) for _ in range(4 if ctx.quick else 25)]))
            for pos in poss:
                for delta in ((1, 128) if pos != 0 else (1, 255, 3)):
                    tid += 1
                    items.append({"id": tid, "dir": d, "n": n, "h": dict(hs[0], r=(d == "e2h")), "chunk": rng.choice(["whole", "byte", "rand"]),
                                  "corrupt": blkno, "pos": pos, "delta": delta, "seed": rng.randrange(1 << 30),
                                  "policy": rng.choice(["fifo", "random"])})
    # every single-bit flip of every header byte (R-bit / device id, W-bit / stream, function, E-bit / block number, system bytes)
    for d in ("h2e", "e2h"):
        for n, blkno in ((1, 1), (600, 2)):
            for pos in range(1, 11):
                for bit in range(8):
                    tid += 1
                    items.append({"id": tid, "dir": d, "n": n, "h": dict(hs[0], r=(d == "e2h")), "chunk": rng.choice(["whole", "rand"]),
                                  "corrupt": blkno, "pos": pos, "delta": 1 << bit, "op": "xor", "seed": rng.randrange(1 << 30), "policy": "fifo"})
    recs = [r_ for batch in pmap(run_batch, chunks(items, 28)) for r_ in batch]
    bad = [r_ for r_ in recs if r_.get("errors")]
    for r_ in bad[:2]:
        raise Machinery(f"line run error {r_['errors']}")
    f = wd / "line_traces.json"
    f.write_text(json.dumps([dict({k: r_[k] for k in ("id", "h", "n", "writes", "corrupt", "result", "delivered", "wedged", "lenbyte")},
                                  custom=bool(r_.get("bodyhex")), body=list(bytes.fromhex(r_.get("bodyhex") or ""))) for r_ in recs]))
    rj = tlc.run("SecsILineJudge", cfg_text="", workdir=wd, workers=1, env={"TRACE_FILE": str(f)}, what="judge", coverage=False,
                 timeout=1800, heap="12g")
    tlc.require_ok(rj, "SecsILineJudge")
    verd = {v["id"]: v for v in rj.tagged("V")}
    if len(verd) != len(recs):
        raise Machinery(f"judge: {len(verd)} verdicts for {len(recs)}")
    ctx.traces += len(recs)
    ctx.evaluations += len(recs)
    ctx.nontrivial += len({(r_["dir"], r_["n"], r_["chunk"], r_["corrupt"], r_["pos"], r_["delta"]) for r_ in recs})
    for r_ in recs:
        v = verd[r_["id"]]
        if r_["id"] in (2, 60):
            ctx.sample({k: r_[k] for k in ("dir", "n", "chunk", "corrupt", "pos", "delta", "result", "delivered")}
                       | {"writes": [(w["who"], bytes(w["bytes"][:6]).hex()) for w in r_["writes"][:10]]})
        if v["clause"] != "ok":
            region = "none"
            if r_["corrupt"]:
                blen_known = len(r_["writes"][2]["bytes"]) if len(r_["writes"]) > 2 else 0
                region = "length" if r_["pos"] == 0 else "header" if r_["pos"] <= 10 else "data-or-checksum"
            ctx.violation({"check": "line", "clause": v["clause"], "dir": r_["dir"], "n": r_["n"], "chunk": r_["chunk"],
                           "position_in_sequence": [r_.get("seq_pos", 0), r_.get("seq_len", 1)],
                           "corrupt_block": r_["corrupt"], "corrupt_pos": r_["pos"], "delta": r_["delta"], "corrupt_region": region,
                           "length_increased": r_["length_increased"],
                           "result": r_["result"], "delivered": r_["delivered"], "blocked": r_.get("blocked"),
                           "writes": [(w["who"], bytes(w["bytes"][:8]).hex(), len(w["bytes"])) for w in r_["writes"][:14]],
                           "what": f"{r_['dir']} body {r_['n']} chunk={r_['chunk']} corrupt=block {r_['corrupt']} byte {r_['pos']} "
                                   f"(+{r_['delta']}): {v['clause']}"})
    # every received block goes through the protocol dispatcher's trigger-driven loops before it is delivered: their operations in
    # 30 (300) runs are validated against DispatcherLoops (model checked in C04): an ACKed block may not sit in the queue unnoticed
    from . import c04_trace
    c04_trace.check(ctx, wd, pmap, only_plain=True)
    from . import c17_txn
    c17_txn.check(ctx, wd, pmap)
    ctx.rule = ("transfers = 2 directions x body sizes {0,1,244,245,600} x chunking {whole blocks, single bytes, random} x 2 headers "
                "without fault + sequences of 3-4 messages on one long-lived line with reused system bytes + one-byte corruptions (every position of short blocks, boundary + sampled positions of long ones, two "
                "deltas, every single-bit flip of every header byte) under fifo/random/PCT schedules; judged against reference blocks computed by TLC")
    ctx.assumptions += ["only one side transmits at a time (premise of the property); no contention scenarios",
                        "FakeConnection stands for the serial connection (bytes in, bytes out)"]
    return ctx.finish()
