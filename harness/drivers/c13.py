"""C13 -- status variables, equipment constants and alarms answer as a reference model predicts.

Leg M : TLC checks GemData (monitor GemDataMon): ConstantsWithinBounds, AllOrNothing, AlarmReportIffEnabledChange,
        ReadsChangeNothing over all histories.
Leg R : walks covering the monitor's transition relation (thorough: complete; quick: random walks over the 121-request
        alphabet) on a real GemEquipmentHandler with user defined SVs / ECs / alarms of numeric and text ids.
Leg V : replies (decoded by the harness' own E5 decoder), S5F1 reports and the constant / alarm tables after every step
        are validated by TLC (GemDataJudge, subset construction).
"""
from __future__ import annotations

import json
import random

from .. import e5, graph, hsmsrun, simrt, tlc
from ..common import Ctx, Machinery, chunks, pmap, workdir

PID = "C13"
SVID = {"sv1": 10, "sv2": "SVT", "svu": 999}
ECID = {"ec1": 30, "ec2": "ECT", "ecp": 1, "ecc": 31, "ecu": 999}
ALID = {"al1": 40, "al2": 41, "alu": 999}
SVN = {v: k for k, v in SVID.items()}
ECN = {v: k for k, v in ECID.items()}
ALN = {v: k for k, v in ALID.items()}
NPRE, NPREEC = 5, 2


def handler_class():
    """An equipment whose constant 31 is served by the application (the documented override points)."""
    import secsgem.gem

    class Eq(secsgem.gem.GemEquipmentHandler):
        def __init__(self, *a, **k):
            super().__init__(*a, **k)
            self.app_store = {31: 5}

        def on_ec_value_request(self, equipment_constant_id, equipment_constant):
            if equipment_constant.ecid in self.app_store:
                return equipment_constant.value_type(self.app_store[equipment_constant.ecid])
            return super().on_ec_value_request(equipment_constant_id, equipment_constant)

        def on_ec_value_update(self, equipment_constant_id, equipment_constant, value):
            if equipment_constant.ecid in self.app_store:
                self.app_store[equipment_constant.ecid] = int(value)
                return
            super().on_ec_value_update(equipment_constant_id, equipment_constant, value)

    return Eq


def ident(x):
    return e5.U4(x) if isinstance(x, int) else e5.A(x)


def setup(h):
    import secsgem.gem
    import secsgem.secs.variables as var

    h.status_variables.update({10: secsgem.gem.StatusVariable(10, "sv one", "u", var.U4, False),
                               "SVT": secsgem.gem.StatusVariable("SVT", "sv two", "u", var.U4, False)})
    h.equipment_constants.update({30: secsgem.gem.EquipmentConstant(30, "ec one", 0, 10, 5, "u", var.I4, False),
                                  "ECT": secsgem.gem.EquipmentConstant("ECT", "ec two", 0, None, 5, "u", var.I4, False),
                                  31: secsgem.gem.EquipmentConstant(31, "ec app", None, 10, 5, "u", var.I4, True)})
    h.alarms.update({40: secsgem.gem.Alarm(40, "al one", "text1", 1, 140, 141),
                     41: secsgem.gem.Alarm(41, "al two", "text2", 2, 142, 143)})


def val_el(item):
    fmt, v = item
    if len(v) == 0:
        return {"a": "val", "b": "empty"}
    p = e5.plain(item)
    return {"a": "val", "b": str(p)}


def run_batch(job):
    bid, items, seed = job
    hsmsrun.quiet_logging()
    simrt.install()
    return [run_walk(tid, inputs, seed) for tid, inputs in items]


def run_walk(tid, inputs, seed):
    rec = {"id": tid, "steps": []}

    def main(s):
        import secsgem.common
        ep = hsmsrun.Ep(mode="passive", kind="equipment", device_type=secsgem.common.DeviceType.EQUIPMENT, handler_cls=handler_class(),
                        settings={"establish_communication_timeout": 30})
        h = ep.handler
        setup(h)
        if not hsmsrun.establish(s, ep):
            raise Machinery("could not establish communication")

        def ask(sfn, fn, body):
            sysid = ep.fresh_sys()
            ep.link.feed(hsmsrun.data_frame(sfn, fn, True, sysid, body))
            s.settle()
            rep = None
            for f in ep.link.take_frames():
                if f.get("stype") == 0 and f["system"] == sysid:
                    rep = f
            return rep

        for inp in inputs:
            k = inp["k"]
            obs = {"reply": [], "s5f1": []}
            if k in ("ReadSV", "ListSV", "ReadEC", "ListEC"):
                idmap = SVID if k.endswith("SV") else ECID
                names = SVN if k.endswith("SV") else ECN
                npre = NPRE if k.endswith("SV") else NPREEC
                sfn, fn = {"ReadSV": (1, 3), "ListSV": (1, 11), "ReadEC": (2, 13), "ListEC": (2, 29)}[k]
                rep = ask(sfn, fn, e5.encode(e5.L(*[ident(idmap[x]) for x in inp["ids"]])))
                if rep is None or rep["f"] != fn + 1:
                    obs["reply"] = [{"a": "abort", "b": ""}]
                else:
                    item = e5.decode_all(rep["body"])
                    els = []
                    for n, it in enumerate(item[1]):
                        if not inp["ids"] and n < npre:
                            els.append({"a": "*", "b": "*"})
                        elif k.startswith("Read"):
                            els.append(val_el(it))
                        else:
                            p = e5.plain(it)
                            els.append({"a": names.get(p[0], f"?{p[0]}"), "b": "known" if p[1] != "" else "unknown"})
                    obs["reply"] = els
            elif k == "ReadAlarmSVs":
                rep = ask(1, 3, e5.encode(e5.L(e5.U4(1004), e5.U4(1005))))
                if rep is None or rep["f"] != 4:
                    obs["reply"] = [{"a": "abort", "b": ""}]
                else:
                    vals = [e5.plain(it) for it in e5.decode_all(rep["body"])[1]]
                    vals = [v if isinstance(v, list) else ([] if v in ("", b"", None) else [v]) for v in vals]
                    obs["reply"] = [{"a": nm, "b": ",".join(sorted(ALN.get(x, f"?{x}") for x in v)) or "none"}
                                    for nm, v in zip(("enabled", "set"), vals)]
            elif k == "SetEC":
                rep = ask(2, 15, e5.encode(e5.L(*[e5.L(ident(ECID[p["e"]]), ("I4", [p["x"]])) for p in inp["ps"]])))
                obs["reply"] = [{"a": "ack", "b": str(e5.plain(e5.decode_all(rep["body"])))}] if rep and rep["f"] == 16 \
                    else [{"a": "abort", "b": ""}]
            elif k == "AlarmEnable":
                rep = ask(5, 3, e5.encode(e5.L(e5.B(0x80 if inp["en"] else 0), e5.U4(ALID[inp["a"]]))))
                if rep and rep["f"] == 4:
                    a = e5.plain(e5.decode_all(rep["body"]))
                    obs["reply"] = [{"a": "ack", "b": "0" if a == 0 else "nonzero"}]
                else:
                    obs["reply"] = [{"a": "abort", "b": ""}]
            elif k in ("ListAlarms", "ListEnabled"):
                if k == "ListAlarms":
                    rep = ask(5, 5, e5.encode(e5.L(*[e5.U4(ALID[x]) for x in inp["ids"]])))
                    want = 6
                else:
                    rep = ask(5, 7, b"")
                    want = 8
                if rep is None or rep["f"] != want:
                    obs["reply"] = [{"a": "abort", "b": ""}]
                else:
                    obs["reply"] = [{"a": ALN.get(p[1], f"?{p[1]}"), "b": "set" if (p[0] & 0x80) else "clear"}
                                    for p in e5.plain(e5.decode_all(rep["body"]))]
            elif k == "SetAlarm":
                done = {"v": False}

                def op(inp=inp, done=done):
                    (h.set_alarm if inp["on"] else h.clear_alarm)(ALID[inp["a"]])
                    done["v"] = True

                th = simrt.Thread(target=op, name="alarm_op")
                th.start()
                s.settle()
                for _ in range(4):
                    acted = False
                    for f in ep.link.take_frames():
                        if f.get("stype") == 0 and f["s"] == 5 and f["f"] == 1:
                            p = e5.plain(e5.decode_all(f["body"]))
                            obs["s5f1"].append({"a": ALN.get(p[1], f"?{p[1]}"), "b": "set" if (p[0] & 0x80) else "clear"})
                            if inp.get("rsp", True):
                                ep.link.feed(hsmsrun.data_frame(5, 2, False, f["system"], e5.encode(e5.B(0))))
                                acted = True
                    s.settle()
                    if not acted:
                        break
                ok, why = s.run_until(lambda: done["v"], max_dt=100)
                if not ok:
                    raise Machinery(f"set/clear alarm did not return: {why}")
            elif k == "UpdateSV":
                h.status_variables[SVID[inp["v"]]].value = inp["x"]
            else:
                raise ValueError(k)
            obs["ec"] = {"ec1": h.equipment_constants[30].value, "ec2": h.equipment_constants["ECT"].value,
                         "ecp": h.settings.establish_communication_timeout, "ecc": h.app_store[31]}
            obs["al"] = {n: {"en": bool(h.alarms[i].enabled), "set": bool(h.alarms[i].set)} for n, i in (("al1", 40), ("al2", 41))}
            rec["steps"].append({"inp": inp, "obs": obs})

    s = simrt.run(main, seed=seed, policy="fifo", max_vtime=1e7, wall_timeout=300)
    rec["outcome"] = s.outcome
    if s.errors:
        rec["errors"] = [e[:2] for e in s.errors[:3]]
    return rec


def run(ctx: Ctx):
    wd = workdir(PID)
    cfg = ("SPECIFICATION Spec\nVIEW View\nINVARIANT ConstantsWithinBounds\nPROPERTY AllOrNothing\n"
           "PROPERTY AlarmReportIffEnabledChange\nPROPERTY ReadsChangeNothing\nPROPERTY SetListsAgree\n")
    # the relation grew to 4.4 M transitions (4 constants x alarms x variables): dumping and covering it edge by edge no longer fits in
    # memory; the thorough tier model-checks the same relation and replays 10x more and longer random walks instead
    dump = False
    r = tlc.run("GemData", cfg_text=cfg + ("ACTION_CONSTRAINT Dump\n" if dump else ""), workdir=wd,
                workers=1 if dump else 16, what="gen", coverage=not dump, timeout=3600, heap="12g")
    tlc.require_ok(r, "GemData")
    ctx.add_tlc(r, "SV/EC/alarm monitor: all histories; invariants + action properties")
    rng = random.Random(ctx.seed + 13)
    walks = []
    if dump:
        edges = r.tagged("TR")
        inits = [e["from"] for e in edges[:1]]
        g = graph.Graph(edges, inits=inits)
        walks += [[e["inp"] for e in p] for p in g.merged_cover(max_len=80, rng=rng)]
        ctx.extra["relation_edges"] = len(edges)
        alphabet = list({json.dumps(e["inp"], sort_keys=True): e["inp"] for e in edges}.values())
    else:
        wdm = wd / "GemDataInputs.tla"
        wdm.write_text("---- MODULE GemDataInputs ----\nEXTENDS GemDataMon, Json\n"
                       "ASSUME \\A i \\in Inputs : PrintT(<<\"IN\", ToJson(i)>>)\n====\n")
        ri = tlc.run(wdm, cfg_text="", workdir=wd, workers=1, what="inputs", coverage=False)
        alphabet = ri.tagged("IN")
    if len(alphabet) < 100:
        raise Machinery(f"alphabet too small: {len(alphabet)}")
    changers = [i for i in alphabet if i["k"] in ("SetEC", "AlarmEnable", "SetAlarm", "UpdateSV")]
    for _ in range(300 if ctx.quick else 3000):
        walks.append([rng.choice(changers) if rng.random() < 0.45 else rng.choice(alphabet) for _ in range(40 if ctx.quick else 60)])
    # every history of 4 (thorough: 5) enable / disable / set / clear operations on one alarm (reports depend on what was enabled at the
    # moment of each change, not on what happened before)
    import itertools
    for al in ("al1", "al2"):
        ops = [{"k": "AlarmEnable", "a": al, "en": True}, {"k": "AlarmEnable", "a": al, "en": False},
               {"k": "SetAlarm", "a": al, "on": True, "rsp": True}, {"k": "SetAlarm", "a": al, "on": False, "rsp": True}]
        for seq in itertools.product(ops, repeat=4 if ctx.quick else 5):
            walks.append(list(seq) + [{"k": "ListAlarms", "ids": [al]}])
    jobs = [(b, ch, ctx.seed) for b, ch in enumerate(chunks(list(enumerate(walks, start=1)), 28))]
    recs = [r_ for batch in pmap(run_batch, jobs) for r_ in batch]
    for r_ in [r_ for r_ in recs if r_["outcome"] != "done" or r_.get("errors")][:3]:
        if "Machinery" in str(r_.get("errors")):
            raise Machinery(str(r_["errors"]))
        ctx.violation({"check": "gemdata", "clause": "run-did-not-finish", "what": f"run ended {r_['outcome']} {r_.get('errors')}",
                       "steps": r_["steps"][-3:]})
    recs = [r_ for r_ in recs if r_["outcome"] == "done" and not r_.get("errors")]
    f = wd / "traces.json"
    f.write_text(json.dumps([{"id": r_["id"], "steps": r_["steps"]} for r_ in recs]))
    rj = tlc.run("GemDataJudge", cfg_text="", workdir=wd, workers=1, env={"TRACE_FILE": str(f)}, what="judge", coverage=False,
                 timeout=3600, heap="12g")
    tlc.require_ok(rj, "GemDataJudge")
    verd = {v["id"]: v for v in rj.tagged("V")}
    if len(verd) != len(recs):
        raise Machinery(f"judge: {len(verd)} verdicts for {len(recs)} traces")
    ctx.traces += len(recs)
    ctx.evaluations += sum(len(r_["steps"]) for r_ in recs)
    ctx.nontrivial += len({json.dumps(st_, sort_keys=True) for r_ in recs for st_ in r_["steps"] if st_["obs"]["reply"] or st_["obs"]["s5f1"]})
    for r_ in recs:
        v = verd[r_["id"]]
        if r_["id"] == 3:
            ctx.sample({"steps": r_["steps"][:5]})
        if v["clause"] != "ok":
            st_ = r_["steps"][v["at"] - 1]
            ctx.violation({"check": "gemdata", "clause": v["clause"], "input": st_["inp"]["k"], "request": st_["inp"],
                           "observed": st_["obs"], "allowed": v["allowed"], "inputs": [s_["inp"] for s_ in r_["steps"][: v["at"]]][-6:],
                           "what": f"{json.dumps(st_['inp'])}: {v['clause']}; observed {json.dumps(st_['obs'])[:300]}"})
    from . import c13_clock
    c13_clock.check(ctx, wd, pmap)
    ctx.rule = ("histories = random walks of 40 requests over the monitor alphabet (121 requests: id lists incl. unknown/repeated/"
                "text ids, constants below/at/inside/above bounds, alarm enable/list/set/clear, value updates); thorough: 3000 walks of 60 "
                "requests; every history of 4 (5) enable / disable / set / clear operations on one alarm; non-trivial = distinct (request, observation) with content; "
                "predefined Clock variable: S1F3 at frozen equipment-clock instants (sub-second parts at and around every digit boundary, 5 dates) x TimeFormat 0/1/2 set through S2F15, each reply decided by ClockJudge")
    ctx.assumptions += ["in the history walks predefined SVs/ECs are masked except AlarmsEnabled / AlarmsSet and EstablishCommunicationsTimeout (Clock / TimeFormat: separate leg); 2 user SVs, "
                        "4 ECs (bounded, unbounded, predefined settings-backed, application-callback-backed), 2 alarms"]
    return ctx.finish()
