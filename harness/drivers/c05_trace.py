"""C05, leg T -- trace validation of the real HsmsProtocol against spec/HsmsEndpoint.tla.

TLC first checks HsmsEndpoint exhaustively (all interleavings of conn thread, receive path, dispatcher, select thread and
peer; both orderings the code depends on are kept as switchable defects that TLC must refute).  Then executions of the real
code are recorded with one event per shared-state access (sys.settrace on the functions that perform them, no hooks in the
repository) under fifo / random / PCT schedules with wake-up latency, and HsmsEndpointTrace decides whether each recorded
execution is a behaviour of the specification.
"""
from __future__ import annotations

import json
import random

from .. import hsmsrun, link, simrt, tlc
from ..common import Machinery

T6 = 5.0
CSN = {"NOT_CONNECTED": "NC", "CONNECTED": "NS", "CONNECTED_NOT_SELECTED": "NS", "CONNECTED_SELECTED": "SEL"}
TYPES = {0: "Data", 1: "SelReq", 2: "SelRsp", 7: "Reject"}


def model_check(ctx, wd):
    invs = ("INVARIANT TypeOK\nINVARIANT AnsweredSelectMeansSelected\nINVARIANT AcceptedSelectMeansSelected\nINVARIANT SelectCallSucceeds\n"
            "INVARIANT RefusedSelectStaysNotSelected\nINVARIANT EveryDataHandledOnce\nINVARIANT NoQueueLeak\nPROPERTY DeliverOnlySelected\n"
            "PROPERTY Settles\n")

    def cfg(active, sbr, qbs, script, extra=""):
        return (f"SPECIFICATION Spec\nCONSTANTS Active = {active}\n StateBeforeReceive = {sbr}\n QueueBeforeSend = {qbs}\n"
                f" PeerScript = {script}\n" + invs + extra)

    for active in ("FALSE", "TRUE"):
        for script in (0, 1, 2, 3):
            ns = "INVARIANT NothingSwallowed\n" if active == "FALSE" or script == 0 else ""
            r = tlc.run("HsmsEndpoint", cfg_text=cfg(active, "TRUE", "TRUE", script, ns), workdir=wd, what=f"endpoint_a{active[0]}_s{script}",
                        timeout=900, deadlock=False)
            tlc.require_ok(r, "HsmsEndpoint")
            if script == 3:
                need = ["Accept", "CsConnect", "PrStart", "PeerSend", "Frame", "WireOut", "Dispatch", "DSelReqEnq", "DSelReqCs", "DDataGate", "DRejSent"]
                if active == "TRUE":
                    need += ["PeerAnswer", "SelReg", "SelEnq", "SelSent", "SelGet", "SelTimeout", "DSelRspChk", "DSelRspCs", "DSelRspPut"]
                tlc.require_covered(r, need)
            ctx.add_tlc(r, f"endpoint threads, active={active}, peer script {script}: all interleavings, 7 invariants, DeliverOnlySelected, Settles")
    w1 = tlc.run("HsmsEndpoint", cfg_text=cfg("FALSE", "FALSE", "TRUE", 1), workdir=wd, what="endpoint_w_state_after_receive", timeout=900,
                 deadlock=False, expect_error=True)
    ctx.add_tlc(w1, "witness (a443069): receive path started before the state machine left NOT CONNECTED -> AnsweredSelectMeansSelected refuted")
    if w1.error_kind != "invariant":
        raise Machinery("HsmsEndpoint witness StateBeforeReceive = FALSE no longer fails")
    w2 = tlc.run("HsmsEndpoint", cfg_text=cfg("TRUE", "TRUE", "FALSE", 0), workdir=wd, what="endpoint_w_queue_after_send", timeout=900,
                 deadlock=False, expect_error=True)
    ctx.add_tlc(w2, "witness: response queue registered after the Select.req was written -> AcceptedSelectMeansSelected refuted")
    if w2.error_kind != "invariant":
        raise Machinery("HsmsEndpoint witness QueueBeforeSend = FALSE no longer fails")


def run_scenario(job):
    sid, active, will, script, inflight, seed, policy, lag = job
    hsmsrun.quiet_logging()
    simrt.install()
    import secsgem.common.protocol as cp
    import secsgem.common.protocol_dispatcher as pd
    import secsgem.hsms.connection_state_machine as csm
    import secsgem.hsms.protocol as hp

    rec = {"id": sid, "active": active, "will": will if active else "silent", "script": script, "inflight": inflight, "seed": seed,
           "policy": policy, "lag": lag, "ev": [], "final": {}}
    names = {}

    def sysname(x):
        return names.get(x, "o1")

    def hdr_fields(h):
        st = h.s_type.value if hasattr(h.s_type, "value") else int(h.s_type)
        t = TYPES.get(st, f"st{st}")
        return {"t": t, "sys": sysname(h.system), "st": h.function if t in ("SelRsp", "Reject") else 0}

    def cs_of(frame):
        return CSN[frame.f_locals["self"]._current_state.name]

    def only(stype_name, evfields=None):
        def ex(frame, _):
            m = frame.f_locals.get("message")
            if m is None or TYPES.get(m.header.s_type.value) != stype_name:
                return None
            return dict(evfields or {})
        return ex

    def sel_result(frame, ret):
        if ret is None:
            return {"t": "timeout"}
        return {"t": "ok" if ret.header.function == 0 else "refused"}

    P = hp.HsmsProtocol
    event_funcs = [
        (P._on_connected, "Accept", "call", None),
        (P._on_state_connect, "CsConnect", "call", lambda fr, r: {"cs": CSN[fr.f_locals["self"]._connection_state.current.name]}),
        (pd.ProtocolDispatcher.start, "PrStart", "call", None),
        (pd.ProtocolDispatcher.queue_block, "Frame", "call", lambda fr, r: hdr_fields(fr.f_locals["block"].header)),
        (P._on_connection_message_received, "Dispatch", "call", lambda fr, r: hdr_fields(fr.f_locals["message"].header)),
        (P._HsmsProtocol__handle_hsms_requests_select_rsp, "SelRspHandler", "call", None),
        (csm.ConnectionStateMachine.select, "CsSelect", "return", lambda fr, r: {"cs": cs_of(fr)}),
        (P.send_select_req, "SelBegin", "call", None),
        (P.send_select_req, "SelReturn", "return", sel_result),
        (cp.Protocol._get_queue_for_system, "QueueReg", "call", None),
        (cp.Protocol._remove_queue, "QueueDel", "call", None),
    ]

    def main(s):
        rng = random.Random(seed)
        ep = hsmsrun.Ep(mode="active" if active else "passive", kind="protocol")
        ep.protocol.events.message_received += lambda d: s.emit("Deliver")
        answered = [False]

        def on_send(data):
            for fr in link.parse_frames(data)[0]:
                t = TYPES.get(fr.get("stype"), f"st{fr.get('stype')}")
                s.emit("Wire", t=t, sys=sysname(fr["system"]), st=fr["b3"] if t in ("SelRsp", "Reject") else 0)
                if t == "SelReq" and will != "silent" and not answered[0]:
                    answered[0] = True
                    pending.append(("answer", fr["system"]))

        ep.link.on_send_hook = on_send

        def on_put(q, item):
            if q is ep.protocol._send_queue:
                fr = link.parse_frames(bytes(item.data))[0][0]
                t = TYPES.get(fr.get("stype"), f"st{fr.get('stype')}")
                s.emit("Enq", t=t, sys=sysname(fr["system"]), st=fr["b3"] if t in ("SelRsp", "Reject") else 0)
            elif q in ep.protocol._response_queues.values():
                s.emit("QPut")

        s.put_hook = on_put
        pending = []
        frames = []
        for n, kind in enumerate(script, start=1):
            sysid = 7000 + n
            names[sysid] = f"p{n}"
            if kind == "SelReq":
                frames.append(("SelReq", sysid, link.hsms_frame(stype=1, system=sysid)))
            else:
                frames.append(("Data", sysid, link.hsms_frame(stype=0, system=sysid, session=0, stream=1, function=1, wbit=True)))

        def peer_send(fr):
            s.emit("PeerSend", t=fr[0], sys=names[fr[1]], st=0)
            ep.link.feed(fr[2])

        ep.protocol.enable()
        first = frames[:inflight]
        rest = frames[inflight:]
        if first:
            for fr in first:
                s.emit("PeerSend", t=fr[0], sys=names[fr[1]], st=0)
            ep.link.connect(inflight=b"".join(fr[2] for fr in first))
        else:
            ep.link.connect()
        guard = 0
        while guard < 50:
            guard += 1
            if rng.random() < 0.5:
                s.settle()
            else:
                s.yield_point()
            if pending:
                _, sysv = pending.pop(0)
                st = 0 if will == "ok" else 1
                s.emit("PeerAnswer", t="SelRsp", sys="o1", st=st)
                ep.link.feed(link.hsms_frame(stype=2, system=sysv, b3=st))
                continue
            if rest:
                peer_send(rest.pop(0))
                continue
            s.settle()
            if not pending:
                break
        s.advance(T6 + 1.0)          # a select request nobody answers times out
        s.settle()
        rec["final"] = {"cs": ep.cs, "dlv": len(ep.delivered)}

    s = simrt.run(main, seed=seed, policy=policy, switch_prob=0.4, max_vtime=1e6, pct_depth=2, pct_horizon=80, event_funcs=event_funcs,
                  wake_lag={"select": (("secsgem_hsmsProtocol_sendSelectReqThread",), 0.7, 0.02),
                            "any": (("secsgem", "conn_"), 0.3, 0.02)}.get(lag))
    rec["outcome"] = s.outcome
    if s.errors:
        rec["errors"] = [e[:2] for e in s.errors[:3]]
    keep = ("e", "t", "sys", "st", "cs")
    evs = []
    for e in s.events:
        if e.get("extract_error"):
            rec.setdefault("errors", []).append(("extract", e["extract_error"]))
        x = {"e": e["e"], "t": e.get("t", "-") if isinstance(e.get("t"), str) else "-", "sys": e.get("sys", "-"), "st": e.get("st", 0),
             "cs": e.get("cs", "-")}
        evs.append(x)
    rec["ev"] = evs
    rec["threads"] = [e["th"] for e in s.events]
    return rec


def check(ctx, wd, pmap):
    model_check(ctx, wd)
    rng = random.Random(ctx.seed + 505)
    jobs = []
    sid = 0
    reps = 2 if ctx.quick else 12
    for script in (["SelReq"], ["SelReq", "Data"], ["Data", "SelReq", "Data"], []):
        for inflight in range(0, len(script) + 1):
            for pol, lag in (("fifo", None), ("random", None), ("pct", None), ("random", "any"), ("pct", "any")):
                for _ in range(reps if pol != "fifo" else 1):
                    sid += 1
                    jobs.append((sid, False, "silent", script, inflight, rng.randrange(1 << 30), pol, lag))
    for will in ("ok", "refuse", "silent"):
        for script in ([], ["Data"], ["SelReq"], ["Data", "SelReq"]):
            for inflight in (0, len(script)):
                if inflight == 0 and script and will == "silent":
                    continue
                for pol, lag in (("fifo", None), ("random", None), ("pct", "select"), ("random", "select"), ("random", "any")):
                    for _ in range(reps if pol != "fifo" else 1):
                        sid += 1
                        jobs.append((sid, True, will, script, inflight, rng.randrange(1 << 30), pol, lag))
    recs = pmap(run_scenario, jobs)
    for r in recs:
        if r["outcome"] != "done" or r.get("errors"):
            if "Machinery" in str(r.get("errors")) or "extract" in str(r.get("errors")):
                raise Machinery(str(r["errors"]))
            ctx.violation({"check": "endpoint-trace", "clause": "run-did-not-finish", "what": f"endpoint scenario ended {r['outcome']} {r.get('errors')}",
                           "scenario": {k: r[k] for k in ("active", "will", "script", "inflight", "policy", "lag", "seed")}})
    recs = [r for r in recs if r["outcome"] == "done" and not r.get("errors")]
    verdicts = {}
    for active in (False, True):
        grp = [r for r in recs if r["active"] == active]
        if not grp:
            continue
        f = wd / f"endpoint_traces_{'a' if active else 'p'}.json"
        f.write_text(json.dumps([{"id": r["id"], "will": r["will"], "ev": r["ev"], "final": r["final"]} for r in grp]))
        cfg = (f"SPECIFICATION TSpec\nCONSTANTS Active = {'TRUE' if active else 'FALSE'}\n StateBeforeReceive = TRUE\n QueueBeforeSend = TRUE\n"
               " PeerScript = 0\nCONSTRAINT Progress\nINVARIANT TypeOK\nINVARIANT AnsweredSelectMeansSelected\nINVARIANT AcceptedSelectMeansSelected\n"
               "INVARIANT RefusedSelectStaysNotSelected\nINVARIANT EveryDataHandledOnce\nINVARIANT NoQueueLeak\nINVARIANT FinalMatches\n"
               "PROPERTY DeliverOnlySelected\n")
        rt = tlc.run("HsmsEndpointTrace", cfg_text=cfg, workdir=wd, workers=4, env={"TRACE_FILE": str(f)}, what=f"trace_{'a' if active else 'p'}",
                     coverage=False, deadlock=False, timeout=1800, expect_error=True)
        best = {}
        for a in rt.tagged("AT"):
            best[a["id"]] = max(best.get(a["id"], 0), a["l"])
        for r in grp:
            n = len(r["ev"])
            verdicts[r["id"]] = {"reached": best.get(r["id"], 0), "n": n, "accepted": best.get(r["id"], 0) == n + 1}
        if rt.error_kind is not None:
            # an invariant of HsmsEndpoint (or FinalMatches) failed on a state of some trace
            ctx.violation({"check": "endpoint-trace", "clause": "invariant-on-recorded-execution", "active": active, "tlc_error": rt.error_kind,
                           "detail": rt.error_text[:600] if hasattr(rt, "error_text") else "",
                           "what": f"TLC: {rt.error_kind} violated on a recorded execution of the real endpoint (active={active})"})
        ctx.tlc_runs.append({"spec": "HsmsEndpointTrace.tla", "what": f"validation of {len(grp)} recorded executions (active={active})",
                             "distinct_states": rt.distinct, "wall_s": round(rt.wall, 1)})
    ctx.traces += len(recs)
    ctx.evaluations += sum(len(r["ev"]) for r in recs)
    for r in recs:
        v = verdicts.get(r["id"])
        if v is None:
            raise Machinery("trace without verdict")
        if not v["accepted"]:
            at = v["reached"]
            evs = r["ev"]
            bad = evs[at - 1] if 1 <= at <= len(evs) else None
            ctx.violation({"check": "endpoint-trace", "clause": "execution-is-not-a-behaviour-of-HsmsEndpoint", "event": bad, "at": at, "of": v["n"],
                           "thread": r["threads"][at - 1] if bad else None, "before": evs[max(0, at - 6):at - 1],
                           "scenario": {k: r[k] for k in ("active", "will", "script", "inflight", "policy", "lag", "seed")},
                           "what": f"recorded execution (active={r['active']}, peer {r['will']}, script {r['script']}, {r['inflight']} in flight, "
                                   f"{r['policy']}/{r['lag']}): event {at} of {v['n']} {bad} is not allowed by HsmsEndpoint after {evs[max(0, at - 4):at - 1]}"})
    ctx.extra["endpoint_traces"] = len(recs)
    ctx.extra["endpoint_trace_events"] = sum(len(r["ev"]) for r in recs)
    if recs:
        ctx.sample({"endpoint_trace": [f"{e['e']}({e['t']},{e['sys']})" if e["t"] != "-" else e["e"] for e in recs[len(recs) // 2]["ev"]][:40]})
    # the binding has teeth: mutants of an accepted execution (two events swapped, one logged state altered, one event dropped)
    # must all be rejected by the same trace specification
    base = next((r for r in recs if not r["active"] and r["script"] == ["SelReq", "Data"] and verdicts[r["id"]]["accepted"]), None)
    if base is None and ctx.violations:
        return          # nothing was accepted (reported above): no execution to derive mutants from
    if base is None:
        raise Machinery("no accepted passive execution to derive mutants from")
    ev = base["ev"]
    ic = next(i for i, e in enumerate(ev) if e["e"] == "CsConnect")
    ip = next(i for i, e in enumerate(ev) if e["e"] == "PrStart")
    isel = next(i for i, e in enumerate(ev) if e["e"] == "CsSelect")
    m1 = list(ev)
    m1[ic], m1[ip] = m1[ip], m1[ic]
    m2 = [dict(e, cs="NS") if i == isel else e for i, e in enumerate(ev)]
    m3 = [e for i, e in enumerate(ev) if i != isel]
    fm = wd / "endpoint_mutants.json"
    fm.write_text(json.dumps([{"id": k, "will": base["will"], "ev": m, "final": base["final"]} for k, m in ((1, m1), (2, m2), (3, m3))]))
    cfgm = ("SPECIFICATION TSpec\nCONSTANTS Active = FALSE\n StateBeforeReceive = TRUE\n QueueBeforeSend = TRUE\n PeerScript = 0\n"
            "CONSTRAINT Progress\nINVARIANT FinalMatches\n")
    rm = tlc.run("HsmsEndpointTrace", cfg_text=cfgm, workdir=wd, workers=1, env={"TRACE_FILE": str(fm)}, what="trace_mutants", coverage=False,
                 deadlock=False, timeout=600, expect_error=True)
    bestm = {}
    for a in rm.tagged("AT"):
        bestm[a["id"]] = max(bestm.get(a["id"], 0), a["l"])
    for k, m in ((1, m1), (2, m2), (3, m3)):
        if bestm.get(k, 0) == len(m) + 1 and rm.error_kind is None:
            raise Machinery(f"trace specification accepted mutant {k} of a recorded execution: the binding lost its teeth")
    ctx.extra["endpoint_trace_mutants_rejected"] = 3
