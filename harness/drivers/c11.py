"""C11 -- GEM control state follows the E30 control model for every operator/host history.

Leg M : TLC checks E30Control (monitor over all 8 initial configurations x all histories): SvMatches, SubRemembered,
        CeOnlyOnTransition, OnlineOnlyViaProbeOrHost, RefusedChangesNothing.
Leg R : one shortest history per edge of the monitor relation + random walks, on a real GemEquipmentHandler (real HSMS
        stack; the driver is host and operator; the attempt-online probe is answered / aborted / left unanswered until the
        virtual T3 expires).
Leg V : S1F16/S1F18 codes, S6F11 CEIDs, refusals, control state and the control-state status variable of every step are
        validated by TLC (E30ControlJudge).
"""
from __future__ import annotations

import json
import random

from .. import e5, graph, hsmsrun, simrt, tlc
from ..common import Ctx, Machinery, chunks, pmap, workdir

PID = "C11"


def run_batch(job):
    bid, items, seed = job
    hsmsrun.quiet_logging()
    simrt.install()
    return [run_trace(tid, cfg, inputs, seed) for tid, cfg, inputs in items]


def run_trace(tid, cfg, inputs, seed):
    rec = {"id": tid, "initial": cfg["initial"], "sub": cfg["sub"], "steps": [], "start": "?"}

    def main(s):
        import secsgem.common
        ep = hsmsrun.Ep(mode="passive", kind="equipment", device_type=secsgem.common.DeviceType.EQUIPMENT,
                        initial_control_state=cfg["initial"], initial_online_control_state=cfg["sub"])
        h = ep.handler
        rec["start"] = h.control_state.current.name
        if not hsmsrun.establish(s, ep):
            raise Machinery("could not establish communication")
        t3 = h.settings.timeouts.t3
        ce_ready = [False]
        pend = {"sys": None, "done": None, "obs": None}      # operator's switch-online call waiting for its probe answer

        def request(sfn, fn, body=b""):
            sysid = ep.fresh_sys()
            ep.link.feed(hsmsrun.data_frame(sfn, fn, True, sysid, body))
            s.settle()
            return sysid

        def drain(obs, sysid=None, probe=None):
            """Look at what the equipment wrote; answer S6F11 and the S1F1 probe; returns True if something was answered."""
            acted = False
            for f in ep.link.take_frames():
                if f.get("stype") != 0:
                    continue
                if sysid is not None and f["system"] == sysid and f["s"] == 1 and f["f"] in (16, 18):
                    obs["reply"].append({"f": f["f"], "ack": e5.plain(e5.decode_all(f["body"]))})
                elif sysid is not None and f["system"] == sysid:
                    obs["reply"].append({"f": f["f"], "ack": 99})
                elif f["s"] == 6 and f["f"] == 11:
                    obs["ces"].append(e5.plain(e5.decode_all(f["body"]))[1])
                    ep.link.feed(hsmsrun.data_frame(6, 12, False, f["system"], e5.encode(e5.B(0))))
                    acted = True
                elif f["s"] == 1 and f["f"] == 1:
                    obs["probe"] = True
                    pend["sys"] = f["system"]
                    if probe == "ok":
                        ep.link.feed(hsmsrun.data_frame(1, 2, False, f["system"], e5.encode(e5.L())))
                        acted = True
                    elif probe == "abort":
                        ep.link.feed(hsmsrun.data_frame(1, 0, False, f["system"]))
                        acted = True
                else:
                    obs.setdefault("other", []).append([f["s"], f["f"]])
            if acted:
                s.settle()
            return acted

        for inp in inputs:
            k = inp["k"]
            obs = {"reply": [], "ces": [], "probe": False, "raised": False}
            sysid = None
            if k in ("OpOnline", "OpOffline", "OpLocal", "OpRemote"):
                fn = {"OpOnline": h.control_switch_online, "OpOffline": h.control_switch_offline,
                      "OpLocal": h.control_switch_online_local, "OpRemote": h.control_switch_online_remote}[k]
                done = {"v": False}

                def op(fn=fn, done=done, obs=obs):
                    try:
                        fn()
                    except Exception as exc:  # noqa: BLE001
                        obs["raised"] = True
                        obs["exc"] = type(exc).__name__
                    done["v"] = True

                th = simrt.Thread(target=op, name="operator")
                th.start()
                s.settle()
                for _ in range(6):
                    if not drain(obs, None, inp.get("probe")):
                        break
                ok, why = s.run_until(lambda: done["v"], max_dt=t3 + 10)
                if not ok:
                    raise Machinery(f"operator call did not return: {why}")
            elif k == "OpOnlineBegin":
                done = {"v": False}

                def opb(done=done, obs=obs):
                    try:
                        h.control_switch_online()
                    except Exception as exc:  # noqa: BLE001
                        pend["raised"] = type(exc).__name__
                    done["v"] = True

                pend.update({"sys": None, "done": done, "raised": None})
                th = simrt.Thread(target=opb, name="operator")
                th.start()
                s.settle()
                drain(obs, None, None)
                if done["v"]:
                    obs["raised"] = pend["raised"] is not None       # refused at once (not EQUIPMENT_OFFLINE)
                elif pend["sys"] is None:
                    raise Machinery("switch-online call pending without a probe")
            elif k == "ProbeResult":
                if pend["done"] is None or pend["done"]["v"] or pend["sys"] is None:
                    raise Machinery("ProbeResult without a pending probe")
                if inp["probe"] == "ok":
                    ep.link.feed(hsmsrun.data_frame(1, 2, False, pend["sys"], e5.encode(e5.L())))
                elif inp["probe"] == "abort":
                    ep.link.feed(hsmsrun.data_frame(1, 0, False, pend["sys"]))
                s.settle()
                ok, why = s.run_until(lambda: pend["done"]["v"], max_dt=t3 + 10)
                if not ok:
                    raise Machinery(f"operator call did not return: {why}")
                if pend["raised"]:
                    obs["raised"] = True
                    obs["exc"] = pend["raised"]
            elif k == "S1F15":
                sysid = request(1, 15)
            elif k == "S1F17":
                sysid = request(1, 17)
            elif k == "EnableCE":
                if not ce_ready[0]:
                    request(2, 33, e5.encode(e5.L(e5.U4(0), e5.L(e5.L(e5.U4(1), e5.L(e5.U4(1002)))))))
                    request(2, 35, e5.encode(e5.L(e5.U4(0), e5.L(*[e5.L(e5.U4(c), e5.L(e5.U4(1))) for c in (1, 2, 3)]))))
                    ce_ready[0] = True
                request(2, 37, e5.encode(e5.L(e5.BOOL(True), e5.L())))
                ep.link.take_frames()
            elif k == "DisableCE":
                request(2, 37, e5.encode(e5.L(e5.BOOL(False), e5.L())))
                ep.link.take_frames()
            elif k == "ReadSV":
                pass
            else:
                raise ValueError(k)
            for _ in range(6):
                if not drain(obs, sysid):
                    break
            # the control-state status variable as the host sees it
            sv_sys = ep.fresh_sys()
            ep.link.feed(hsmsrun.data_frame(1, 3, True, sv_sys, e5.encode(e5.L(e5.U4(1002)))))
            s.settle()
            obs["sv"] = -1
            for f in ep.link.take_frames():
                if f.get("stype") == 0 and f["system"] == sv_sys and f["f"] == 4:
                    v = e5.plain(e5.decode_all(f["body"]))
                    obs["sv"] = v[0] if isinstance(v, list) and v else -1
                elif f.get("stype") == 0 and f["s"] == 6 and f["f"] == 11:
                    obs["ces"].append(e5.plain(e5.decode_all(f["body"]))[1])
                    ep.link.feed(hsmsrun.data_frame(6, 12, False, f["system"], e5.encode(e5.B(0))))
            s.settle()
            obs["ctl"] = h.control_state.current.name
            rec["steps"].append({"inp": inp, "obs": obs})

    s = simrt.run(main, seed=seed, policy="fifo", max_vtime=1e7, wall_timeout=300)
    rec["outcome"] = s.outcome
    if s.errors:
        rec["errors"] = [e[:2] for e in s.errors[:3]]
    return rec


def run(ctx: Ctx):
    wd = workdir(PID)
    cfg = ("SPECIFICATION Spec\nVIEW View\nACTION_CONSTRAINT Dump\nINVARIANT TypeOK\nINVARIANT SvMatches\nINVARIANT SubRemembered\n"
           "PROPERTY CeOnlyOnTransition\nPROPERTY OnlineOnlyViaProbeOrHost\nPROPERTY RefusedChangesNothing\n"
           "PROPERTY AttemptOnlyEndsByProbe\nPROPERTY AttemptRefusesHost\n")
    r = tlc.run("E30Control", cfg_text=cfg, workdir=wd, workers=1, what="gen", timeout=900)
    tlc.require_ok(r, "E30Control")
    ctx.add_tlc(r, "E30 control monitor: 8 configurations x all histories; invariants + action properties")
    edges = r.tagged("TR")
    inits = []
    seen = set()
    for e in edges:
        c = e["from"]["cfg"]
        kk = json.dumps(c, sort_keys=True)
        if kk not in seen:
            seen.add(kk)
            # the start state of a configuration: reachable only as "from" of some edge with ce FALSE and ctl = Start
            inits.append(c)
    start_ctl = {"EQUIPMENT_OFFLINE": "EQUIPMENT_OFFLINE", "ATTEMPT_ONLINE": "HOST_OFFLINE", "HOST_OFFLINE": "HOST_OFFLINE"}
    init_states = []
    for c in inits:
        ctl = start_ctl.get(c["initial"]) or ("ONLINE_LOCAL" if c["sub"] == "LOCAL" else "ONLINE_REMOTE")
        init_states.append({"cfg": c, "st": {"ctl": ctl, "sub": c["sub"], "ce": False}})
    g = graph.Graph(edges, inits=init_states)
    if len(init_states) != 8 or len(edges) < 300:
        raise Machinery(f"unexpected control monitor graph: {len(init_states)} configurations, {len(edges)} edges")
    rng = random.Random(ctx.seed + 11)
    paths = g.edge_cover() + g.random_walks(60 if ctx.quick else 800, 30, rng)
    if ctx.quick:
        # silent probes cost a virtual T3 only; keep all edges
        pass
    items = [(i, p[0]["from"]["cfg"], [e["inp"] for e in p]) for i, p in enumerate(paths, start=1) if p]
    jobs = [(b, ch, ctx.seed) for b, ch in enumerate(chunks(items, 28))]
    recs = [r_ for batch in pmap(run_batch, jobs) for r_ in batch]
    for r_ in [r_ for r_ in recs if r_["outcome"] != "done" or r_.get("errors")][:3]:
        if "Machinery" in str(r_.get("errors")):
            raise Machinery(str(r_["errors"]))
        ctx.violation({"check": "e30control", "clause": "run-did-not-finish", "what": f"run ended {r_['outcome']} {r_.get('errors')}",
                       "config": [r_["initial"], r_["sub"]], "steps": r_["steps"][-3:]})
    recs = [r_ for r_ in recs if r_["outcome"] == "done" and not r_.get("errors")]
    f = wd / "traces.json"
    f.write_text(json.dumps([{k: r_[k] for k in ("id", "initial", "sub", "start", "steps")} for r_ in recs]))
    rj = tlc.run("E30ControlJudge", cfg_text="", workdir=wd, workers=1, env={"TRACE_FILE": str(f)}, what="judge", coverage=False,
                 timeout=1800)
    tlc.require_ok(rj, "E30ControlJudge")
    verd = {v["id"]: v for v in rj.tagged("V")}
    if len(verd) != len(recs):
        raise Machinery(f"judge: {len(verd)} verdicts for {len(recs)} traces")
    ctx.traces += len(recs)
    ctx.evaluations += sum(len(r_["steps"]) for r_ in recs)
    ctx.nontrivial += len({json.dumps([r_["initial"], r_["sub"], [s_["inp"] for s_ in r_["steps"]]]) for r_ in recs
                           if len({s_["obs"]["ctl"] for s_ in r_["steps"]}) > 1})
    for r_ in recs:
        v = verd[r_["id"]]
        if r_["id"] in (40, 200):
            ctx.sample({"config": [r_["initial"], r_["sub"]], "start": r_["start"], "steps": r_["steps"][:6]})
        if v["clause"] != "ok":
            st_ = r_["steps"][v["at"] - 1] if v["at"] else {"inp": {"k": "start"}, "obs": {"ctl": r_["start"]}}
            prev = r_["steps"][v["at"] - 2]["obs"]["ctl"] if v["at"] > 1 else r_["start"]
            ctx.violation({"check": "e30control", "clause": v["clause"], "input": st_["inp"]["k"], "probe": st_["inp"].get("probe"),
                           "state_before": prev, "config": [r_["initial"], r_["sub"]], "observed": st_["obs"], "expected": v["exp"],
                           "inputs": [s_["inp"] for s_ in r_["steps"][: v["at"]]],
                           "what": f"config {r_['initial']}/{r_['sub']}: {json.dumps(st_['inp'])} in {prev}: {v['clause']}; "
                                   f"observed {json.dumps(st_['obs'])}"})
    ctx.rule = ("histories = one shortest path per edge of the control monitor relation (8 configurations x 5 states x CE on/off x 11 "
                "inputs incl. probe answered/aborted/unanswered) + random walks of 30 inputs; non-trivial = histories with at least "
                "one control-state change")
    ctx.assumptions += ["communication is established before the history starts; control-state events are linked to one report "
                        "containing the control-state status variable"]
    return ctx.finish()
