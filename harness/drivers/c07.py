"""C07 -- GEM communication state follows the E30 establish-communications model.

Leg M : TLC checks E30Comm (monitor behaviours: EstablishedOnlyAfterExchange, NoCallbackUnlessCommunicating,
        RetryAfterDelay, ...) over all histories.
Leg R : the monitor's labelled transition relation is dumped; edge-covering histories and random walks are executed
        on real GemHostHandler / GemEquipmentHandler objects (real HsmsProtocol, FakeConnection, virtual time: timer
        expiries are advances to exactly the next deadline).
Leg V : every recorded step (frames with COMMACK, handler_communicating, callback invocations, elapsed timer time,
        communication state) is validated by TLC (E30CommJudge, subset construction over the nondeterministic monitor).
"""
from __future__ import annotations

import json
import random

from .. import graph, hsmsrun, link, simrt, tlc
from ..common import Ctx, Machinery, pmap, workdir

PID = "C07"
D = 7      # establish-communications delay used in the runs (distinct from T3 = 45)


def s1f13_body(from_host):
    return b"\x01\x00" if from_host else b"\x01\x02\x41\x04mdln\x41\x03rev"


def s1f14_body(ack, from_host):
    commack = b"\x21\x00" if ack == 256 else b"\x21\x02\x00\x00" if ack == 257 else b"\x21\x01" + bytes([ack])
    return b"\x01\x02" + commack + (b"\x01\x00" if from_host else b"\x01\x02\x41\x04mdln\x41\x03rev")


def run_trace(job):
    tid, role, mode, inputs, seed, policy = job[:6]
    instant = job[6] if len(job) > 6 else False
    deny = job[7] if len(job) > 7 else False
    hsmsrun.quiet_logging()
    simrt.install()
    rec = {"id": tid, "role": role, "mode": mode, "steps": [], "seed": seed, "policy": policy, "deny": deny}

    def main(s):
        import secsgem.common
        dt = secsgem.common.DeviceType.EQUIPMENT if role.startswith("equipment") else secsgem.common.DeviceType.HOST
        extra = {"initial_control_state": "ONLINE"} if role == "equipment_online" else {}
        import secsgem.gem
        if deny:
            base_cls = secsgem.gem.GemEquipmentHandler if role.startswith("equipment") else secsgem.gem.GemHostHandler
            extra["handler_cls"] = type("Denying", (base_cls,), {"on_commack_requested": lambda self: 1})
        # the delay is configured after the handler was built (the settings property is the documented way; the equipment constant
        # EstablishCommunicationsTimeout writes the same attribute): the *configured* delay counts, not the one at construction
        ep = hsmsrun.Ep(mode=mode, kind="equipment" if role.startswith("equipment") else "host", device_type=dt,
                        settings={"establish_communication_timeout": D + 4 if tid % 2 else D}, **extra)
        h = ep.handler
        h.settings.establish_communication_timeout = D
        t3 = h.settings.timeouts.t3
        cbs = []
        h.register_stream_function(1, 1, lambda handler, message: cbs.append(message.header.system))
        comm = []
        h.events.handler_communicating += lambda d: comm.append(1)
        fact = {"en": False, "link": "down"}
        last13 = [None]
        peer_is_host = role.startswith("equipment")

        def wfc():
            """What waitfor_communicating() reports right now (zero patience)."""
            try:
                return bool(h.waitfor_communicating(0.0))
            except Exception:  # noqa: BLE001
                return False

        def data_frames(inbound_sys):
            out = []
            for f in ep.link.take_frames():
                if f.get("stype") != 0:
                    if f.get("stype") == 1 and mode == "active":
                        # our endpoint's Select.req: answer it
                        ep.link.feed(link.hsms_frame(stype=2, system=f["system"]))
                    continue
                sysc = "echo" if inbound_sys is not None and f["system"] == inbound_sys else "fresh"
                ack = 9
                if f["s"] == 1 and f["f"] == 14 and len(f["body"]) >= 5:
                    ack = f["body"][4]
                if f["s"] == 1 and f["f"] == 13:
                    last13[0] = f["system"]
                out.append({"s": f["s"], "f": f["f"], "w": f["w"], "sys": sysc, "ack": ack})
            return out

        # instant mode: when the next input is the peer's S1F14, the peer sends it the moment it sees our S1F13 on the wire
        # (from inside the endpoint's send), not after the endpoint has come to rest; the observation of the current step
        # is taken at that moment
        arm = {"ack": None, "snap": None, "sys": None}

        def on_send(data):
            if arm["ack"] is None:
                return
            for fr_ in link.parse_frames(data)[0]:
                if fr_.get("stype") == 0 and fr_["s"] == 1 and fr_["f"] == 13:
                    if h.communication_state.current.name != "WAIT_CRA" or ep.cs != "SEL":
                        # a stale request that was queued while the link was down, not this attempt's -- or one that goes out on a
                        # new connection before it is selected (a peer rejects data messages then, it does not answer them)
                        continue
                    ack, arm["ack"] = arm["ack"], None
                    arm["snap"] = {"frames": data_frames(None), "comm": len(comm), "cb": len(cbs), "cm": h.communication_state.current.name,
                                   "now": s.now}
                    arm["sys"] = fr_["system"]
                    ep.link.feed(link.hsms_frame(stype=0, system=fr_["system"], session=0, stream=1, function=14, wbit=False,
                                                 body=s1f14_body(ack, peer_is_host)))
                    return

        ep.link.on_send_hook = on_send
        for idx, inp in enumerate(inputs):
            k = inp["k"]
            c0, b0 = len(comm), len(cbs)
            inbound = None
            pre = []
            dtc = "-"
            nxt = inputs[idx + 1] if idx + 1 < len(inputs) else None
            arm.update({"ack": None, "snap": None})
            if instant and k in ("Timer", "LinkUp") and nxt is not None and nxt["k"] == "S1F14":
                arm["ack"] = nxt["ack"]
            if k == "Enable":
                if fact["en"]:
                    continue
                h.enable()
                fact["en"] = True
            elif k == "EnableLinkUp":
                if fact["en"]:
                    continue
                # the transport connects and is selected while the application thread is still inside enable()
                n_en = len([e for e in ep.link.events if e["ev"] == "Enable"])
                fin = {"v": False}

                def do_enable(fin=fin):
                    h.enable()
                    fin["v"] = True

                simrt.Thread(target=do_enable, name="app_enable").start()
                okk, why = s.run_until(lambda: len([e for e in ep.link.events if e["ev"] == "Enable"]) > n_en, max_dt=5)
                if not okk:
                    raise Machinery(f"enable() did not reach the transport: {why}")
                ep.link.connect()
                s.yield_point()
                if mode == "passive":
                    ep.link.feed(link.hsms_frame(stype=1, system=ep.fresh_sys()))
                for _ in range(4):
                    s.settle()
                    pre += data_frames(None)      # answers the Select.req in active mode
                okk, why = s.run_until(lambda: fin["v"], max_dt=10)
                if not okk:
                    raise Machinery(f"enable() did not return: {why}")
                fact["en"] = True
                fact["link"] = "up"
            elif k == "Disable":
                if not fact["en"]:
                    continue
                h.disable()
                fact["en"] = False
                fact["link"] = "down"
            elif k == "LinkUp":
                if not fact["en"] or fact["link"] == "up":
                    continue
                ep.link.connect()
                s.settle()
                pre = []
                if mode == "passive":
                    ep.link.feed(link.hsms_frame(stype=1, system=ep.fresh_sys()))
                else:
                    pre = data_frames(None)   # answers the Select.req
                s.settle()
                fact["link"] = "up"
            elif k == "LinkLost":
                if fact["link"] != "up":
                    continue
                n0 = ep.link.closed_count
                if (tid + idx) % 2 == 0:
                    # the peer ends the session the regular way: Separate.req, then it closes the connection
                    inp = dict(inp, how="separate-then-close")
                    ep.link.feed(link.hsms_frame(stype=9, system=ep.fresh_sys()))
                    s.settle()
                ep.link.peer_close()
                ok, why = s.run_until(lambda: ep.link.closed_count > n0, max_dt=5)
                if not ok:
                    # the handler's reaction to the link loss does not finish (it must leave COMMUNICATING and return)
                    rec["link_loss_stuck"] = {"why": why, "cm": h.communication_state.current.name,
                                              "blocked": [b["thread"] + ":" + "/".join(b["stack"][-3:]) for b in s.blocked_report()][:6]}
                    return
                fact["link"] = "down"
            elif k == "Timer":
                if h.communication_state.current.name not in ("WAIT_CRA", "WAIT_DELAY"):
                    continue          # the history was generated along another branch of the monitor: no attempt cycle pending here
                nd = s.next_deadline()
                if nd is None or nd - s.now > 1e5:
                    if h.communication_state.current.name in ("WAIT_CRA", "WAIT_DELAY"):
                        # an attempt cycle is pending but no timer is running: nothing will ever retry
                        obs = {"frames": data_frames(None), "comm": 0, "cb": 0, "dt": "no-timer-running",
                               "cm": h.communication_state.current.name, "wfc": wfc()}
                        rec["steps"].append({"inp": inp, "obs": obs, "t": round(s.now, 3)})
                    continue
                # advance until a timer of the establish-communications cycle fired (other timers, e.g. T6 of a
                # pending control transaction, are not inputs of this monitor)
                t_start = s.now
                cm0 = h.communication_state.current.name
                for _ in range(6):
                    nd = s.next_deadline()
                    if nd is None or nd - s.now > 1e5:
                        break
                    s.block(("timer",), nd - s.now)
                    s.settle()
                    if h.communication_state.current.name != cm0 or arm["snap"] is not None:
                        break
                el = s.now - t_start
                # earlier steps may have consumed up to 1 s of the running timer (close sequences poll in 0.2 s steps)
                # threads held back by wake_lag act up to a few 0.02 s after the deadline; line-level tracing costs virtual time per line
                slack = 0.5 if instant else (0.05 if any(i_["k"] == "S1F14AtT3" for i_ in inputs) else 1e-6)
                dtc = "T3" if t3 - 1.0 <= el <= t3 + slack else ("D" if D - 1.0 <= el <= D + slack else f"{el:.3f}")
            elif k == "S1F14AtT3":
                if h.communication_state.current.name != "WAIT_CRA" or fact["link"] != "up" or last13[0] is None:
                    continue
                nd = s.next_deadline()
                if nd is None or nd - s.now > 1e5:
                    continue
                # the answer reaches the handler at the moment the reply timer of the attempt fires
                s.block(("timer",), max(0.0, nd - s.now - inp.get("eps_us", 0) * 1e-6))
                inbound = last13[0]
                ep.link.feed(link.hsms_frame(stype=0, system=inbound, session=0, stream=1, function=14, wbit=False,
                                             body=s1f14_body(inp["ack"], peer_is_host)))
                s.run_until(lambda: False, max_dt=1.0)
                dtc = "T3"
            elif k == "S1F14" and arm["sys"] is not None:
                # already sent by the instant peer during the previous step
                if fact["link"] != "up":
                    raise Machinery("instant S1F14 without link")
                inbound, arm["sys"] = arm["sys"], None
            elif k in ("S1F13", "S1F14", "Other"):
                if fact["link"] != "up":
                    continue
                if k == "S1F13":
                    inbound = ep.fresh_sys()
                    fr = link.hsms_frame(stype=0, system=inbound, session=0, stream=1, function=13, wbit=True,
                                         body=s1f13_body(peer_is_host))
                elif k == "S1F14":
                    inbound = last13[0] if last13[0] is not None else ep.fresh_sys()
                    fr = link.hsms_frame(stype=0, system=inbound, session=0, stream=1, function=14, wbit=False,
                                         body=s1f14_body(inp["ack"], peer_is_host))
                else:
                    inbound = ep.fresh_sys()
                    fr = link.hsms_frame(stype=0, system=inbound, session=0, stream=1, function=1, wbit=inp["w"])
                ep.link.feed(fr)
            else:
                raise ValueError(k)
            s.settle()
            if arm["snap"] is not None:
                sn = arm["snap"]
                obs = {"frames": pre + sn["frames"], "comm": sn["comm"] - c0, "cb": sn["cb"] - b0, "dt": dtc, "cm": sn["cm"],
                       "wfc": sn["cm"] == "COMMUNICATING"}      # not sampled inside the send: the state at that moment decides
                rec["steps"].append({"inp": inp, "obs": obs, "t": round(sn["now"], 3), "instant_next": True})
                comm_base, cb_base = sn["comm"], sn["cb"]
                arm["snap"] = None
                arm["carry"] = (comm_base, cb_base)
                continue_obs = True
            else:
                if arm.get("carry") is not None and k == "S1F14":
                    c0, b0 = arm["carry"]
                    arm["carry"] = None
                elif arm["ack"] is not None:
                    # armed, but no S1F13 went out in this step: the peer's S1F14 of the next step is sent the ordinary way
                    arm["ack"] = None
                obs = {"frames": pre + data_frames(inbound), "comm": len(comm) - c0, "cb": len(cbs) - b0, "dt": dtc,
                       "cm": h.communication_state.current.name, "wfc": wfc()}
                rec["steps"].append({"inp": inp, "obs": obs, "t": round(s.now, 3)})
        # end of history: a pending attempt cycle must have its timer running (else nothing ever retries)
        cmf = h.communication_state.current.name
        ndf = s.next_deadline()
        if fact["en"] and cmf in ("WAIT_CRA", "WAIT_DELAY") and (ndf is None or ndf - s.now > 1e5):
            rec["steps"].append({"inp": {"k": "Timer"}, "obs": {"frames": data_frames(None), "comm": 0, "cb": 0, "dt": "no-timer-running", "cm": cmf, "wfc": wfc()},
                                 "t": round(s.now, 3)})
        rec["handler_errors"] = ep.link.handler_errors[:3]

    import secsgem.common.state_machine as smm
    import secsgem.gem
    race = any(i_["k"] == "S1F14AtT3" for i_ in inputs)
    s = simrt.run(main, seed=seed, policy=policy, switch_prob=0.5 if race else 0.3, max_vtime=1e7, wall_timeout=120,
                  line_funcs=[smm.StateMachine._perform_transition, smm.State.enter, smm.State.leave] if race else (), line_cost=1e-5 if race else 1e-4,
                  line_lag=((secsgem.gem.GemHandler.enable,), 1.0, 0.05),
                  wake_lag=(("Timer", "secsgem", "Thread"), 0.3, 0.02) if instant else None)
    rec["outcome"] = s.outcome
    if s.outcome != "done":
        rec["wedge"] = s.wedge_info
    if s.errors:
        rec["errors"] = [e[:2] for e in s.errors[:3]]
    return rec


def run(ctx: Ctx):
    wd = workdir(PID)
    cfg = ("SPECIFICATION Spec\nVIEW View\nACTION_CONSTRAINT Dump\nINVARIANT TypeOK\nINVARIANT EstablishedOnlyAfterExchange\n"
           "INVARIANT DisabledIffNotEnabled\nINVARIANT NoCallbackUnlessCommunicating\nINVARIANT AttemptNeedsLinkOrCycle\n"
           "PROPERTY RetryAfterDelay\n")
    res = tlc.run("E30Comm", cfg_text=cfg, workdir=wd, workers=1, what="gen", timeout=600)
    tlc.require_ok(res, "E30Comm")
    ctx.add_tlc(res, "E30 establish-communications monitor: all histories, invariants + RetryAfterDelay")
    gcfg = "SPECIFICATION Spec\nCONSTANTS Atomic = {}\nINVARIANT SerialOutcome\nINVARIANT ReportedMeansEstablished\nPROPERTY Terminates\n"
    ga = tlc.run("GemCommImpl", cfg_text=gcfg.format("TRUE"), workdir=wd, workers=1, what="commimpl_serialised", timeout=300, deadlock=False)
    tlc.require_ok(ga, "GemCommImpl (serialised transitions)")
    ctx.add_tlc(ga, "communication state machine in WAIT_CRA, S1F14 vs T3 expiry with serialised transitions: only the two serial outcomes")
    gw = tlc.run("GemCommImpl", cfg_text=gcfg.format("FALSE"), workdir=wd, workers=1, what="commimpl_as_coded", timeout=300, deadlock=False, expect_error=True)
    ctx.add_tlc(gw, "witness of known finding C07-t3-expiry-races-s1f14: transitions as coded (no mutual exclusion) -> established reported, state WAIT_DELAY")
    ctx.extra["model_unserialised_transitions_break_serial_outcome"] = gw.error_kind == "invariant"
    if gw.error_kind != "invariant":
        raise Machinery(f"GemCommImpl witness no longer fails ({gw.error_kind})")
    edges = res.tagged("TR")
    g = graph.Graph(edges, inits=[{"cm": "DISABLED", "link": "down", "en": False, "deny": d} for d in (False, True)])
    if len(edges) < 30:
        raise Machinery(f"monitor graph too small: {len(edges)}")
    rng = random.Random(ctx.seed + 7)
    paths = g.edge_cover() + g.random_walks(40 if ctx.quick else 500, 35, rng)
    jobs = []
    tid = 0
    for role in ("host", "equipment", "equipment_online"):
        for mode in ("passive", "active"):
            for pi, p in enumerate(paths):
                if mode == "active" and pi % 3:
                    continue
                tid += 1
                pol = "fifo" if pi < len(paths) // 2 else "random"
                jobs.append((tid, role, mode, [e["inp"] for e in p], rng.randrange(1 << 30), pol, pi % 2 == 1, bool(p[0]["from"].get("deny"))))
    # refused attempts answered at once, several times in a row, under schedules with late-resuming helper threads
    refuse = [{"k": "Enable"}, {"k": "LinkUp"}] + [{"k": "S1F14", "ack": 1}, {"k": "Timer"}] * 3 + [{"k": "S1F14", "ack": 0}, {"k": "Other", "w": True}]
    silent = [{"k": "Enable"}, {"k": "LinkUp"}, {"k": "Timer"}, {"k": "Timer"}, {"k": "S1F14", "ack": 1}, {"k": "Timer"}, {"k": "S1F14", "ack": 0}]
    for role in ("host", "equipment", "equipment_online"):
        for mode in ("passive", "active"):
            for hist in (refuse, silent):
                for pol in ("random", "pct", "random", "fifo"):
                    tid += 1
                    jobs.append((tid, role, mode, hist, rng.randrange(1 << 30), pol, True))
    # the accepting S1F14 handled while the T3 timer of the same attempt expires, with line-level preemption inside the state machine
    for role in ("host", "equipment"):
        for k_ in range(30 if ctx.quick else 200):
            tid += 1
            hist = [{"k": "Enable"}, {"k": "LinkUp"}, {"k": "S1F14AtT3", "ack": 0, "eps_us": [0, 50, 200][k_ % 3]}, {"k": "Other", "w": True}, {"k": "Timer"}]
            jobs.append((tid, role, "passive", hist, rng.randrange(1 << 30), "random", False))
    traces = pmap(run_trace, jobs)
    for t in traces:
        # a timer thread whose transition request is refused after the race of the two transitions (the state changed under it): a
        # consequence of the unserialised transitions, reported with the race's signature; the run itself is judged as usual
        if t["outcome"] == "done" and t.get("errors") and any(st["inp"]["k"] == "S1F14AtT3" for st in t["steps"]) \
                and all(e[0] == "Timer" and "WrongSourceStateError" in str(e[1]) for e in t["errors"]):
            ctx.violation({"check": "e30comm", "clause": "timer-thread-died-in-a-refused-transition", "input": "S1F14AtT3", "role": t["role"],
                           "race_signature": "timer-transition-refused-after-the-race", "errors": t["errors"],
                           "what": f"{t['role']}: S1F14 handled while T3 expires: the timer thread's transition was refused afterwards {t['errors'][:1]}"})
            t["errors"] = None
    for t in [t for t in traces if t["outcome"] != "done" or t.get("errors")][:3]:
        if "Machinery" in str(t.get("errors")):
            raise Machinery(str(t["errors"]))
        ctx.violation({"check": "e30comm", "clause": "run-did-not-finish", "role": t["role"],
                       "what": f"run ended {t['outcome']} {t.get('errors')}", "steps": t["steps"][-6:], "wedge": t.get("wedge")})
    for t in [t for t in traces if t.get("link_loss_stuck")][:5]:
        ctx.violation({"check": "e30comm", "clause": "link-loss-handling-did-not-finish", "role": t["role"], "mode": t["mode"],
                       "detail": t["link_loss_stuck"], "inputs": [s_["inp"] for s_ in t["steps"]][-6:],
                       "what": f"{t['role']}: after the link was lost the handler did not finish its disconnect handling "
                               f"(communication state {t['link_loss_stuck']['cm']}): {t['link_loss_stuck']['blocked'][:2]}"})
    traces = [t for t in traces if t["outcome"] == "done" and not t.get("errors") and not t.get("link_loss_stuck")]
    f = wd / "traces.json"
    f.write_text(json.dumps([{"id": t["id"], "deny": bool(t.get("deny")), "steps": [{"inp": st["inp"], "obs": st["obs"]} for st in t["steps"]]}
                             for t in traces]))
    rj = tlc.run("E30CommJudge", cfg_text="", workdir=wd, workers=1, env={"TRACE_FILE": str(f)}, what="judge", coverage=False,
                 timeout=1800)
    tlc.require_ok(rj, "E30CommJudge")
    verd = {v["id"]: v for v in rj.tagged("V")}
    if len(verd) != len(traces):
        raise Machinery(f"judge: {len(verd)} verdicts for {len(traces)} traces")
    ctx.traces += len(traces)
    ctx.evaluations += sum(len(t["steps"]) for t in traces)
    ctx.nontrivial += len({json.dumps([t["role"], [s["inp"] for s in t["steps"]]]) for t in traces
                           if any(s["obs"]["cm"] == "COMMUNICATING" for s in t["steps"])})
    for t in traces:
        v = verd[t["id"]]
        if t["id"] in (30, 31):
            ctx.sample({"role": t["role"], "mode": t["mode"], "steps": t["steps"][:8]})
        if v["clause"] == "harness-input-infeasible":
            raise Machinery(f"driver executed an infeasible input: trace {t['id']} step {v['at']}")
        if v["clause"] != "ok":
            st = t["steps"][v["at"] - 1]
            prev = t["steps"][v["at"] - 2]["obs"]["cm"] if v["at"] > 1 else "DISABLED"
            sig = "-"
            if st["inp"]["k"] == "S1F14AtT3" and st["obs"]["cm"] == "WAIT_DELAY" and st["obs"]["comm"] == 1:
                sig = "established-event-fired-but-state-WAIT_DELAY"
            elif any(x["inp"]["k"] == "S1F14AtT3" and x["obs"]["cm"] == "WAIT_DELAY" and x["obs"]["comm"] == 1 for x in t["steps"][: v["at"]]):
                sig = "after-established-event-fired-but-state-WAIT_DELAY"
            ctx.violation({"check": "e30comm", "clause": v["clause"], "input": st["inp"]["k"], "ack": st["inp"].get("ack"), "race_signature": sig,
                           "state_before": prev, "role": t["role"], "mode": t["mode"], "application_denies": bool(t.get("deny")), "observed": st["obs"],
                           "allowed": v["allowed"], "inputs": [s["inp"] for s in t["steps"][: v["at"]]],
                           "sched": [t["seed"], t["policy"]],
                           "what": f"{t['role']}: input {json.dumps(st['inp'])} in {prev}: observed "
                                   f"{json.dumps(st['obs'])} is not allowed by the E30 monitor"})
    ctx.rule = ("histories = one shortest path per edge of the E30 monitor relation + random walks of 35 inputs, for host and "
                "equipment handlers, passive and active HSMS mode; timer inputs advance virtual time exactly to the next "
                "deadline; in every second history the peer's S1F14 is sent the moment our S1F13 appears on the wire and helper threads "
                "resume late; non-trivial = distinct histories that reach COMMUNICATING")
    ctx.assumptions += [f"establish-communications delay {D}s and T3 45s (virtual time)"]
    return ctx.finish()
