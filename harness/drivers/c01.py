"""C01 -- SECS-II values round-trip and are encoded exactly as SEMI E5 prescribes (secs.variables API).

Leg M : TLC proves RoundTrip / PrefixFree / MinimalHeader of the reference codec E5Item on a boundary universe (all
        integer widths at min/max/+-1, critical text/binary bytes, finite float patterns, nested lists, every
        length-byte boundary) -- spec/E5Universe.tla.
Leg R : every universe member is a test vector: the real types must encode to the reference bytes, decode them back
        (typed, and untyped through Dynamic) consuming exactly the encoded bytes, and re-encode identically.
Leg V : randomly generated values (seeded) are encoded by the real types; the (abstract item, bytes) records are judged
        by TLC against E5Item (E5Judge).
"""
from __future__ import annotations

import json
import random
import struct

from .. import e5bind, tlc
from ..common import Ctx, Machinery, workdir

PID = "C01"
GARBAGE = b"\xff\x01\x02"


def universe(ctx, wd):
    r = tlc.run("E5Universe", cfg_text="", workdir=wd, workers=1, what="universe", coverage=False,
                env={"E5_THOROUGH": "0" if ctx.quick else "1"}, timeout=3000, heap="12g")
    tlc.require_ok(r, "E5Universe")
    vec, ln, nlb, nar = r.tagged("VEC"), r.tagged("LEN"), r.tagged("NLB"), r.tagged("NAR")
    if len(vec) < 1500 or len(ln) < 100 or len(nlb) < 3000 or len(nar) < 20:
        raise Machinery(f"universe too small: {len(vec)} {len(ln)} {len(nlb)} {len(nar)}")
    ctx.extra["universe"] = {"items": len(vec), "length_vectors": len(ln), "nonminimal_variants": len(nlb), "plain_ints": len(nar)}
    ctx.states += 0
    ctx.tlc_runs.append({"spec": "E5Universe.tla", "what": "codec theorems on the boundary universe (ASSUME evaluation)",
                         "vectors": len(vec) + len(ln) + len(nlb) + len(nar), "wall_s": round(r.wall, 1)})
    return vec, ln, nlb, nar


def desc(item):
    return item["f"] if item["f"] != "L" else "L" + str([desc(c) for c in item["v"]])[:60]


def check_vector(ctx, item, want, tag="vector"):
    f = item["f"]
    base = {"fmt": f, "item": item if len(json.dumps(item)) < 600 else desc(item)}
    try:
        obj, fmt = e5bind.vbuild(item)
        got = bytes(obj.encode())
    except Exception as exc:  # noqa: BLE001
        ctx.violation(dict(base, check="encode", error=type(exc).__name__, what=f"{tag}: constructing/encoding {desc(item)} raised {exc!r}"))
        return
    if got != want:
        ctx.violation(dict(base, check="encode", got=got[:40].hex(), want=want[:40].hex(),
                           what=f"{tag}: {desc(item)} encodes to {got[:24].hex()} instead of {want[:24].hex()}"))
        return
    # typed decode with trailing garbage
    try:
        fresh = e5bind.vfresh(fmt)
        pos = fresh.decode(want + GARBAGE, 0)
        again = bytes(fresh.encode())
        same = fresh.get() == obj.get()
    except Exception as exc:  # noqa: BLE001
        ctx.violation(dict(base, check="decode", error=type(exc).__name__, bytes=want[:40].hex(),
                           what=f"{tag}: decoding the E5 bytes of {desc(item)} raised {exc!r}"))
        return
    if pos != len(want) or again != want or not same:
        ctx.violation(dict(base, check="decode", pos=pos, want_pos=len(want), reencoded=again[:40].hex(),
                           what=f"{tag}: decode of {desc(item)} consumed {pos}/{len(want)} bytes, value equal={same}, "
                                f"re-encode equal={again == want}"))
        return
    # the object HOLDS the value: what the caller does with the list it passed afterwards does not reach into the object
    if f not in ("L", "A", "J", "B") and len(item["v"]) >= 1:
        try:
            src = list(e5bind.pyval(item))
            o3 = e5bind.VCLS[f](src)
            src[0] = 0 if f != "BOOLEAN" else (not src[0])
            src.append(src[0])
            g3 = bytes(o3.encode())
        except Exception as exc:  # noqa: BLE001
            ctx.violation(dict(base, check="holds-value", error=type(exc).__name__, what=f"{tag}: {f} built from a list raised {exc!r} after the caller changed that list"))
            return
        if g3 != want:
            ctx.violation(dict(base, check="holds-value", got=g3[:40].hex(), want=want[:40].hex(),
                               what=f"{tag}: {desc(item)} encodes to {g3[:24].hex()} after the caller changed the list it was built from"))
            return
    # decoding is a function of the bytes, not of what the object held before: an object that holds this value decodes
    # the zero-length item of its type (a list: the empty list and its own first child alone)
    from .. import e5 as ref
    alts = []
    if f != "L":
        if item["v"]:
            alts.append(ref.header(f, 0))
    elif isinstance(fmt, list) and len([x for x in fmt if not isinstance(x, str)]) == 1 and item["v"]:
        alts.append(ref.header("L", 0))
        if len(item["v"]) > 1:
            alts.append(None)
    for alt in alts:
        try:
            if alt is None:
                one, _ = e5bind.vbuild({"f": "L", "v": item["v"][:1]})
                alt = bytes(one.encode())
            used, _ = e5bind.vbuild(item)
            pos = used.decode(alt + GARBAGE, 0)
            again = bytes(used.encode())
            fresh2 = e5bind.vfresh(fmt)
            fresh2.decode(alt, 0)
            same = used.get() == fresh2.get()
        except Exception as exc:  # noqa: BLE001
            ctx.violation(dict(base, check="decode-reused", error=type(exc).__name__, bytes=alt[:40].hex() if alt else None,
                               what=f"{tag}: an object holding {desc(item)} raised {exc!r} when decoding {alt[:16].hex() if alt else '?'}"))
            break
        if pos != len(alt) or again != alt or not same:
            ctx.violation(dict(base, check="decode-reused", bytes=alt[:40].hex(), reencoded=again[:40].hex(), zero_length=len(alt) == 2,
                               what=f"{tag}: an object holding {desc(item)} decodes {alt[:16].hex()} to a value that re-encodes as "
                                    f"{again[:16].hex()} (equal to a fresh object's value: {same})"))
            break
    # encoding is a function of the CURRENT value: encode, change one element through the element object itself, encode again
    if f == "L" and isinstance(fmt, list) and len([x for x in fmt if not isinstance(x, str)]) == 1 and len(item["v"]) >= 2 \
            and item["v"][0] != item["v"][-1]:
        try:
            obj2, _ = e5bind.vbuild(item)
            first = bytes(obj2.encode())
            obj2[0].set(e5bind.vvalue(item["v"][-1]))
            second = bytes(obj2.encode())
            fresh3, _ = e5bind.vbuild({"f": "L", "v": [item["v"][-1]] + item["v"][1:]})
            want2 = bytes(fresh3.encode())
        except Exception as exc:  # noqa: BLE001
            ctx.violation(dict(base, check="encode-after-element-change", error=type(exc).__name__,
                               what=f"{tag}: changing element 0 of {desc(item)} through the element object raised {exc!r}"))
            return
        if first != want or second != want2:
            ctx.violation(dict(base, check="encode-after-element-change", got=second[:40].hex(), want=want2[:40].hex(), stale=second == first,
                               what=f"{tag}: after element 0 of {desc(item)} was set to the value of the last element, encode() gives "
                                    f"{second[:20].hex()} instead of {want2[:20].hex()} (stale bytes of the old value: {second == first})"))
            return
    # untyped decode (Dynamic's type list has no JIS-8)
    if '"J"' in json.dumps(item):
        return
    try:
        import secsgem.secs.variables as var
        dyn = var.Dynamic([])
        pos = dyn.decode(want + GARBAGE, 0)
        again = bytes(dyn.encode())
    except Exception as exc:  # noqa: BLE001
        ctx.violation(dict(base, check="dynamic-decode", error=type(exc).__name__, bytes=want[:40].hex(),
                           what=f"{tag}: Dynamic decode of {desc(item)} raised {exc!r}"))
        return
    if pos != len(want) or again != want:
        ctx.violation(dict(base, check="dynamic-decode", pos=pos, want_pos=len(want), reencoded=again[:40].hex(),
                           what=f"{tag}: Dynamic decode of {desc(item)} consumed {pos}/{len(want)} bytes, re-encode equal={again == want}"))
        return
    # ... and into a Dynamic that was assigned a typed, narrower value of the same format code before
    prev = dynamic_prev(item)
    if prev is None:
        return
    try:
        dyn2 = var.Dynamic([])
        dyn2.set(prev)
        pos = dyn2.decode(want + GARBAGE, 0)
        again = bytes(dyn2.encode())
    except Exception as exc:  # noqa: BLE001
        ctx.violation(dict(base, check="dynamic-decode-reused", error=type(exc).__name__, bytes=want[:40].hex(), previous=repr(prev)[:80],
                           what=f"{tag}: a Dynamic that held {prev!r} raised {exc!r} when decoding {desc(item)}"))
        return
    if pos != len(want) or again != want:
        ctx.violation(dict(base, check="dynamic-decode-reused", pos=pos, want_pos=len(want), reencoded=again[:40].hex(), previous=repr(prev)[:80],
                           what=f"{tag}: a Dynamic that held {prev!r} decodes {desc(item)} to a value that re-encodes as {again[:16].hex()}"))


def dynamic_prev(item):
    """A typed variable object of the item's format code whose definition is narrower than the item (count limit 1, or an
    array of another element type): what a Dynamic may have been assigned before it decodes the item."""
    import secsgem.secs.variables as var

    f = item["f"]
    try:
        if f == "L":
            return var.Array(var.U1, [1, 2])
        if f == "J":
            return None
        one = {"B": b"\x01", "A": "x", "BOOLEAN": [True]}.get(f)
        if one is None:
            one = [1.5] if f in ("F4", "F8") else [1]
        return e5bind.VCLS[f](one, count=1)
    except Exception:  # noqa: BLE001
        return None


def len_item(v):
    """Length vector -> (abstract item, expected bytes)."""
    f, n, elem = v["f"], v["n"], v["elem"][0]
    item = {"f": f, "v": [elem] * n}
    from .. import e5 as ref
    if f == "L":
        body = ref.encode(("B", b"")) * n
    elif f in ("B", "A", "J"):
        body = bytes([elem]) * n
    elif f == "BOOLEAN":
        body = b"\x01" * n
    elif f in ("F4", "F8"):
        body = bytes(elem) * n
    else:
        body = bytes(elem["mag"]) * n
    head = bytes(v["head"])
    nlb = head[0] & 3
    want = head[:1 + nlb] + body
    if len(want) != v["total"] or list(want[-2:]) != v["tail"]:
        raise Machinery(f"length vector reconstruction mismatch for {f} x {n}")
    return item, want


def random_item(rng, depth=0):
    fmts = ["B", "BOOLEAN", "A", "J", "I1", "I2", "I4", "I8", "U1", "U2", "U4", "U8", "F4", "F8"]
    if depth < 3 and rng.random() < 0.3:
        return {"f": "L", "v": [random_item(rng, depth + 1) for _ in range(rng.choice([0, 1, 2, 3, 5]))]}
    f = rng.choice(fmts)
    n = rng.choice([0, 1, 1, 2, 3, 7, 40, 300])
    if f in ("B", "A"):
        return {"f": f, "v": [rng.randrange(256) for _ in range(n)]}
    if f == "J":
        pool = list(range(0, 92)) + list(range(93, 126)) + [127, 165, 8254] + list(range(65377, 65440))
        return {"f": f, "v": [rng.choice(pool) for _ in range(n)]}
    if f == "BOOLEAN":
        return {"f": f, "v": [rng.random() < 0.5 for _ in range(n)]}
    w = e5bind.WIDTH[f]
    if f in ("F4", "F8"):
        out = []
        for _ in range(min(n, 20)):
            while True:
                raw = bytes(rng.randrange(256) for _ in range(w))
                x = struct.unpack(">f" if w == 4 else ">d", raw)[0]
                if x == x and abs(x) != float("inf"):
                    break
            out.append(list(raw))
        return {"f": f, "v": out}
    lo, hi = (-(1 << (8 * w - 1)), (1 << (8 * w - 1)) - 1) if f[0] == "I" else (0, (1 << (8 * w)) - 1)
    vals = [rng.choice([lo, hi, 0, rng.randint(lo, hi), rng.randint(lo, hi)]) for _ in range(min(n, 40))]
    return {"f": f, "v": [e5bind.absnum(x, w) for x in vals]}


def record_random(ctx, wd, builder, n, label):
    """Leg V: encode random items with the real API, let TLC judge (item, bytes)."""
    rng = random.Random(ctx.seed * 101 + 17)
    recs = []
    for i in range(1, n + 1):
        it = random_item(rng)
        try:
            got = builder(it)
        except Exception as exc:  # noqa: BLE001
            ctx.violation({"check": "random-encode", "fmt": it["f"], "error": type(exc).__name__, "item": it if len(str(it)) < 500 else desc(it),
                           "what": f"{label}: encoding random item {desc(it)} raised {exc!r}"})
            continue
        recs.append({"id": i, "item": it, "bytes": list(got)})
    f = wd / f"recs_{label}.json"
    f.write_text(json.dumps(recs))
    rj = tlc.run("E5Judge", cfg_text="", workdir=wd, workers=1, env={"REC_FILE": str(f)}, what=f"judge_{label}", coverage=False,
                 timeout=3000, heap="12g")
    tlc.require_ok(rj, "E5Judge")
    cnt = rj.tagged("N")
    if not cnt or cnt[0]["n"] != len(recs):
        raise Machinery(f"E5Judge judged {cnt} of {len(recs)}")
    byid = {r_["id"]: r_ for r_ in recs}
    for v in rj.tagged("V"):
        r_ = byid[v["id"]]
        ctx.violation({"check": "random-" + v["clause"], "fmt": r_["item"]["f"], "item": r_["item"] if len(str(r_["item"])) < 500 else desc(r_["item"]),
                       "got": bytes(r_["bytes"][:40]).hex(), "what": f"{label}: {v['clause']} for random item {desc(r_['item'])}"})
    ctx.traces += len(recs)
    return recs


def run(ctx: Ctx):
    wd = workdir(PID)
    vec, ln, nlb, nar = universe(ctx, wd)
    for v in vec:
        check_vector(ctx, v["item"], bytes(v["bytes"]))
    for v in ln:
        item, want = len_item(v)
        check_vector(ctx, item, want, tag="length-boundary")
    ctx.evaluations += len(vec) + len(ln)
    ctx.nontrivial += len(vec) + len(ln)
    ctx.sample({"item": vec[5]["item"], "bytes": bytes(vec[5]["bytes"]).hex()})
    ctx.sample({"length_vector": {k: ln[0][k] for k in ("f", "n", "head", "total")}})
    # every character a text type ACCEPTS round-trips (whatever the accepted set is): all of the Basic Multilingual Plane
    import secsgem.secs.variables as var
    naccept = 0
    for T in (var.String, var.JIS8):
        for cp in range(0x10000):
            if 0xD800 <= cp <= 0xDFFF:
                continue
            if ctx.quick and 0x2100 <= cp < 0xFF00 and cp % 16:
                continue      # quick tier: Latin / punctuation / half-width blocks completely, the rest of the plane sampled
            ch = chr(cp)
            try:
                o = T("x" + ch + "y")
                enc = bytes(o.encode())
            except Exception:  # noqa: BLE001
                continue      # not accepted: nothing to hold
            naccept += 1
            try:
                fresh = T()
                pos = fresh.decode(enc + GARBAGE, 0)
                back = fresh.get()
            except Exception as exc:  # noqa: BLE001
                ctx.violation({"check": "text-char-roundtrip", "type": T.__name__, "codepoint": cp, "error": type(exc).__name__,
                               "what": f"{T.__name__} accepts U+{cp:04X} but decoding its own bytes {enc.hex()} raises {exc!r}"})
                continue
            if back != "x" + ch + "y" or pos != len(enc) or len(enc) != 2 + 3:
                ctx.violation({"check": "text-char-roundtrip", "type": T.__name__, "codepoint": cp, "bytes": enc.hex(), "back": repr(back),
                               "what": f"{T.__name__} accepts U+{cp:04X} ({ch!r}) but it decodes back as {back[1:-1]!r} (bytes {enc.hex()})"})
    ctx.extra["accepted_text_characters"] = naccept
    ctx.evaluations += 2 * 0x10000
    recs = record_random(ctx, wd, lambda it: bytes(e5bind.vbuild(it)[0].encode()), 1500 if ctx.quick else 20000, "variables")
    ctx.evaluations += len(recs)
    if recs:
        ctx.sample({"random": recs[0]["item"], "bytes": bytes(recs[0]["bytes"]).hex()})
    ctx.rule = ("vectors = boundary universe proved by TLC (min/max/+-1 of every integer width with 0-3 elements, 13 critical + all 256 "
                "single bytes for A/B, JIS-8 mapped code points, finite float patterns incl. subnormals/FLT_MAX/DBL_MAX, nested lists, "
                "element counts 254..257 and 65535..65537 for every format) + seeded random items judged by TLC")
    ctx.assumptions += ["float value <-> IEEE bit pattern correspondence is CPython's struct module", "2^64 values are sampled, not enumerated"]
    ctx.states = len(vec) + len(ln) + len(nlb) + len(nar)
    ctx.transitions = ctx.states
    return ctx.finish()
