"""C18 -- the state-machine engine keeps one consistent current state.

Leg M : TLC checks SmGen (monitor sanity) and SmEngine (code-shaped engine, all interleavings of two
        requesters) against SmAbs.
Leg R : TLC dumps the complete labelled transition relation (machine, current, request) -> expected
        observation of SmAbs for the shipped machines (introspected from the live objects) and a batch
        of generated hierarchical machines; every edge is replayed on the real engine.
Leg V : random long walks and two real threads under simrt with line-level preemption inside the
        engine; the recorded observations are judged by TLC (SmJudge).
"""
from __future__ import annotations

import json
import logging
import random
from collections import deque

from .. import simrt, smgen, tlc
from ..common import Ctx, Machinery, workdir

PID = "C18"


def build_machines(seed, n_random):
    facs = smgen.shipped_factories()
    machines = [smgen.introspect(n, f) for n, f in facs.items()]
    rng = random.Random(seed * 7919 + 18)
    for i in range(n_random):
        machines.append(smgen.random_machine(rng, i))
    return machines, facs


def _step(mach, sts, log, t):
    log.clear()
    late = getattr(mach, "late_log", None)
    if late is not None:
        late.clear()
    res = "ok"
    try:
        mach.request(t)
    except Exception as exc:  # noqa: BLE001
        res = type(exc).__name__
    ob = smgen.observe(mach, sts)
    ob["res"] = res
    ob["ev"] = [list(e) for e in log]
    if late is not None:
        first = sorted(tuple(e) for e in log if e[0] in ("enter", "leave", "called"))
        second = sorted(tuple(e) for e in late)
        if first != second:
            ob["late_observer_differs"] = {"first": [list(e) for e in first], "late": [list(e) for e in second]}
    return ob


def public_request(mach, t):
    """The machine's own request method for transition t where it has one (they may do more than _perform_transition)."""
    f = getattr(mach, t, None) if not t.startswith("_") else None
    if callable(f) and getattr(f, "__self__", None) is mach:
        return f
    return lambda: mach._perform_transition(t)


def reject_runs(machines, facs, seed, per_machine, length):
    """Histories on the shipped machines through their public request methods: the full sequence on one object, the same
    sequence without the rejected requests on a fresh one (RejectJudge)."""
    rng = random.Random(seed * 31 + 1818)
    out = []
    rid = 0
    for M in machines:
        if M["name"] not in facs:
            continue
        alpha = list(M["trans"])
        for _ in range(per_machine):
            seq = [rng.choice(alpha) for _ in range(length)]

            def play(requests):
                log = []
                mach, sts = smgen.make_real(M, facs, log)
                init = smgen.observe(mach, sts)
                steps = []
                for t in requests:
                    log.clear()
                    ok = True
                    try:
                        public_request(mach, t)()
                    except Exception:  # noqa: BLE001
                        ok = False
                    ob = smgen.observe(mach, sts)
                    steps.append({"t": t, "ok": ok, "cur": ob["cur"], "active": ob["active"], "ev": [list(e) for e in log]})
                return init, steps

            init, full = play(seq)
            _, filt = play([st["t"] for st in full if st["ok"]])
            rid += 1
            out.append({"id": rid, "m": M["name"], "init": init, "full": full, "filt": filt})
    return out


def reentrant_runs(seed, n):
    """Machines whose enter handlers leave the state and come back (once): the state's enter event fires again while it is still being
    dispatched.  Two observers per event, one registered before and one after the handler; per request both must have seen the same
    events, the active set must be the current state and its ancestors, and the events must be those of the transitions performed."""
    rng = random.Random(seed * 17 + 181818)
    out = []
    for rid in range(1, n + 1):
        k = rng.choice([2, 3, 4])
        names = [f"S{i}" for i in range(k)]
        parent = {nm: "-" for nm in names}
        if k >= 3 and rng.random() < 0.5:
            parent[names[-1]] = names[0]                      # one child state
        M = {"name": f"cyc{rid}", "states": names, "parent": parent, "init": names[0], "handler": {nm: [] for nm in names},
             "trans": {f"go{j}": {"src": [x for x in names if x != names[j]], "dst": names[j]} for j in range(k)}}
        early, late = [], []
        g = smgen.GenMachine(M, early)           # registers the early observers (and its own late_log observers, unused here)
        home = rng.randrange(k)
        away = rng.choice([j for j in range(k) if j != home])
        fired = {"n": 0}

        def bounce(_d, g=g, home=home, away=away, fired=fired):
            if fired["n"] == 0:
                fired["n"] = 1
                for t_ in (f"go{away}", f"go{home}"):
                    try:
                        g._perform_transition(t_)
                    except Exception:  # noqa: BLE001   (refused when the state is entered as an ancestor: the handler goes on)
                        pass

        g.st[names[home]].events.enter.register(bounce)
        smgen.attach_recorders(g, g.st, late)
        steps = []
        seq = [f"go{rng.randrange(k)}" for _ in range(6)]
        if f"go{home}" not in seq:
            seq[rng.randrange(len(seq))] = f"go{home}"
        for t in seq:
            early.clear()
            late.clear()
            ok = True
            try:
                g._perform_transition(t)
            except Exception:  # noqa: BLE001
                ok = False
            ob = smgen.observe(g, g.st)
            anc_ = []
            c = ob["cur"]
            while c != "-":
                anc_.append(c)
                c = parent[c]
            steps.append({"t": t, "ok": ok, "cur": ob["cur"], "active_ok": sorted(anc_) == ob["active"],
                          "early": sorted(tuple(e) for e in early if e[0] in ("enter", "leave", "called")), "late": sorted(tuple(e) for e in late)})
        out.append({"id": rid, "machine": M, "home": names[home], "away": names[away], "steps": steps})
    return out


def replay_paths(machines, facs, edges_by_m, walks_by_m):
    """Returns list of observation records (kind seq)."""
    obs = []
    for mi, M in enumerate(machines, start=1):
        edges = edges_by_m.get(mi, [])
        # BFS over expected graph for shortest request paths
        succ = {}
        for e in edges:
            succ.setdefault(e["from"], []).append((e["t"], e["exp"]["cur"]))
        paths = {M["init"]: []}
        dq = deque([M["init"]])
        while dq:
            s = dq.popleft()
            for t, d in succ.get(s, []):
                if d not in paths:
                    paths[d] = paths[s] + [t]
                    dq.append(d)
        seqs = []
        for e in edges:
            if e["from"] in paths:
                seqs.append(paths[e["from"]] + [e["t"]])
        seqs.extend(walks_by_m.get(mi, []))
        for seq in seqs:
            log = []
            mach, sts = smgen.make_real(M, facs, log)
            for t in seq:
                c = mach.current_state.name
                ob = _step(mach, sts, log, t)
                obs.append({"kind": "seq", "m": mi, "c": c, "t": t, "obs": ob, "path": list(seq)})
    return obs


def par_runs(machines, facs, seed, n_sched, line_funcs):
    """Two real threads, one request each, under line-level preemption. One observation per run."""
    out = []
    rng = random.Random(seed)
    cases = []
    for mi, M in enumerate(machines, start=1):
        tn = list(M["trans"])
        # start states reachable by one request from init, plus init
        starts = [[]] + [[t] for t in tn if M["init"] in M["trans"][t]["src"]][:3]
        for pre in starts:
            for _ in range(n_sched):
                t1, t2 = rng.choice(tn), rng.choice(tn)
                cases.append((mi, M, pre, t1, t2, rng.randrange(1 << 30)))
    for mi, M, pre, t1, t2, sd in cases:
        rec = {}

        def main(s, M=M, pre=pre, t1=t1, t2=t2, rec=rec):
            log = []
            mach, sts = smgen.make_real(M, facs, log)
            for t in pre:
                try:
                    mach.request(t)
                except Exception:  # noqa: BLE001
                    pass
            log.clear()
            c = mach.current_state.name
            # flags before must be consistent, otherwise the start state itself is not a state of SmAbs
            res = {}

            def worker(k, t):
                try:
                    mach.request(t)
                    res[k] = "ok"
                except Exception as exc:  # noqa: BLE001
                    res[k] = type(exc).__name__

            th1 = simrt.Thread(target=worker, args=(1, t1), name="req1")
            th2 = simrt.Thread(target=worker, args=(2, t2), name="req2")
            th1.start()
            th2.start()
            th1.join()
            th2.join()
            ob = smgen.observe(mach, sts)
            ob.update({"res1": res.get(1, "?"), "res2": res.get(2, "?"), "ev": [list(e) for e in log]})
            rec.update({"kind": "par", "m": mi, "c": c, "t1": t1, "t2": t2, "obs": ob})

        s = simrt.run(main, seed=sd, policy="random", switch_prob=0.5, line_funcs=line_funcs, max_vtime=1e6)
        if s.outcome != "done" or s.errors:
            raise Machinery(f"par run failed: {s.outcome} {s.errors[:1]} {s.wedge_info}")
        rec["sched_seed"] = sd
        rec["choices"] = s.choices[:200]
        out.append(rec)
    return out


def par_held_runs(machines, facs, seed, per_machine):
    """A second request arrives while the first transition is inside the LEAVE handler of the state it is leaving: the engine
    has not moved yet, so a request that is not allowed in that state must raise and change nothing (then the first completes)."""
    out = []
    rng = random.Random(seed)
    cases = []
    for mi, M in enumerate(machines, start=1):
        tn = list(M["trans"])
        starts = [[]] + [[t] for t in tn if M["init"] in M["trans"][t]["src"]][:3]
        cand = []
        for pre in starts:
            c = M["init"] if not pre else M["trans"][pre[0]]["dst"]
            for t1 in tn:
                if c not in M["trans"][t1]["src"] or M["trans"][t1]["dst"] == c:
                    continue
                d = M["trans"][t1]["dst"]
                later = [t for t in tn if c not in M["trans"][t]["src"] and d in M["trans"][t]["src"]]
                other = [t for t in tn if c not in M["trans"][t]["src"]]
                for t2 in (later[:2] or other[:1]):
                    cand.append((pre, c, t1, t2))
        rng.shuffle(cand)
        for pre, c, t1, t2 in cand[:per_machine]:
            cases.append((mi, M, pre, c, t1, t2))
    for mi, M, pre, c0, t1, t2 in cases:
        rec = {}

        def main(s, M=M, pre=pre, t1=t1, t2=t2, rec=rec, c0=c0):
            log = []
            mach, sts = smgen.make_real(M, facs, log)
            for t in pre:
                try:
                    mach.request(t)
                except Exception:  # noqa: BLE001
                    pass
            c = mach.current_state.name
            if c != c0:
                rec["skip"] = True          # an enter handler of the start state moved on: not the planned situation
                return
            log.clear()
            inside, release = simrt.Event(), simrt.Event()
            held = {"n": 0}

            def hold(_d):
                if held["n"] == 0:
                    held["n"] = 1
                    # the planned situation: the first thing request t1 does is leave the start state; if states were entered or
                    # transitions completed before, this leave belongs to a nested transition requested by an enter handler
                    held["nested"] = any(e[0] in ("enter", "called") for e in log)
                    inside.set()
                    release.wait()

            sts[c].events.leave.register(hold)
            res = {}

            def worker(k, t):
                try:
                    mach.request(t)
                    res[k] = "ok"
                except Exception as exc:  # noqa: BLE001
                    res[k] = type(exc).__name__

            th1 = simrt.Thread(target=worker, args=(1, t1), name="req1")
            th1.start()
            if not inside.wait(5.0):
                # the transition does not leave the start state itself (e.g. the destination is one of its descendants): the first
                # request ran through without stopping in a leave handler -- not the planned situation
                th1.join()
                rec["skip"] = True
                return
            if held.get("nested"):
                # the start state is left only later, inside a nested transition requested by an enter handler (the current state is
                # another one by then): not the planned situation
                release.set()
                th1.join()
                rec["skip"] = True
                return
            th2 = simrt.Thread(target=worker, args=(2, t2), name="req2")
            th2.start()
            th2.join()
            release.set()
            th1.join()
            ob = smgen.observe(mach, sts)
            ob.update({"res1": res.get(1, "?"), "res2": res.get(2, "?"), "ev": [list(e) for e in log]})
            rec.update({"kind": "par", "m": mi, "c": c, "t1": t1, "t2": t2, "obs": ob})

        s = simrt.run(main, seed=1, policy="fifo", max_vtime=1e6)
        if s.outcome != "done" or s.errors:
            raise Machinery(f"par-held run failed: {s.outcome} {s.errors[:1]} {s.wedge_info}")
        if rec.get("skip") or not rec:
            continue
        rec["sched_seed"] = 1
        rec["choices"] = []
        out.append(rec)
    return out


def judge(ctx, wd, records, label):
    """TLC (SmJudge) decides every recorded observation. Returns verdict list aligned with records."""
    # dedupe identical observations to keep the batch small
    keyed = {}
    for r in records:
        k = json.dumps({x: r[x] for x in r if x in ("kind", "m", "c", "t", "t1", "t2", "obs")}, sort_keys=True)
        keyed.setdefault(k, []).append(r)
    batch = []
    groups = []
    for i, (k, rs) in enumerate(keyed.items(), start=1):
        r = dict(json.loads(k))
        r["id"] = i
        batch.append(r)
        groups.append(rs)
    f = wd / f"obs_{label}.json"
    f.write_text(json.dumps(batch))
    res = tlc.run("SmJudge", cfg_text="", workdir=wd, workers=1, env={"OBS_FILE": str(f)}, what=f"judge_{label}",
                  coverage=False, timeout=1200)
    tlc.require_ok(res, "judge")
    verdicts = {v["id"]: v for v in res.tagged("V")}
    if len(verdicts) != len(batch):
        raise Machinery(f"judge returned {len(verdicts)} verdicts for {len(batch)} observations")
    return batch, groups, verdicts


def features(M, rec):
    """Structured description of a failing observation (for known-finding signatures)."""
    f = {"machine": M["name"], "shipped": not M["name"].startswith("gen")}
    f["has_handlers"] = any(M["handler"].values())
    f["max_depth"] = max(len(smgen.anc(M, s)) for s in M["states"])
    return f


def run(ctx: Ctx):
    logging.disable(logging.CRITICAL)
    simrt.install()
    wd = workdir(PID)
    n_random = 40 if ctx.quick else 400
    holder = {}

    def main(s):
        holder["machines"], holder["facs"] = build_machines(ctx.seed, n_random)

    s = simrt.run(main)
    if s.outcome != "done" or s.errors:
        raise Machinery(f"introspection failed: {s.outcome} {s.errors}")
    machines, facs = holder["machines"], holder["facs"]
    smgen.write_machines_module(wd / "SmMachines.tla", machines)

    # ---- Leg M/R generation: complete labelled transition relation of the monitor
    cfg = ("INIT Init\nNEXT Next\nVIEW View\nACTION_CONSTRAINT Dump\nINVARIANT CurIsState\nINVARIANT ActiveClosed\n"
           "INVARIANT ErrorIsNoop\nINVARIANT CalledOnce\n")
    res = tlc.run("SmGen", cfg_text=cfg, workdir=wd, workers=1, what="gen", coverage=False, timeout=1200)
    tlc.require_ok(res, "SmGen")
    ctx.add_tlc(res, "monitor transition relation (machine, current, request) -> expected observation")
    edges = res.tagged("TR")
    edges_by_m = {}
    for e in edges:
        edges_by_m.setdefault(e["m"], []).append(e)
    if len(edges) < len(machines):
        raise Machinery("vacuous: too few monitor transitions")

    # random long walks (history dependence: stale flags accumulate)
    rng = random.Random(ctx.seed + 1)
    walks = {}
    for mi, M in enumerate(machines, start=1):
        alpha = list(M["trans"]) + ["UNKNOWN"]
        walks[mi] = [[rng.choice(alpha) for _ in range(25)] for _ in range(2 if ctx.quick else 8)]

    def main2(s):
        holder["obs"] = replay_paths(machines, facs, edges_by_m, walks)
        holder["rej"] = reject_runs(machines, facs, ctx.seed, 30 if ctx.quick else 300, 14)
        holder["cyc"] = reentrant_runs(ctx.seed, 60 if ctx.quick else 600)

    s = simrt.run(main2, wall_timeout=1800)
    if s.outcome != "done" or s.errors:
        raise Machinery(f"replay failed: {s.outcome} {s.errors}")
    obs = holder["obs"]

    rej = holder["rej"]
    fr = wd / "reject_runs.json"
    fr.write_text(json.dumps([{k: r_[k] for k in ("id", "init", "full", "filt")} for r_ in rej]))
    rjr = tlc.run("RejectJudge", cfg_text="", workdir=wd, workers=1, env={"TRACE_FILE": str(fr)}, what="reject_judge", coverage=False, timeout=1800)
    tlc.require_ok(rjr, "RejectJudge")
    vr = {v["id"]: v for v in rjr.tagged("V")}
    if len(vr) != len(rej):
        raise Machinery(f"RejectJudge: {len(vr)} verdicts for {len(rej)} runs")
    ctx.traces += len(rej)
    ctx.evaluations += sum(len(r_["full"]) for r_ in rej)
    ctx.extra["histories_with_and_without_the_rejected_requests"] = len(rej)
    ctx.extra["rejected_requests_in_them"] = sum(1 for r_ in rej for st in r_["full"] if not st["ok"])
    shown = 0
    for r_ in rej:
        v = vr[r_["id"]]
        if v["clause"] != "ok" and shown < 10:
            shown += 1
            acc = [st for st in r_["full"] if st["ok"]]
            at = v["at"]
            ctx.violation({"check": "reject-history", "clause": v["clause"], "machine": r_["m"], "requests": [st["t"] + ("" if st["ok"] else " (rejected)") for st in r_["full"]],
                           "with_rejected": acc[at - 1] if at else None, "without_rejected": r_["filt"][at - 1] if at else None,
                           "what": f"{r_['m']}: {v['clause']}: requests {[st['t'] + ('' if st['ok'] else '!') for st in r_['full']]}"
                                   + (f"; accepted request {at} ({acc[at - 1]['t']}) ends in {acc[at - 1]['cur']} after the rejected ones, in {r_['filt'][at - 1]['cur']} without them" if at else "")})
    shown_cyc = 0
    ctx.extra["machines_whose_handlers_re_enter_their_own_state"] = len(holder["cyc"])
    for r_ in holder["cyc"]:
        ctx.traces += 1
        ctx.evaluations += len(r_["steps"])
        for st in r_["steps"]:
            clause = None
            if st["early"] != st["late"]:
                clause = "an-observer-registered-later-misses-events"
            elif not st["active_ok"]:
                clause = "active-set-is-not-current-state-and-ancestors"
            elif not st["ok"] and st["early"]:
                clause = "rejected-request-fired-events"
            if clause and shown_cyc < 10:
                shown_cyc += 1
                ctx.violation({"check": "observers", "clause": clause, "machine": r_["machine"], "handler": f"enter {r_['home']}: go to {r_['away']} and back (first time only)",
                               "request": st["t"], "seen_by_first_observer": [list(e) for e in st["early"]], "seen_by_later_observer": [list(e) for e in st["late"]],
                               "what": f"machine with states {r_['machine']['states']} whose enter handler of {r_['home']} goes to {r_['away']} and back: request {st['t']}: {clause}; "
                                       f"observer registered before the handler saw {st['early']}, after it {st['late']}"})
                break
    shown_late = 0
    for o_ in obs:
        d_ = o_["obs"].pop("late_observer_differs", None)
        if d_ and shown_late < 10:
            shown_late += 1
            ctx.violation({"check": "observers", "clause": "an-observer-registered-later-misses-events", "machine": machines[o_["m"] - 1]["name"], "state": o_["c"], "request": o_["t"],
                           "seen_by_first_observer": d_["first"], "seen_by_later_observer": d_["late"], "path": o_.get("path"),
                           "what": f"{machines[o_['m'] - 1]['name']}: request {o_['t']} in {o_['c']}: an observer registered after the handlers saw {d_['late']}, "
                                   f"the one registered before them {d_['first']} -- every performed transition fires its events once for every observer"})
    batch, groups, verdicts = judge(ctx, wd, obs, "seq")
    ctx.traces += len(obs)
    ctx.evaluations += len(obs)
    ctx.nontrivial += sum(1 for b in batch if b["obs"]["res"] == "ok")
    for b, rs in zip(batch, groups):
        v = verdicts[b["id"]]
        M = machines[b["m"] - 1]
        if b["obs"]["res"] == "ok" and len(b["obs"]["ev"]) > 3:
            ctx.sample({"machine": M["name"], "from": b["c"], "request": b["t"], "observed": b["obs"]}, cap=4)
        if not v["ok"]:
            rec = {"check": "seq", "diff": v["diff"], "from": b["c"], "request": b["t"], "observed": b["obs"],
                   "expected": v["exp"], "path": rs[0]["path"], "machine_def": M,
                   "what": f"engine disagrees with SmAbs on {v['diff']}: machine {M['name']} state {b['c']} "
                           f"request {b['t']}"}
            rec.update(features(M, b))
            ctx.violation(rec)

    # ---- Leg V: two concurrent requesters on the real engine, line-level preemption
    import secsgem.common.state_machine as smm

    line_funcs = [smm.StateMachine._perform_transition, smm.State.enter, smm.State.leave,
                  smm.StateMachine.transition]
    sel = machines[:10] + machines[10:10 + (10 if ctx.quick else 60)]
    pars = par_runs(sel, facs, ctx.seed + 2, 3 if ctx.quick else 12, line_funcs)
    # machine indices in pars refer to positions inside `sel`, which is a prefix-preserving selection
    pbatch, pgroups, pverd = judge(ctx, wd, pars, "par")
    ctx.traces += len(pars)
    ctx.evaluations += len(pars)
    for b, rs in zip(pbatch, pgroups):
        v = pverd[b["id"]]
        M = machines[b["m"] - 1]
        if not v["ok"]:
            rec = {"check": "par", "diff": "not serializable", "from": b["c"], "t1": b["t1"], "t2": b["t2"],
                   "observed": b["obs"], "expected_one_order": v["exp"], "sched_seed": rs[0]["sched_seed"],
                   "choices": rs[0]["choices"], "machine_def": M,
                   "what": f"two concurrent requests {b['t1']} || {b['t2']} in {b['c']} of {M['name']} are not "
                           f"equivalent to a serial order"}
            rec.update(features(M, b))
            ctx.violation(rec)
    ctx.sample({"concurrent": pars[0]} if pars else {}, cap=6)
    # a request that arrives while the first transition is still in its source state's leave handler
    helds = par_held_runs(machines, facs, ctx.seed + 3, 3 if ctx.quick else 10)
    if len(helds) < 30:
        raise Machinery(f"too few held-in-leave-handler cases: {len(helds)}")
    hbatch, hgroups, hverd = judge(ctx, wd, helds, "parheld")
    ctx.traces += len(helds)
    ctx.evaluations += len(helds)
    ctx.extra["held_in_leave_handler_cases"] = len(helds)
    for b, rs in zip(hbatch, hgroups):
        v = hverd[b["id"]]
        M = machines[b["m"] - 1]
        if not v["ok"] or b["obs"]["res2"] == "ok":
            rec = {"check": "par-held-in-leave-handler", "diff": "not serializable" if not v["ok"] else "request accepted in a state that does not allow it",
                   "from": b["c"], "t1": b["t1"], "t2": b["t2"], "observed": b["obs"], "expected_one_order": v.get("exp"), "machine_def": M,
                   "what": f"request {b['t2']} (not allowed in {b['c']}) made while {b['t1']} was inside the leave handler of {b['c']} of {M['name']}: "
                           f"result {b['obs']['res2']}, final state {b['obs']['cur']}, active {b['obs']['active']}"}
            rec.update(features(M, b))
            ctx.violation(rec)

    # ---- Leg M: code-shaped engine model against the monitor, all interleavings of two requesters
    nm = min(len(machines), 30 if ctx.quick else 80)

    def ecfg(locked, par, k, invs):
        return (f"SPECIFICATION Spec\nCONSTANTS Locked = {locked}\n K = {k}\n NM = {nm}\n Par = {par}\n"
                + "".join(f"INVARIANT {i}\n" for i in invs))

    r1 = tlc.run("SmEngine", cfg_text=ecfg("FALSE", "FALSE", 3 if ctx.quick else 4,
                                           ["SeqConforms", "QuiescentActive", "StackBound"]),
                 workdir=wd, what="engine_seq", timeout=1800)
    tlc.require_ok(r1, "SmEngine sequential => SmAbs")
    tlc.require_covered(r1, ["DoStartSeq", "AckSeq", "DoStep|Step"])
    ctx.add_tlc(r1, "code-shaped engine, sequential + nested requests, refines SmAbs")
    r2 = tlc.run("SmEngine", cfg_text=ecfg("TRUE", "TRUE", 1, ["SeqConforms", "ParSerializable"]),
                 workdir=wd, what="engine_par_locked", timeout=1800)
    tlc.require_ok(r2, "SmEngine with lock => serializable")
    tlc.require_covered(r2, ["DoStartPar", "DoStep|Step"])
    ctx.add_tlc(r2, "two requesters, re-entrant lock: every interleaving serializable")
    r3 = tlc.run("SmEngine", cfg_text=ecfg("FALSE", "TRUE", 1, ["ParSerializable"]),
                 workdir=wd, what="engine_par_unlocked", timeout=1800, expect_error=True)
    ctx.add_tlc(r3, "two requesters as coded (no lock): TLC finds the non-serializable interleaving "
                    "(model-level witness of known finding C18-par-nolock)")
    ctx.extra["model_unlocked_counterexample_found"] = (r3.error_kind == "invariant")

    ctx.rule = ("every (machine, current, request) edge of the SmAbs transition relation replayed on the real engine "
                "via a shortest path, plus random walks of 25 requests, plus pairs of concurrent requests under "
                "line-level preemption, plus a second (disallowed) request made while the first is inside its source state's leave handler; non-trivial = performed transition (result ok)")
    ctx.extra["machines"] = {"shipped": 10, "generated": n_random}
    ctx.assumptions += ["SmAbs is the reading of the property statement; enter order child-first is taken from the "
                        "code only to place nested requests", "simrt shims implement CPython primitive semantics"]
    return ctx.finish()
