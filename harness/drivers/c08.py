"""C08 -- every primary expecting a reply is answered exactly once with the same system bytes.

Leg M : TLC checks ReplyDiscipline (dispatcher takes primaries one at a time and answers per the decision table
        ReplyMon, interleaved with unrelated traffic): at most one answer per request, none without request.
Leg R/V: real GemHostHandler and GemEquipmentHandler in COMMUNICATING receive every catalogued stream/function and
        uncatalogued S/F numbers (thorough: all 128 x 256), with and without W-bit, with well-formed / malformed /
        empty / trailing-byte bodies, in long mixed sequences, plus probe callbacks (returns reply / returns nothing /
        raises); for every inbound message the outbound messages carrying its system bytes are recorded and judged
        by TLC (ReplyJudge over ReplyMon).
"""
from __future__ import annotations

import json
import random

from .. import hsmsrun, simrt, tlc
from ..common import Ctx, Machinery, chunks, pmap, workdir

PID = "C08"


def catalogue():
    from secsgem.secs.functions._all import secs_streams_functions

    out = {}
    for cls in secs_streams_functions:
        try:
            body = cls().encode()
        except Exception:  # noqa: BLE001
            body = b""
        out[(cls.stream, cls.function)] = bytes(body)
    return out


PROBES = {  # catalogued primaries without built-in callback on either handler, reply class exists
    "probe-reply": (12, 1), "probe-none": (12, 3), "probe-raise": (12, 5),
}


def run_batch(job):
    bid, role, msgs, seed = job
    hsmsrun.quiet_logging()
    simrt.install()
    out = []

    def main(s):
        import secsgem.common
        dt = secsgem.common.DeviceType.EQUIPMENT if role == "equipment" else secsgem.common.DeviceType.HOST
        ep = hsmsrun.Ep(mode="passive", kind=role, device_type=dt)
        h = ep.handler
        if not hsmsrun.establish(s, ep):
            raise Machinery("could not establish communication")
        if bid % 5 == 3:
            # communication is given up through the API and established again (once or twice) before the messages arrive
            for _ in range(1 + bid % 2):
                dn = {"v": False}

                def cyc(dn=dn):
                    h.disable()
                    dn["v"] = True

                simrt.Thread(target=cyc, name="app_disable").start()
                okd, whyd = s.run_until(lambda: dn["v"], max_dt=60)
                if not okd:
                    raise Machinery(f"disable() did not return in the C08 run: {whyd}")
                s.advance(0.5)
                if not hsmsrun.establish(s, ep):
                    raise Machinery("could not establish communication again after disable()/enable()")

        def p_reply(handler, message):
            return handler.stream_function(message.header.stream, message.header.function + 1)()

        def p_none(handler, message):
            return None

        def p_raise(handler, message):
            raise RuntimeError("probe")

        h.register_stream_function(*PROBES["probe-reply"], p_reply)
        h.register_stream_function(*PROBES["probe-none"], p_none)
        h.register_stream_function(*PROBES["probe-raise"], p_raise)
        probe_of = {v: k for k, v in PROBES.items()}
        if bid % 3 == 0:
            # the application registers its own callbacks for two functions the handler has built-in handlers for
            names = [n[4:] for n in dir(h) if n.startswith("_on_s") and len(n) == 10 and n[4:] in h.callbacks]      # built-in handlers
            have = sorted((int(n[1:3]), int(n[4:6])) for n in names if n[3] == "f" and n[1:3].isdigit() and n[4:6].isdigit()
                          and (int(n[1:3]), int(n[4:6])) not in ((1, 13), (1, 14)) and int(n[4:6]) % 2 == 1)
            have = [sf for sf in have if h.settings.streams_functions.function(sf[0], sf[1] + 1) is not None][:2]
            if len(have) == 2:
                def o_self(handler, message):
                    if message.header.require_response:
                        handler.send_response(handler.stream_function(message.header.stream, message.header.function + 1)(), message.header.system)

                def o_none(handler, message):
                    return None

                h.register_stream_function(have[0][0], have[0][1], o_self)
                h.register_stream_function(have[1][0], have[1][1], o_none)
                probe_of[have[0]] = "override-selfreply"
                probe_of[have[1]] = "override-none"
        # history: system bytes the handler itself used before -- one transaction of its own that timed out (T3), one
        # that was answered.  A peer is free to pick the same values for its primaries later on.
        own = []
        if bid % 2 == 1:
            from .. import e5
            for answered in (False, True):
                fin = {"v": False}

                def ayt(fin=fin):
                    try:
                        h.are_you_there()
                    except Exception:  # noqa: BLE001
                        pass
                    fin["v"] = True

                simrt.Thread(target=ayt, name="own_request").start()
                s.settle()
                mine = [f for f in ep.link.take_frames() if f.get("stype") == 0 and f["s"] == 1 and f["f"] == 1 and f["w"]]
                if len(mine) != 1:
                    raise Machinery(f"own S1F1 not seen: {mine}")
                if answered:
                    body2 = e5.encode(e5.L()) if role == "equipment" else e5.encode(e5.L(e5.A("mdln"), e5.A("rev")))
                    ep.link.feed(hsmsrun.data_frame(1, 2, False, mine[0]["system"], body2))
                okk, why = s.run_until(lambda: fin["v"], max_dt=h.settings.timeouts.t3 + 5)
                if not okk:
                    raise Machinery(f"own request did not return: {why}")
                own.append(mine[0]["system"])
            ep.link.take_frames()
        # bursts: in every fourth batch 2-3 messages arrive back to back (one segment), so the receive path queues a block
        # while the dispatcher is still busy with / just finishing the previous one
        burst = bid % 4 == 2
        rngb = random.Random(seed * 7919 + bid)
        groups, i = [], 0
        while i < len(msgs):
            k = rngb.choice([2, 3]) if burst else 1
            groups.append(msgs[i:i + k])
            i += k
        for grp in groups:
            if h.communication_state.current.name != "COMMUNICATING":
                raise Machinery("handler left COMMUNICATING during the C08 run")
            sent = []
            chunk = b""
            for (mid, sfn, fn, w, bodyk, body) in grp:
                name = f"s{sfn:02d}f{fn:02d}"
                if (sfn, fn) in probe_of:
                    cls = probe_of[(sfn, fn)]
                elif name in h.callbacks:
                    cls = "builtin"
                else:
                    cls = "none"
                # system bytes: mostly distinct ordinary values, every 7th message a boundary value of the 32-bit range
                sysid = [0, 1, 0x7FFFFFFF, 0x80000000, 0xFFFFFFFF][mid // 7 % 5] if mid % 7 == 0 else 0x70000 + mid
                reused = None
                if own and mid % 5 in (1, 3):
                    reused = "timed-out" if mid % 5 == 1 else "answered"
                    sysid = own[0] if mid % 5 == 1 else own[1]
                if bid % 4 == 1 and not reused:
                    # a peer that numbers every transaction alike: the system bytes of the transaction it closed just before
                    sysid = 0x424200 + bid
                    reused = "previous-transaction-of-the-peer"
                if any(x[0] == sysid for x in sent):
                    sysid = 0x70000 + mid          # distinct system bytes inside one burst
                frame = hsmsrun.data_frame(sfn, fn, w, sysid, body)
                sent.append((sysid, frame, mid, sfn, fn, w, bodyk, cls, reused))
                chunk += frame
            if burst and rngb.random() < 0.3:
                ep.link.feed(chunk)
            elif burst:
                # separate segments, the next one arriving while the previous message is somewhere in the dispatcher
                for (_sysid, frame_, *_rest) in sent:
                    ep.link.feed(frame_)
                    for _ in range(rngb.choice([0, 1, 2, 3, 5, 8, 13, 21, 34, 55, 89])):
                        s.yield_point()
            else:
                ep.link.feed(sent[0][1])
            ok, why = s.run_until(lambda: False, max_dt=0.5)   # lets sender threads of side effects run
            frames_out = ep.link.take_frames()
            for (sysid, frame, mid, sfn, fn, w, bodyk, cls, reused) in sent:
                echo = []
                for f in frames_out:
                    if f.get("stype") == 0 and f["system"] == sysid:
                        echo.append({"s": f["s"], "f": f["f"],
                                     "hdr": f["s"] == 9 and f["f"] == 5 and f["body"] == b"\x21\x0a" + frame[4:14]})
                out.append({"id": mid, "m": {"s": sfn, "f": fn, "w": w, "cls": cls, "body": "ok" if bodyk == "ok" else "bad"},
                            "bodyk": bodyk, "echo": echo, "role": role, "reused_system": reused, "burst": len(sent) if burst else 0})

    import secsgem.common.protocol_dispatcher as pd
    pol = ["random", "pct", "random"][bid // 4 % 3] if bid % 4 == 2 else "fifo"
    s = simrt.run(main, seed=seed * 31 + bid, policy=pol, switch_prob=0.4, max_vtime=1e7, wall_timeout=600, pct_depth=3, pct_horizon=2000,
                  line_funcs=[pd.ProtocolDispatcher._dispatcher_thread_function, pd.ProtocolDispatcher.queue_block] if bid % 4 == 2 else [])
    return {"bid": bid, "role": role, "outcome": s.outcome, "errors": [e[:2] for e in s.errors[:2]], "recs": out,
            "wedge": s.wedge_info}


def run(ctx: Ctx):
    wd = workdir(PID)
    cfg = "SPECIFICATION Spec\nCONSTANTS MaxMsgs = 2\nINVARIANT NoAnswerWithoutRequest\nINVARIANT AtMostOnce\n"
    r = tlc.run("ReplyDiscipline", cfg_text=cfg, workdir=wd, what="model", timeout=900)
    tlc.require_ok(r, "ReplyDiscipline")
    tlc.require_covered(r, ["Arrive", "Take", "Answer", "OtherTraffic"])
    ctx.add_tlc(r, "reply discipline: histories of 2 inbound messages x classes x unrelated traffic")
    cat = catalogue()
    rng = random.Random(ctx.seed + 8)
    msgs = []
    mid = 0

    def add(sfn, fn, w, bodyk, body):
        nonlocal mid
        mid += 1
        msgs.append((mid, sfn, fn, w, bodyk, body))

    for (sfn, fn), body in sorted(cat.items()):
        for w in (True, False):
            add(sfn, fn, w, "ok", body)
            if fn % 2 == 1:
                add(sfn, fn, w, "malformed", b"\x01\xff")
                if body:
                    add(sfn, fn, w, "empty", b"")
                add(sfn, fn, w, "trailing", body + b"\x00")
    allsf = [(a, b) for a in range(0, 128) for b in range(0, 256) if (a, b) not in cat]
    pick = allsf if not ctx.quick else rng.sample(allsf, 600)
    for (a, b) in pick:
        add(a, b, True, "ok", b"")
        if ctx.quick or (a + b) % 7 == 0:
            add(a, b, False, "ok", b"")
            add(a, b, True, "malformed", b"\x41\x02ab\x01")
    rng.shuffle(msgs)
    jobs = []
    b = 0
    for role in ("host", "equipment"):
        for ch in chunks(msgs, 14 if not ctx.quick else 7):
            b += 1
            jobs.append((b, role, ch, ctx.seed))
    results = pmap(run_batch, jobs)
    recs = []
    for res in results:
        if res["outcome"] != "done" or res["errors"]:
            if "Machinery" in str(res["errors"]):
                raise Machinery(str(res["errors"]))
            ctx.violation({"check": "reply-run", "clause": "run-did-not-finish", "role": res["role"],
                           "what": f"handler run ended {res['outcome']} {res['errors']}", "wedge": res["wedge"],
                           "last": res["recs"][-2:]})
        recs.extend(res["recs"])
    for i, rcd in enumerate(recs, start=1):
        rcd["mid"] = rcd["id"]
        rcd["id"] = i
    f = wd / "reply_recs.json"
    f.write_text(json.dumps([{"id": r_["id"], "m": r_["m"], "echo": r_["echo"]} for r_ in recs]))
    rj = tlc.run("ReplyJudge", cfg_text="", workdir=wd, workers=1, env={"TRACE_FILE": str(f)}, what="judge", coverage=False,
                 timeout=3600, heap="12g")
    tlc.require_ok(rj, "ReplyJudge")
    cnt = rj.tagged("N")
    if not cnt or cnt[0]["n"] != len(recs):
        raise Machinery(f"ReplyJudge judged {cnt} of {len(recs)} records")
    bad = {v["id"]: v for v in rj.tagged("V")}
    ctx.traces += len(recs)
    ctx.evaluations += len(recs)
    ctx.nontrivial += len({(r_["role"], r_["m"]["s"], r_["m"]["f"], r_["m"]["w"], r_["bodyk"]) for r_ in recs if r_["echo"]})
    byid = {r_["id"]: r_ for r_ in recs}
    for r_ in recs[:3]:
        ctx.sample({k: r_[k] for k in ("role", "m", "bodyk", "echo")})
    for i, v in bad.items():
        r_ = byid[i]
        m = r_["m"]
        ctx.violation({"check": "reply", "clause": v["clause"], "role": r_["role"], "cls": m["cls"], "w": m["w"],
                       "bodyk": r_["bodyk"], "s": m["s"], "f": m["f"], "echo": r_["echo"], "reused_system": r_.get("reused_system"),
                       "burst": r_.get("burst", 0),
                       "what": f"{r_['role']}: inbound S{m['s']}F{m['f']} W={m['w']} ({m['cls']}, body {r_['bodyk']}) -> "
                               f"{v['clause']}: {[(e['s'], e['f']) for e in r_['echo']]}"})
    # a primary can only be answered if it reaches the handler: the receiver / dispatcher loops of 30 (300) runs with messages
    # arriving in arbitrary segments are validated against DispatcherLoops (no wake-up may be lost; model checked in C04)
    from . import c04_trace
    c04_trace.check(ctx, wd, pmap, only_plain=True)
    ctx.rule = ("inbound messages = every catalogued S/F x W x body class + uncatalogued S/F pairs (thorough: all) + probe callbacks, "
                "shuffled into long sequences on host and equipment handlers, system bytes incl. boundary values and values the handler "
                "itself used before (a timed-out and an answered transaction of its own); in every fifth batch communication is given up with disable() and established again before the messages arrive; in every fourth batch all primaries carry the same system bytes (the peer's previous, closed transaction); in every fourth batch 2-3 messages arrive in "
                "one segment under random / PCT schedules with line-level preemption in the dispatcher loop; non-trivial = distinct (role,S,F,W,body) that "
                "produced an answer")
    ctx.extra["inbound_with_reused_system_bytes"] = sum(1 for r_ in recs if r_.get("reused_system"))
    ctx.exhaustive = not ctx.quick
    ctx.assumptions += ["the handler's callback class per S/F is read from its public callback table",
                        "other outbound traffic (e.g. S6F11 of collection events) is ignored by this check"]
    return ctx.finish()
