"""C06 -- replies reach exactly their requester; other messages are delivered once, one at a time, in order.

Leg M : TLC checks Transactions (counter, response queues, dispatcher thread(s), callers, peer) for every
        interleaving; variants with the original non-atomic counter / second dispatcher after reconnect are
        kept as regression witnesses that TLC must refute.
Leg V : 2-4 real caller threads on a real HsmsProtocol under simrt (PCT/random schedules, line-level preemption in
        the counter / queue registration / dispatcher code); the driver plays the peer (replies permuted, late,
        missing; unsolicited primaries; reconnects). The recorded event traces are validated by TLC (TxJudge).
"""
from __future__ import annotations

import json
import random
import struct

from .. import hsmsrun, link, simrt, tlc
from ..common import Ctx, Machinery, chunks, pmap, workdir

PID = "C06"
T3 = 45.0


def body_tag(n):
    return b"\x01\x01\xb1\x04" + struct.pack(">L", n)   # L[1] <U4 n>


def tag_of(body):
    """Tag carried in L[1] <Un tag> (any unsigned width)."""
    if len(body) >= 5 and body[:2] == b"\x01\x01" and body[2] in (0xA5, 0xA9, 0xB1, 0xA1):
        n = body[3]
        return int.from_bytes(body[4:4 + n], "big")
    return None


UBASE = 900000


def unsol_id(h, data):
    """Id of an unsolicited primary sent by the driver: S1F1 with system bytes 0x50000+id, or (colliding primaries, which carry
    the system bytes of an open request) S1F1 with the id in the body."""
    if h.function != 1:
        return None
    t = tag_of(bytes(data))
    if t is not None and t >= UBASE:
        return t - UBASE
    return h.system - 0x50000 if 0x50000 <= h.system < 0x60000 else None


def run_scenario(job):
    sid, seed, policy, ncallers, nreq, wrap, reconnect = job[:7]
    instant = job[7] if len(job) > 7 else False
    stalled_reconnect = job[8] if len(job) > 8 else False
    collide = job[9] if len(job) > 9 else False
    hsmsrun.quiet_logging()
    simrt.install()
    import secsgem.common.protocol as cp
    import secsgem.common.protocol_dispatcher as pd
    import secsgem.secs.functions as sf

    line_funcs = [cp.Protocol.get_next_system_counter, cp.Protocol.send_and_waitfor_response,
                  cp.Protocol._get_queue_for_system, cp.Protocol._remove_queue, pd.ProtocolDispatcher.start,
                  pd.ProtocolDispatcher.stop, pd.ProtocolDispatcher._dispatcher_thread_function]
    if stalled_reconnect:
        import secsgem.hsms.protocol as hp0
        line_funcs = line_funcs + [hp0.HsmsProtocol._process_received_data, pd.ProtocolDispatcher._receiver_thread_function]
    ev = []
    rec = {"id": sid, "ev": ev, "seed": seed, "policy": policy, "cfg": [ncallers, nreq, wrap, reconnect]}
    st = {"base": None, "cur": {}}

    def rc_of_tag(t):
        return ((t - 100000) // 100 - 1) * nreq + t % 100 + 1

    def norm(x):
        return (x - st["base"]) % (1 << 32)

    def th_c():
        nm = simrt.cur_sched().cur.name
        return int(nm[6:]) if nm.startswith("caller") and nm[6:].isdigit() else None

    def rc_now():
        c = th_c()
        return None if c is None else (c - 1) * nreq + st["cur"].get(c, 0) + 1

    def ex_sys(fr, ret):
        r_ = rc_now()
        return None if r_ is None else {"c": r_, "sys": norm(ret)}

    def ex_c(fr, ret):
        r_ = rc_now()
        return None if r_ is None else {"c": r_}

    def ex_take(fr, ret):
        m = fr.f_locals["message"]
        h = m.header
        if h.s_type.value != 0:
            return None
        u = unsol_id(h, m.data)
        if u is not None:
            return {"id": u}
        t = tag_of(bytes(m.data))
        return {"c": rc_of_tag(t)} if t is not None else None

    import secsgem.hsms.protocol as hp
    event_funcs = [(cp.Protocol.get_next_system_counter, "Sys", "return", ex_sys),
                   (cp.Protocol._get_queue_for_system, "Reg", "call", ex_c),
                   (cp.Protocol._remove_queue, "Del", "call", ex_c),
                   (hp.HsmsProtocol._on_connection_message_received, "Take", "call", ex_take)]

    def main(s):
        rng = random.Random(seed ^ 0xC06)
        ep = hsmsrun.Ep(mode="passive", kind="protocol")
        proto = ep.protocol
        st["base"] = proto._system_counter
        s.put_hook = lambda q, item: s.emit("QPut") if q in proto._response_queues.values() else None
        outstanding = {}   # tag -> sys (as seen on the wire)
        unsol = [0]
        answered = set()
        rng_i = random.Random(seed ^ 0x1257)

        def on_msg(d):
            h = d["message"].header
            u = unsol_id(h, d["message"].data)
            mid = f"u{u}" if u is not None else f"t{tag_of(bytes(d['message'].data))}"
            ev.append({"e": "DBegin", "id": mid})
            if mid.startswith("u"):
                s.emit("DBegin", id=int(mid[1:]))
            else:
                s.emit("DBegin", c=rc_of_tag(int(mid[1:])))
            simrt.time_shim.sleep(0.001)      # the application takes a moment: overlap becomes visible
            ev.append({"e": "DEnd", "id": mid})
            s.emit("DEnd")

        proto.events.message_received += on_msg

        def on_send(data):
            for fr in link.parse_frames(data)[0]:
                if fr.get("stype") == 0 and fr["s"] == 1 and fr["f"] == 3:
                    t = tag_of(fr["body"])
                    ev.append({"e": "Out", "sys": format(fr["system"], "08x"), "tag": f"t{t}"})
                    s.emit("Send", sys=norm(fr["system"]))
                    outstanding[t] = fr["system"]
                    if instant and rng_i.random() < 0.6:
                        # a fast peer: the reply is on its way before the sending thread has even returned from the send
                        answered.add(t)
                        ev.append({"e": "InReply", "sys": format(fr["system"], "08x"), "tag": f"t{t}"})
                        s.emit("InReply", sys=norm(fr["system"]), c=rc_of_tag(t))
                        ep.link.feed(link.hsms_frame(stype=0, system=fr["system"], session=0, stream=1, function=4, body=body_tag(t)))

        def select():
            ep.link.connect()
            s.settle()
            ep.link.feed(link.hsms_frame(stype=1, system=1))
            s.settle()
            ep.link.take_raw()

        proto.enable()
        select()
        if ep.cs != "SEL":
            raise Machinery("not selected")
        ep.link.on_send_hook = on_send
        returned = [0]

        def caller(c):
            for k in range(nreq):
                t = 100000 + c * 100 + k
                st["cur"][c] = k
                ev.append({"e": "Call", "c": c, "tag": f"t{t}"})
                rsp = proto.send_and_waitfor_response(sf.SecsS01F03([t]))
                got = "none" if rsp is None else f"t{tag_of(bytes(rsp.data))}"
                ev.append({"e": "Ret", "c": c, "tag": f"t{t}", "got": got})
                s.emit("Ret", c=rc_of_tag(t), got=0 if rsp is None else rc_of_tag(tag_of(bytes(rsp.data))))
            returned[0] += 1

        ths = [simrt.Thread(target=caller, args=(c,), name=f"caller{c}") for c in range(1, ncallers + 1)]
        for th in ths:
            th.start()
        never = set()
        did_reconnect = False
        rounds = 0
        while returned[0] < ncallers and rounds < 400:
            rounds += 1
            s.settle()
            pend = [t for t in outstanding if t not in answered and t not in never]
            rng.shuffle(pend)
            acted = False
            for t in pend:
                r = rng.random()
                if r < 0.55:
                    answered.add(t)
                    ev.append({"e": "InReply", "sys": format(outstanding[t], "08x"), "tag": f"t{t}"})
                    s.emit("InReply", sys=norm(outstanding[t]), c=rc_of_tag(t))
                    ep.link.feed(link.hsms_frame(stype=0, system=outstanding[t], session=0, stream=1, function=4,
                                                 body=body_tag(t)))
                    acted = True
                elif r < 0.65:
                    never.add(t)
            if rng.random() < 0.5:
                unsol[0] += 1
                ev.append({"e": "InOther", "id": f"u{unsol[0]}"})
                s.emit("InOther", id=unsol[0])
                ep.link.feed(link.hsms_frame(stype=0, system=0x50000 + unsol[0], session=0, stream=1, function=1, wbit=True))
                acted = True
            open_now = [t for t in outstanding if t not in answered]
            if collide and open_now and rng.random() < 0.5:
                # a primary of the peer whose system bytes (the peer numbers its own transactions) equal those of a request
                # that is open here: it is not the reply
                t = rng.choice(open_now)
                unsol[0] += 1
                ev.append({"e": "InOther", "id": f"u{unsol[0]}", "sys": format(outstanding[t], "08x")})
                s.emit("InOther", id=unsol[0], sys=norm(outstanding[t]))
                # (with and without W-bit: what makes a message a reply is its function, not the absence of a reply request)
                ep.link.feed(link.hsms_frame(stype=0, system=outstanding[t], session=0, stream=1, function=1, wbit=rng.random() < 0.5,
                                             body=body_tag(UBASE + unsol[0])))
                rec["collisions"] = rec.get("collisions", 0) + 1
                acted = True
            if reconnect and stalled_reconnect and not did_reconnect and rounds >= 2 and rng.random() < 0.4:
                did_reconnect = True
                # the link is lost while a send is blocked on a full socket; the new connection may be there before the
                # blocked send comes back
                s.advance(0.25)
                gate = simrt.Event()
                ep.link.stall_event = gate
                ep.link.feed(link.hsms_frame(stype=5, system=0x60001))      # Linktest.req: its response is the send that blocks
                s.advance(0.25)
                rec["stalled_sends"] = ep.link.stalled
                n0 = ep.link.closed_count
                ep.link.abrupt_close = True       # the loss is reported without "disconnecting" (no Separate.req queued behind the send)
                ep.link.peer_close()
                s.run_until(lambda: ep.link.closed_count > n0, max_dt=7.0)      # longer than T6
                ep.link.abrupt_close = False
                rec["closed_while_send_blocked"] = bool(ep.link.closed_count > n0 and ep.cs == "NC")
                if ep.link.closed_count > n0 and ep.cs == "NC":
                    # the close sequence finished although the send is still blocked
                    ev.append({"e": "Reconnect"})
                    s.emit("Reconnect")
                    for t in list(outstanding):
                        if t not in answered:
                            never.add(t)
                    ep.link.stall_event = None
                    select()
                    gate.set()
                    s.settle()
                else:
                    ep.link.stall_event = None
                    gate.set()
                    okc, _ = s.run_until(lambda: ep.cs == "NC" and ep.link.closed_count > n0, max_dt=20)
                    if not okc:
                        raise Machinery("close did not finish after the blocked send was released")
                    ev.append({"e": "Reconnect"})
                    s.emit("Reconnect")
                    for t in list(outstanding):
                        if t not in answered:
                            never.add(t)
                    select()
                # several primaries in one segment right after the reconnect
                chunk = b""
                for _ in range(3):
                    unsol[0] += 1
                    ev.append({"e": "InOther", "id": f"u{unsol[0]}"})
                    s.emit("InOther", id=unsol[0])
                    chunk += link.hsms_frame(stype=0, system=0x50000 + unsol[0], session=0, stream=1, function=1, wbit=True,
                                             body=b"\x01\x00" * rng.choice([0, 1, 7]))
                ep.link.feed(chunk)
                acted = True
            elif reconnect and not did_reconnect and rounds >= 2 and rng.random() < 0.4:
                did_reconnect = True
                # let the dispatcher drain what arrived before the link is lost (messages still queued when the
                # session ends are in flight at link loss; the property does not promise their delivery)
                s.advance(0.25)
                if rng.random() < 0.6:
                    # the link is lost in the middle of a frame: the torn frame is no message, and nothing of it belongs to
                    # the byte stream of the next connection
                    whole = link.hsms_frame(stype=0, system=0x5FFFF, session=0, stream=1, function=1, wbit=True, body=b"\x01\x00" * rng.choice([0, 3, 40]))
                    ep.link.feed(whole[:rng.randrange(1, len(whole))])
                    rec["torn_frame"] = True
                    s.advance(0.05)
                ep.link.peer_close()
                okc, _ = s.run_until(lambda: ep.cs == "NC" and ep.link.closed_count >= 1, max_dt=20)
                if not okc:
                    raise Machinery("close did not finish in C06 scenario")
                ev.append({"e": "Reconnect"})
                s.emit("Reconnect")
                for t in list(outstanding):
                    if t not in answered:
                        never.add(t)
                select()
                if ep.cs != "SEL":
                    rec["reselect_failed"] = True
                    return
                acted = True
            if not acted:
                # let time pass: late replies / timeouts
                late = [t for t in never if rng.random() < 0.3]
                s.advance(T3 / 2 + 0.5)
        s.settle()
        # late replies for requests that already timed out: they are "other inbound messages" now
        for t in sorted(never):
            if rng.random() < 0.5 and ep.cs == "SEL":
                ev.append({"e": "InReply", "sys": format(outstanding[t], "08x"), "tag": f"t{t}"})
                s.emit("InReply", sys=norm(outstanding[t]), c=rc_of_tag(t))
                ep.link.feed(link.hsms_frame(stype=0, system=outstanding[t], session=0, stream=1, function=4, body=body_tag(t)))
        s.run_until(lambda: False, max_dt=5.0)
        rec["returned"] = returned[0]

    randint = (lambda a, b: b - 1) if wrap else None
    s = simrt.run(main, seed=seed, policy=policy, switch_prob=0.3, line_funcs=line_funcs, max_vtime=1e5,
                  wall_timeout=120, randint=randint, pct_depth=3, pct_horizon=400,
                  wake_lag=(("caller",), 0.4, 0.02) if instant else None, event_funcs=event_funcs)
    rec["outcome"] = s.outcome
    rec["tev"] = [{"e": e["e"], "c": e.get("c", 0), "sys": e.get("sys", 0), "id": e.get("id", 0), "got": e.get("got", 0)} for e in s.events]
    bad_ex = [e for e in s.events if e.get("extract_error")]
    if bad_ex:
        rec.setdefault("errors", []).append(("extract", bad_ex[0]["extract_error"]))
    if s.outcome != "done":
        rec["wedge"] = s.wedge_info
    if s.errors:
        rec["errors"] = [e[:2] for e in s.errors[:2]]
    return rec


def trace_leg(ctx, wd, recs):
    """Leg T: every recorded execution must be a behaviour of the implementation-shaped model Transactions."""
    f = wd / "tx_event_traces.json"
    f.write_text(json.dumps([{"id": r["id"], "ev": r["tev"]} for r in recs]))
    nreq_max = max(max((e["c"] for e in r["tev"]), default=1) for r in recs)
    m = max(max((e["sys"] for e in r["tev"]), default=1) for r in recs) + 2
    cfg = (f"SPECIFICATION TSpec\nCONSTANTS AtomicCounter = TRUE\n SingleDispatcher = TRUE\n LateReplies = TRUE\n SecondaryOnly = TRUE\n NC = {nreq_max}\n NU = 100000\n"
           f" M = {m}\n MaxConn = 2\nCONSTRAINT Progress\nINVARIANT DistinctOutstanding\nINVARIANT OwnReplyOnly\nINVARIANT OneAtATime\n"
           "INVARIANT InOrderOnce\nINVARIANT NothingSwallowed\n")
    rt = tlc.run("TransactionsTrace", cfg_text=cfg, workdir=wd, workers=4, env={"TRACE_FILE": str(f)}, what="tx_trace", coverage=False,
                 deadlock=False, timeout=1800, expect_error=True)
    best = {}
    for a in rt.tagged("AT"):
        best[a["id"]] = max(best.get(a["id"], 0), a["l"])
    if rt.error_kind is not None:
        ctx.violation({"check": "tx-trace", "clause": "invariant-on-recorded-execution", "tlc_error": rt.error_kind, "name": rt.error_name,
                       "what": f"TLC: {rt.error_kind} {rt.error_name} violated on a recorded execution of the transaction layer"})
    ctx.tlc_runs.append({"spec": "TransactionsTrace.tla", "what": f"validation of {len(recs)} recorded executions against Transactions",
                         "distinct_states": rt.distinct, "wall_s": round(rt.wall, 1)})
    nev = 0
    for r in recs:
        n = len(r["tev"])
        nev += n
        at = best.get(r["id"], 0)
        if at != n + 1:
            bad = r["tev"][at - 1] if 1 <= at <= n else None
            ctx.violation({"check": "tx-trace", "clause": "execution-is-not-a-behaviour-of-Transactions", "event": bad, "at": at, "of": n,
                           "before": r["tev"][max(0, at - 6):at - 1], "cfg": r["cfg"], "sched_seed": r["seed"], "policy": r["policy"],
                           "what": f"recorded execution {r['cfg']} ({r['policy']}): event {at} of {n} {bad} is not allowed by Transactions "
                                   f"after {[e['e'] for e in r['tev'][max(0, at - 5):at - 1]]}"})
    # mutants of an accepted execution must be rejected
    base = next((r for r in recs if best.get(r["id"], 0) == len(r["tev"]) + 1 and any(e["e"] == "QPut" for e in r["tev"])), None)
    if base is None and ctx.violations:
        return          # nothing was accepted (reported above): no execution to derive mutants from
    if base is None:
        raise Machinery("no accepted execution with a routed reply to derive mutants from")
    tev = base["tev"]
    ireg = next(i for i, e in enumerate(tev) if e["e"] == "Reg")
    isend = next(i for i, e in enumerate(tev) if e["e"] == "Send" and e["sys"] == next(x["sys"] for x in tev if x["e"] == "Sys" and x["c"] == tev[ireg]["c"]))
    iret = next(i for i, e in enumerate(tev) if e["e"] == "Ret" and e["got"] != 0)
    m1 = list(tev)
    m1.insert(isend, m1.pop(ireg))                                     # queue registered after the request was written
    m1[ireg:isend + 1] = [x for x in tev[ireg + 1:isend + 1]] + [tev[ireg]]
    m2 = [dict(e, got=(e["got"] % nreq_max) + 1) if i == iret else e for i, e in enumerate(tev)]      # somebody else's reply
    m3 = [e for i, e in enumerate(tev) if e["e"] != "QPut" or i != next(j for j, x in enumerate(tev) if x["e"] == "QPut")]
    fm = wd / "tx_mutants.json"
    fm.write_text(json.dumps([{"id": k, "ev": mm} for k, mm in ((1, m1), (2, m2), (3, m3))]))
    rm = tlc.run("TransactionsTrace", cfg_text=cfg, workdir=wd, workers=1, env={"TRACE_FILE": str(fm)}, what="tx_trace_mutants", coverage=False,
                 deadlock=False, timeout=600, expect_error=True)
    bm = {}
    for a in rm.tagged("AT"):
        bm[a["id"]] = max(bm.get(a["id"], 0), a["l"])
    for k, mm in ((1, m1), (2, m2), (3, m3)):
        if bm.get(k, 0) == len(mm) + 1 and rm.error_kind is None:
            raise Machinery(f"TransactionsTrace accepted mutant {k} of a recorded execution: the binding lost its teeth")
    ctx.extra["tx_trace_events"] = nev
    ctx.extra["tx_trace_mutants_rejected"] = 3


def run(ctx: Ctx):
    wd = workdir(PID)
    # ---- Leg M
    from . import c06_model
    c06_model.check(ctx, wd)
    # ---- Leg V
    rng = random.Random(ctx.seed + 6)
    jobs = []
    n = 120 if ctx.quick else 1500
    for i in range(1, n + 1):
        pol = ["pct", "random", "pct", "fifo"][i % 4]
        jobs.append((i, rng.randrange(1 << 30), pol, rng.choice([2, 2, 3, 4]), rng.choice([1, 2]), i % 5 == 0, i % 3 == 0, i % 4 in (1, 2), i % 6 == 0, i % 3 == 1))
    recs = pmap(run_scenario, jobs)
    bad = [r for r in recs if r["outcome"] != "done" or r.get("errors")]
    for r in bad[:3]:
        if r.get("errors") and "Machinery" in str(r["errors"]):
            raise Machinery(str(r["errors"]))
        ctx.violation({"check": "tx-run", "clause": "run-did-not-finish", "what": f"scenario ended {r['outcome']} {r.get('errors')}",
                       "record": {k: r[k] for k in r if k != "ev"}, "events": r["ev"][-30:]})
    for r in [r for r in recs if r.get("reselect_failed")][:5]:
        ctx.violation({"check": "tx-run", "clause": "no-session-on-the-re-established-link", "cfg": r["cfg"], "sched_seed": r["seed"], "policy": r["policy"],
                       "torn_frame": r.get("torn_frame", False), "events": r["ev"][-20:],
                       "what": f"after the link was lost{' in the middle of an inbound frame' if r.get('torn_frame') else ''} and re-established, "
                               "the Select.req of the new connection was not answered: nothing that arrives on it is delivered"})
    recs = [r for r in recs if r["outcome"] == "done" and not r.get("errors") and not r.get("reselect_failed")]
    f = wd / "tx_traces.json"
    f.write_text(json.dumps([{"id": r["id"], "ev": r["ev"]} for r in recs]))
    rj = tlc.run("TxJudge", cfg_text="", workdir=wd, workers=1, env={"TRACE_FILE": str(f)}, what="judge", coverage=False,
                 timeout=1800)
    tlc.require_ok(rj, "TxJudge")
    verd = {v["id"]: v for v in rj.tagged("V")}
    if len(verd) != len(recs):
        raise Machinery(f"TxJudge: {len(verd)} verdicts for {len(recs)} traces")
    ctx.traces += len(recs)
    ctx.evaluations += sum(len(r["ev"]) for r in recs)
    ctx.nontrivial += len([r for r in recs if sum(1 for e in r["ev"] if e["e"] == "Ret" and e["got"] != "none") >= 2])
    for r in recs:
        v = verd[r["id"]]
        if r["id"] in (1, 6):
            ctx.sample({"cfg(callers,reqs,wrap,reconnect)": r["cfg"], "policy": r["policy"], "events": r["ev"][:40]})
        if v["clause"] != "ok":
            ctx.violation({"check": "tx", "clause": v["clause"], "at": v["at"], "cfg": r["cfg"], "sched_seed": r["seed"],
                           "policy": r["policy"], "reconnect": r["cfg"][3], "events": r["ev"][: max(v["at"], 1) + 2][-40:],
                           "what": f"TxMon clause '{v['clause']}' at event {v['at']} "
                                   f"({r['ev'][v['at'] - 1] if v['at'] else 'end of run'}); callers={r['cfg'][0]}"})
    ctx.extra["colliding_primaries"] = sum(r.get("collisions", 0) for r in recs)
    if not ctx.extra["colliding_primaries"] and not ctx.violations:
        raise Machinery("no scenario delivered a primary carrying the system bytes of an open request")
    trace_leg(ctx, wd, recs)
    # after a reconnect there is still exactly one receive path: the receiver / dispatcher loops of 30 (300) histories with a
    # reconnect (plain, and with the link lost while a send is blocked) validated against DispatcherLoops (model checked in C04)
    from . import c04_trace
    c04_trace.check(ctx, wd, pmap, only_reconnect=True)
    # the same promises over SECS-I, with both stations asking for the line at the same moment (the host yields)
    from . import c17_txn
    c17_txn.check_contention(ctx, wd, pmap)
    ctx.rule = ("scenarios = (callers 2-4, 1-2 requests each, counter start incl. wrap-around, optional reconnect) x peer behaviour "
                "(link loss while a send is blocked on a full socket, reply order/lateness/omission, instant replies sent from inside the peer's receive of the request while the requesting thread is slow to resume, unsolicited primaries) x thread schedule (PCT depth 3 / random / fifo with line-level "
                "preemption in the counter, queue and dispatcher code); non-trivial = at least two callers received replies")
    ctx.assumptions += ["S1F3/S1F4 bodies carry the request tag; system bytes compared as seen on the wire"]
    return ctx.finish()
