"""C10 -- the TCP transport delivers every accepted byte exactly once and in order.

Leg M : TLC checks TcpSend (the send loop against a socket with bounded kernel buffer, short writes, EWOULDBLOCK, slow
        reader, reset): AcceptedMeansOnStream, InOrderNoDup, EverythingArrives; the original loop that ignores the return
        value of socket.send is kept as regression witness that TLC must refute.
Leg V : the real TcpServerConnection and TcpClientConnection run under simrt on a simulated socket/select layer (buffer
        capacities 1 byte .. 64 KiB, short-write policies, reader pacings immediate / delayed / 1-byte reads); message sizes
        from 1 byte to 3 MiB incl. +-1 around the capacity and around the 1 MiB packet size of HsmsProtocol; what the peer
        reads is cut into runs and validated by TLC (TcpJudge) against the results send_data reported.
"""
from __future__ import annotations

import json
import random

from .. import simrt, simsock, tlc
from ..common import Ctx, Machinery, chunks, pmap, workdir

PID = "C10"


def fill(m, size):
    """Message m: every 4-byte group encodes (m, group index) so that runs can be recovered from the stream."""
    out = bytearray()
    g = 0
    while len(out) < size:
        out += bytes([0xA0 + m]) + g.to_bytes(3, "big")
        g += 1
    return bytes(out[:size])


def runs_of(stream, sizes):
    """Cut the peer's byte stream into maximal runs [m, from, to] by matching against the known messages."""
    msgs = [fill(i + 1, s) for i, s in enumerate(sizes)]
    runs = []
    pos = 0
    n = len(stream)
    cur = None
    while pos < n:
        placed = False
        # continue the current run if possible
        if cur is not None:
            mi, to = cur[0], cur[2]
            if to < len(msgs[mi - 1]) and stream[pos] == msgs[mi - 1][to]:
                # extend greedily
                k = 0
                src = msgs[mi - 1]
                while pos + k < n and to + k < len(src) and stream[pos + k] == src[to + k]:
                    k += 1
                cur[2] += k
                pos += k
                placed = True
        if not placed:
            # start a new run: prefer the start of the next message, else search
            found = None
            for mi in range(1, len(msgs) + 1):
                src = msgs[mi - 1]
                # candidate offsets: message start, or aligned group found by the 4-byte marker
                tail = stream[pos:pos + 4]
                if src[:1] and stream[pos] == src[0] and (tail == src[:len(tail)] or len(src) < 4):
                    found = (mi, 0)
                    break
            if found is None and pos + 4 <= n and 0xA1 <= stream[pos] <= 0xA0 + len(msgs):
                mi = stream[pos] - 0xA0
                g = int.from_bytes(stream[pos + 1:pos + 4], "big")
                if g * 4 < len(msgs[mi - 1]):
                    found = (mi, g * 4)
            if found is None:
                # unaligned: brute force small search
                for mi in range(1, len(msgs) + 1):
                    idx = msgs[mi - 1].find(stream[pos:pos + 8])
                    if idx >= 0:
                        found = (mi, idx)
                        break
            if found is None:
                runs.append([0, pos + 1, pos + 1])
                cur = None
                pos += 1
                continue
            cur = [found[0], found[1] + 1, found[1]]
            runs.append(cur)
    return [{"m": r_[0], "from": r_[1], "to": r_[2]} for r_ in runs if r_[2] >= r_[1] or r_[0] == 0]


def run_batch(job):
    import logging
    logging.disable(logging.CRITICAL)
    simsock.install()
    return [run_one(it) for it in job]


def run_one(it):
    import secsgem.common
    import secsgem.common.tcp_connection as tc
    import secsgem.hsms

    rec = dict(it)
    rec.update({"sends": [], "received": [], "reset": False})

    def main(s):
        rng = random.Random(it["seed"])
        partial = None
        if it["short"] == "half":
            partial = lambda n, free: max(1, min(n, free) // 2)  # noqa: E731
        elif it["short"] == "rand":
            partial = lambda n, free: rng.randint(1, max(1, min(n, free)))  # noqa: E731
        net = simsock.Net(capacity=it["cap"], partial=partial)
        simsock.set_net(net)
        mode = secsgem.hsms.HsmsConnectMode.PASSIVE if it["side"] == "server" else secsgem.hsms.HsmsConnectMode.ACTIVE
        st = secsgem.hsms.HsmsSettings(connect_mode=mode, port=5000)
        conn = st.create_connection()
        connected = []
        conn.on_connected.register(lambda d: connected.append(1))
        conn.on_data.register(lambda d: None)
        conn.on_disconnecting.register(lambda d: None)
        conn.on_disconnected.register(lambda d: None)
        peer = None
        if it["side"] == "server":
            conn.enable()
            s.advance(0.2)
            peer = net.dial(5000)
        else:
            lst = net.listen_raw(5000)
            conn.enable()
            s.advance(0.2)
            peer = lst[0] if lst else None
        ok, why = s.run_until(lambda: bool(connected), max_dt=30)
        if not ok or peer is None:
            raise Machinery(f"connection not established: {why}")
        stream = bytearray()
        done = {"v": False}

        def sender():
            for i, size in enumerate(it["sizes"], start=1):
                data = fill(i, size)
                if it["via"] == "protocol_split":
                    # the 1 MiB packet split of HsmsProtocol._process_send_queue
                    okk = True
                    try:
                        for off in range(0, len(data), 1024 * 1024):
                            if not conn.send_data(data[off:off + 1024 * 1024]):
                                okk = False
                                break
                    except Exception as exc:  # noqa: BLE001   (an exception is not a report of success)
                        okk = False
                        rec["send_exception"] = type(exc).__name__
                else:
                    try:
                        okk = bool(conn.send_data(data))
                    except Exception as exc:  # noqa: BLE001   (an exception is not a report of success)
                        okk = False
                        rec["send_exception"] = type(exc).__name__
                rec["sends"].append({"size": size, "ok": okk})
            done["v"] = True

        th = simrt.Thread(target=sender, name="sender")
        th.start()
        total = sum(it["sizes"])
        guard = 0
        while guard < 200000:
            guard += 1
            if it.get("then") == "disable_blocked":
                # the peer reads nothing: the sender fills the socket and blocks (or finishes, if everything fits); then the
                # application disables the connection while the send is still in progress
                s.settle()
                s.advance(0.3)
                rec["blocked_at_disable"] = not done["v"]
                break
            if done["v"] and it.get("then") == "close":
                break                  # the application closes at once; what is in flight is read afterwards, until EOF
            if it.get("stall") and not rec.get("stalled"):
                s.settle()
                s.advance(it["stall"])
                rec["stalled"] = True
                rec["queued_during_stall"] = len(peer.rx)
            if it["pace"] == "immediate" or it.get("stall"):
                s.settle()
                stream += peer.read()
            elif it["pace"] == "byte":
                s.settle()
                stream += peer.read(rng.choice([1, 1, 2, 3]))
            else:
                s.advance(rng.choice([0.01, 0.3, 0.7]))
                stream += peer.read(rng.choice([1, 10, 1000, 1 << 20]))
            if done["v"] and not peer.rx:
                s.settle()
                stream += peer.read()
                if not peer.rx:
                    break
            if not done["v"] and not peer.rx:
                s.settle()
                if not done["v"] and not peer.rx:
                    # nothing in flight and the sender still busy: let virtual time pass (select timeouts)
                    nd = s.next_deadline()
                    if nd is None:
                        break
                    s.block(("pace",), max(0.0, nd - s.now))
        rec["done"] = done["v"]
        rec["in_flight_at_close"] = len(peer.rx)
        dn = {"v": False}

        def dis():
            conn.disable()
            dn["v"] = True

        t2 = simrt.Thread(target=dis, name="disable")
        t2.start()
        s.run_until(lambda: dn["v"], max_dt=30)
        rec["disable_returned"] = dn["v"]
        if it.get("then") == "disable_blocked":
            s.run_until(lambda: done["v"], max_dt=30)
            rec["done"] = done["v"] or bool(rec.get("send_exception"))
        while peer.rx:                 # the raw peer reads until EOF
            stream += peer.read(rng.choice([1, 10, 1000, 1 << 20]))
        rec["received"] = runs_of(bytes(stream), it["sizes"])
        rec["stream_len"] = len(stream)
        rec["peer_saw_reset"] = peer.rst

    s = simrt.run(main, seed=it["seed"], policy=it["policy"], switch_prob=0.2, max_vtime=1e5, wall_timeout=300,
                  line_funcs=[tc.TcpConnection._start_receiver, tc.TcpConnection.disconnect], line_cost=1e-3)
    simsock.set_net(None)
    rec["outcome"] = s.outcome
    if s.errors:
        rec["errors"] = [e[:2] for e in s.errors[:2]]
    if s.outcome != "done":
        rec["wedge"] = s.wedge_info
    return rec


def run_proto_one(it):
    """A message larger than the 1 MiB packet size sent through the real HsmsProtocol (send queue, packet split, result hand-over)
    over the real TcpServerConnection; the peer drains part of it and then closes (or drains everything)."""
    import secsgem.hsms
    from .. import link

    rec = dict(it)
    rec.update({"sends": [], "received": [], "reset": False})

    def main(s):
        net = simsock.Net(capacity=it["cap"])
        simsock.set_net(net)
        st = secsgem.hsms.HsmsSettings(connect_mode=secsgem.hsms.HsmsConnectMode.PASSIVE, port=5003)
        proto = secsgem.hsms.HsmsProtocol(st)
        proto._linktest_timeout = 1e9
        proto.enable()
        s.advance(0.3)
        peer = net.dial(5003)
        if peer is None:
            raise Machinery("endpoint not listening")
        ok, why = s.run_until(lambda: proto.connection_state.current.name != "NOT_CONNECTED", max_dt=30)
        peer.write(link.hsms_frame(stype=1, system=5))
        ok, why = s.run_until(lambda: proto.connection_state.current.name == "CONNECTED_SELECTED", max_dt=30)
        if not ok:
            raise Machinery(f"not selected: {why}")
        peer.read()
        body = fill(1, it["size"])
        msg = secsgem.hsms.HsmsMessage(secsgem.hsms.HsmsStreamFunctionHeader(7, 9, 1, False, 0), body)
        expect = bytes(msg.blocks[0].encode()) if False else None
        done = {"v": False}

        def sender():
            try:
                okk = bool(proto.send_message(msg))
            except Exception as exc:  # noqa: BLE001
                okk = False
                rec["send_exception"] = type(exc).__name__
            rec["sends"].append({"size": it["size"] + 14, "ok": okk})
            done["v"] = True

        simrt.Thread(target=sender, name="sender").start()
        stream = bytearray()
        guard = 0
        while guard < 400000 and not (done["v"] and not peer.rx):
            guard += 1
            s.settle()
            if it["stop_at"] is not None and len(stream) >= it["stop_at"]:
                if it.get("stall"):
                    s.advance(it["stall"])         # the peer stops reading for longer than any protocol timeout before it goes away
                    rec["returned_while_peer_stalled"] = done["v"]
                peer.close()                       # the peer goes away in the middle of the message
                break
            got = peer.read(it["read"])
            stream += got
            if not got and not done["v"]:
                nd = s.next_deadline()
                if nd is None:
                    break
                s.block(("pace",), max(0.0, nd - s.now))
        s.run_until(lambda: done["v"], max_dt=60)
        rec["done"] = done["v"]
        while peer.rx:
            stream += peer.read()
        # the frame on the wire: 4 length bytes, 10 header bytes, body -- compared byte for byte with what was to be sent
        hdr_ok = len(stream) < 14 or (int.from_bytes(stream[:4], "big") == it["size"] + 10 and stream[14:14 + 64] == body[:64])
        good = 0
        if hdr_ok:
            good = min(len(stream), 14)
            if len(stream) > 14:
                sb = bytes(stream[14:])
                good += len(sb) if sb == body[:len(sb)] else next(i for i in range(len(sb)) if sb[i] != body[i])
        rec["received"] = ([{"m": 1, "from": 1, "to": good}] if good else []) + ([{"m": 0, "from": good + 1, "to": good + 1}] if good < len(stream) else [])
        rec["stream_len"] = len(stream)
        dn = {"v": False}

        def dis():
            proto.disable()
            dn["v"] = True

        simrt.Thread(target=dis, name="disable").start()
        s.run_until(lambda: dn["v"], max_dt=30)
        rec["disable_returned"] = dn["v"]

    import secsgem.common.tcp_connection as tc
    s = simrt.run(main, seed=it["seed"], policy=it["policy"], switch_prob=0.2, max_vtime=1e5, wall_timeout=300, line_cost=1e-3,
                  line_funcs=[tc.TcpConnection._start_receiver, tc.TcpConnection.disconnect])
    simsock.set_net(None)
    rec["outcome"] = s.outcome
    if s.errors:
        rec["errors"] = [e[:2] for e in s.errors[:2]]
    if s.outcome != "done":
        rec["wedge"] = s.wedge_info
    return rec


def run_proto_multi(it):
    """1-3 application threads send through the real HsmsProtocol over the real TcpServerConnection at the same time; the peer
    reads `stop_at` bytes and closes (or drains everything).  Used by C10 (what send_message reports vs the peer's byte stream)
    and C09 (the endpoint finishes its close sequence while sends are in flight)."""
    import secsgem.hsms
    from .. import link

    rec = dict(it)
    rec.update({"sends": [], "received": [], "reset": False})

    def main(s):
        net = simsock.Net(capacity=it["cap"])
        simsock.set_net(net)
        st = secsgem.hsms.HsmsSettings(connect_mode=secsgem.hsms.HsmsConnectMode.PASSIVE, port=5004)
        proto = secsgem.hsms.HsmsProtocol(st)
        proto._linktest_timeout = 1e9
        proto.enable()
        s.advance(0.3)
        peer = net.dial(5004)
        if peer is None:
            raise Machinery("endpoint not listening")
        s.run_until(lambda: proto.connection_state.current.name != "NOT_CONNECTED", max_dt=30)
        peer.write(link.hsms_frame(stype=1, system=5))
        ok, why = s.run_until(lambda: proto.connection_state.current.name == "CONNECTED_SELECTED", max_dt=30)
        if not ok:
            raise Machinery(f"not selected: {why}")
        peer.read()
        sizes = it["bodies"]
        done = {}
        conn_sid = 4                       # SendHandoverTrace runs with NS = 3: application senders 1..3, connection thread 4
        s.settle()
        rtrig, sendq = proto._thread._receiver_thread_trigger, proto._send_queue
        owner = {}                         # id(BlockSendInfo) -> sender
        pending_trig = set()
        tracing = {"on": True}

        def sid_of_thread():
            nm = s.cur.name if s.cur is not None else "?"
            if nm.startswith("sender"):
                return int(nm[6:]) + 1
            if nm.startswith("secsgem_tcpConnection_receiver") or nm.startswith("secsgem_tcpClientConnection") or nm.startswith("secsgem_tcpServerConnection"):
                return conn_sid
            return None

        def on_put(q, item):
            if q is sendq and tracing["on"]:
                sd = sid_of_thread()
                owner[id(item)] = (sd, item)
                pending_trig.add(sd)
                s.emit("Put", s=sd or 0)

        def on_op(kind, obj, val):
            if not tracing["on"]:
                return
            if obj is rtrig:
                if kind == "set":
                    sd = sid_of_thread()
                    if sd in pending_trig:
                        pending_trig.discard(sd)
                        s.emit("Trig", s=sd)
                    else:
                        s.emit("Kick")
                elif kind == "wait":
                    s.emit("RWake")
                elif kind == "clear":
                    s.emit("RClear")
            elif obj is sendq and kind == "get":
                s.emit("RGet", s=(owner.get(id(val)) or (0,))[0] or 0)

        s.put_hook = on_put
        s.op_hook = on_op
        rec["_owner"] = owner
        rec["_tracing"] = tracing

        def sender(k):
            msg = secsgem.hsms.HsmsMessage(secsgem.hsms.HsmsStreamFunctionHeader(100 + k, 7, 2 * k + 1, False, 0), fill(k + 1, sizes[k]))
            try:
                done[k] = bool(proto.send_message(msg))
            except Exception as exc:  # noqa: BLE001
                done[k] = False
                rec["send_exception"] = type(exc).__name__

        for k in range(len(sizes)):
            if it.get("late_send") is not None and k == len(sizes) - 1:
                # the last sender starts only when the connection is already going down (its close handling under way)
                def later(k=k):
                    simrt.time_shim.sleep(it["early"] + it["late_send"])
                    sender(k)
                simrt.Thread(target=later, name=f"sender{k}").start()
            else:
                simrt.Thread(target=sender, args=(k,), name=f"sender{k}").start()
        stream = bytearray()
        guard = 0
        closed_by_peer = False
        if it.get("early"):
            # the peer goes away a moment after the sends were queued: the receiver loop may not have looked at them yet
            s.advance(it["early"])
            peer.close()
            closed_by_peer = True
        while not closed_by_peer and guard < 400000 and not (len(done) == len(sizes) and not peer.rx):
            guard += 1
            s.settle()
            if it["stop_at"] is not None and len(stream) >= it["stop_at"]:
                peer.close()
                closed_by_peer = True
                break
            got = peer.read(it["read"])
            stream += got
            if not got and len(done) < len(sizes):
                nd = s.next_deadline()
                if nd is None:
                    break
                s.block(("pace",), max(0.0, nd - s.now))
        s.run_until(lambda: len(done) == len(sizes), max_dt=120)
        while peer.rx:
            stream += peer.read()
        rec["returned"] = sorted(done)
        rec["done"] = len(done) == len(sizes)
        rec["stream_len"] = len(stream)
        if closed_by_peer:
            okc, _ = s.run_until(lambda: proto.connection_state.current.name == "NOT_CONNECTED", max_dt=120)
            rec["state_after_peer_close"] = proto.connection_state.current.name
            if not okc:
                rec["blocked"] = [b["thread"] + ":" + "/".join(b["stack"][-2:]) for b in s.blocked_report()][:6]
        # cut the peer's stream into frames (reference layout: 4 length bytes, 10 header bytes, body) and attribute them
        order, pos, foreign = [], 0, False
        runs = []
        while pos < len(stream):
            if len(stream) - pos < 14:
                foreign = foreign or len(stream) - pos > 0 and not closed_by_peer
                break
            ln = int.from_bytes(stream[pos:pos + 4], "big")
            fn = stream[pos + 7]
            k = (fn - 1) // 2
            if not (fn % 2 == 1 and 0 <= k < len(sizes) and ln == sizes[k] + 10 and k not in order):
                foreign = True
                break
            body = bytes(stream[pos + 14:pos + 4 + ln])
            order.append(k)
            good = len(body) if body == fill(k + 1, sizes[k])[:len(body)] else -1
            if good < 0:
                foreign = True
                break
            runs.append({"m": len(order), "from": 1, "to": 14 + good})
            pos += 4 + ln
        rec["order"] = order
        allk = order + [k for k in range(len(sizes)) if k not in order]
        rec["sends"] = [{"size": sizes[k] + 14, "ok": bool(done.get(k, False))} for k in allk]
        rec["received"] = runs + ([{"m": 0, "from": 1, "to": 1}] if foreign else [])
        tracing["on"] = False              # the recorded window ends before the final disable()
        dn = {"v": False}

        def dis():
            proto.disable()
            dn["v"] = True

        simrt.Thread(target=dis, name="disable").start()
        s.run_until(lambda: dn["v"], max_dt=60)
        rec["disable_returned"] = dn["v"]

    import secsgem.common.block_send_info as bsi
    import secsgem.common.protocol as cp
    import secsgem.common.protocol_dispatcher as pd
    import secsgem.common.tcp_connection as tc
    import secsgem.hsms.protocol as hp

    def thread_sid():
        nm = simrt.cur_sched().cur.name
        if nm.startswith("sender"):
            return int(nm[6:]) + 1
        return 4 if nm.startswith("secsgem_tcp") else None

    def live():
        return rec.get("_tracing", {}).get("on", False)

    def ex_call(fr, ret):
        sd = thread_sid()
        return {"s": sd} if live() and sd else None

    def ex_got(fr, ret):
        sd = thread_sid()
        return {"s": sd, "ok": bool(ret)} if live() and sd else None

    def ex_res(fr, ret):
        ow = rec.get("_owner", {}).get(id(fr.f_locals["self"]))
        return {"s": ow[0] or 0, "ok": bool(fr.f_locals["result"])} if live() and ow else None

    def ex_live(fr, ret):
        return {} if live() else None

    s = simrt.run(main, seed=it["seed"], policy=it["policy"], switch_prob=0.25, max_vtime=1e5, wall_timeout=45, line_cost=1e-3,
                  line_funcs=[tc.TcpConnection._start_receiver, tc.TcpConnection.disconnect],
                  wake_lag=(("secsgem_HSMS_protocol_receiver",), 0.5, 0.3) if it.get("lag") else None,
                  line_lag=((tc.TcpConnection._TcpConnection__receiver_thread,), 0.5, 0.05) if it.get("late_send") is not None else None,
                  event_funcs=[(cp.Protocol.send_message, "Call", "call", ex_call), (cp.Protocol.send_message, "Got", "return", ex_got),
                               (bsi.BlockSendInfo.resolve, "RRes", "call", ex_res), (hp.HsmsProtocol._on_disconnecting, "Notice", "call", ex_live),
                               (pd.ProtocolDispatcher.stop, "Finish", "return", ex_live)])
    simsock.set_net(None)
    rec.pop("_owner", None)
    rec.pop("_tracing", None)
    rec["tev"] = [{"e": e["e"], "s": e.get("s", 0), "ok": bool(e.get("ok", False))} for e in s.events]
    # a send that did not return: was its block taken from the queue (then it must have been resolved), or was it queued when the
    # receiver loop had already ended (it then waits for the next connection: outside C09 / C10, counted as an observation)?
    unret = [k for k in range(len(it["bodies"])) if k not in rec.get("returned", [])]
    taken = {e["s"] for e in rec["tev"] if e["e"] == "RGet"}
    resolved = {e["s"] for e in rec["tev"] if e["e"] == "RRes"}
    rec["taken_never_resolved"] = sorted(sd for sd in taken - resolved if sd <= len(it["bodies"]) and (sd - 1) in unret)
    rec["queued_for_the_next_connection"] = [k + 1 for k in unret if (k + 1) not in taken]
    if s.outcome == "done" and "returned" in rec:
        rec["done"] = not rec["taken_never_resolved"]
    bad_ex = [e for e in s.events if e.get("extract_error")]
    if bad_ex:
        rec.setdefault("errors", []).append(("extract", bad_ex[0]["extract_error"]))
    rec["outcome"] = s.outcome
    if s.errors:
        rec["errors"] = [e[:2] for e in s.errors[:2]]
    if s.outcome != "done":
        rec["wedge"] = s.wedge_info
    return rec


def multi_items(rng, n, first_id):
    items = []
    for i in range(n):
        ns = [1, 2, 3, 2][i % 4]
        bodies = [rng.choice([0, 10, 3000, 70000, 200000]) for _ in range(ns)]
        if i % 3 != 2 and max(bodies) < 70000:
            bodies[rng.randrange(ns)] = rng.choice([70000, 200000])
        total = sum(b + 14 for b in bodies)
        stop = None if i % 3 == 2 else rng.choice([0, 5, 14, 1000, 66000, total // 2, max(0, total - 20000)])
        items.append({"id": first_id + i, "side": "server", "cap": 65536, "bodies": bodies, "sizes": [b + 14 for b in bodies], "stop_at": stop,
                      "read": rng.choice([4096, 65536]), "pace": "protocol-concurrent", "short": "none",
                      "then": "drain" if stop is None else f"peer-leaves-after-{stop}", "seed": rng.randrange(1 << 30),
                      "policy": rng.choice(["fifo", "random", "pct"]), "lag": i % 2 == 0})
        if i % 4 == 0:
            items[-1].update({"stop_at": 0, "early": rng.choice([0.01, 0.05, 0.2]), "lag": True, "then": "peer-leaves-right-after-the-sends-were-queued"})
        if i % 4 == 2:
            items[-1].update({"stop_at": 0, "early": 0.05, "lag": False, "late_send": rng.choice([0.1, 0.12, 0.15, 0.15, 0.17, 0.19, 0.2, 0.2, 0.21, 0.3]),
                              "then": "peer-leaves-one-send-starts-while-the-connection-goes-down"})
    return items


def run_proto_multi_batch(job):
    import logging
    logging.disable(logging.CRITICAL)
    simsock.install()
    return [run_proto_multi(it) for it in job]


def run_proto_batch(job):
    import logging
    logging.disable(logging.CRITICAL)
    simsock.install()
    return [run_proto_one(it) for it in job]


def run(ctx: Ctx):
    wd = workdir(PID)

    def cfg(ign, k, sz, abort="FALSE", stopok="FALSE"):
        return (f"SPECIFICATION Spec\nCONSTANTS ShortWriteIgnored = {ign}\n AbortiveClose = {abort}\n StopReportsSuccess = {stopok}\n K = {k}\n SZ = {sz}\nINVARIANT AcceptedMeansOnStream\n"
                "INVARIANT InOrderNoDup\nPROPERTY EverythingArrives\n")

    for k, sz in ((3, 1), (2, 3), (4, 1)) if not ctx.quick else ((3, 1), (2, 3)):
        r = tlc.run("TcpSend", cfg_text=cfg("FALSE", k, sz), workdir=wd, what=f"send_k{k}_s{sz}", timeout=900)
        tlc.require_ok(r, "TcpSend")
        tlc.require_covered(r, ["Send", "Drain", "Reset", "SendFails", "Close", "Stop", "SendStopped"])
        ctx.add_tlc(r, f"send loop on remaining bytes, K={k}, sizes #{sz}: all short-write / drain / reset interleavings")
    rw = tlc.run("TcpSend", cfg_text=cfg("TRUE", 3, 1), workdir=wd, what="send_ignored", timeout=900, expect_error=True)
    ctx.add_tlc(rw, "regression witness: return value of send ignored -> TLC refutes AcceptedMeansOnStream")
    if rw.error_kind != "invariant":
        raise Machinery("TcpSend regression witness no longer fails")
    rw2 = tlc.run("TcpSend", cfg_text=cfg("FALSE", 3, 1, "TRUE"), workdir=wd, what="abortive_close", timeout=900, expect_error=True)
    ctx.add_tlc(rw2, "witness: abortive close after the last send -> TLC refutes AcceptedMeansOnStream")
    if rw2.error_kind != "invariant":
        raise Machinery("TcpSend abortive-close witness no longer fails")
    rw3 = tlc.run("TcpSend", cfg_text=cfg("FALSE", 3, 1, "FALSE", "TRUE"), workdir=wd, what="stop_reports_success", timeout=900, expect_error=True)
    ctx.add_tlc(rw3, "witness: a send interrupted by disable() reports success -> TLC refutes AcceptedMeansOnStream")
    if rw3.error_kind != "invariant":
        raise Machinery("TcpSend stop-reports-success witness no longer fails")
    rng = random.Random(ctx.seed + 10)
    items = []
    tid = 0
    caps = [1, 7, 4096, 65536]
    for side in ("server", "client"):
        for cap in caps:
            sizes_sets = [[1], [cap - 1 or 1, cap, cap + 1], [3 * cap + 2, 1]]
            if cap >= 4096:
                sizes_sets.append([1024 * 1024 - 1, 1024 * 1024 + 1] if not ctx.quick else [1024 * 1024 + 1])
            if cap == 65536 and not ctx.quick:
                sizes_sets.append([3 * 1024 * 1024])
            for sizes in sizes_sets:
                if cap <= 7 and sum(sizes) > 4096:
                    continue
                for pace in ("immediate", "delayed", "byte"):
                    if pace == "byte" and sum(sizes) > 20000:
                        continue
                    for short in ("none", "half", "rand"):
                        if ctx.quick and short == "half" and pace != "immediate":
                            continue
                        for then in ("drain", "close", "disable_blocked"):
                            if then == "close" and (short == "half" or (ctx.quick and pace == "byte" and cap > 7)):
                                continue
                            if then == "disable_blocked" and (pace != "immediate" or short == "half" or max(sizes) <= cap):
                                continue
                            tid += 1
                            items.append({"id": tid, "side": side, "cap": cap, "sizes": [max(1, x) for x in sizes], "pace": pace, "short": short,
                                          "via": "protocol_split" if max(sizes) > 1024 * 1024 else "send_data", "then": then,
                                          "seed": rng.randrange(1 << 30), "policy": rng.choice(["fifo", "random"])})
    # the peer does not read at all for 8 / 70 s (longer than T8 and T3) while accepted bytes wait in the sender's socket, then drains
    for side in ("server", "client"):
        for cap, sizes in ((4096, [3000]), (65536, [50000]), (65536, [40000, 20000]), (65536, [3 * 65536])):
            for stall in (8.0, 70.0):
                tid += 1
                items.append({"id": tid, "side": side, "cap": cap, "sizes": sizes, "pace": f"stall{int(stall)}", "stall": stall, "short": "none", "via": "send_data",
                              "then": "drain", "seed": rng.randrange(1 << 30), "policy": rng.choice(["fifo", "random"])})
    recs = [r_ for batch in pmap(run_batch, chunks(items, 28)) for r_ in batch]
    # through the protocol layer: messages around and above the 1 MiB packet size, peer leaving after k bytes
    MIB = 1024 * 1024
    pitems = []
    for size, stop in ((MIB - 14, None), (MIB + 1, None), (2 * MIB + 77, None), (2 * MIB + 77, MIB // 2), (2 * MIB + 77, MIB + 4096),
                       (3 * MIB, 2 * MIB + 10)) if ctx.quick else \
            ((MIB - 14, None), (MIB - 13, None), (MIB + 1, None), (2 * MIB + 77, None), (2 * MIB + 77, 100), (2 * MIB + 77, MIB // 2),
             (2 * MIB + 77, MIB + 4096), (3 * MIB, 2 * MIB + 10), (5 * MIB, 4 * MIB + 1), (5 * MIB, None)):
        for stall in ((None,) if stop is None or stop < MIB else (None, 100.0)):
            tid += 1
            pitems.append({"id": tid, "side": "server", "cap": 65536, "sizes": [size + 14], "size": size, "stop_at": stop, "stall": stall,
                           "read": rng.choice([4096, 65536, 1 << 20]), "pace": "protocol", "short": "none",
                           "then": ("peer-stalls-100s-then-leaves" if stall else "peer-leaves") if stop is not None else "drain",
                           "seed": rng.randrange(1 << 30), "policy": rng.choice(["fifo", "random"])})
    recs += [r_ for batch in pmap(run_proto_batch, chunks(pitems, 10)) for r_ in batch]
    # several application threads sending at the same time, the peer leaving in between (hand-over model: SendHandover)
    from . import sendq_model
    sendq_model.check(ctx, wd, "success")
    mitems = multi_items(rng, 64 if ctx.quick else 480, tid + 1)
    tid += len(mitems)
    mrecs = [r_ for batch in pmap(run_proto_multi_batch, chunks(mitems, 4)) for r_ in batch]
    recs += mrecs
    sendq_model.validate(ctx, wd, [r_ for r_ in mrecs if r_["outcome"] == "done" and not r_.get("errors")], "c10")
    for r_ in recs:
        if r_.get("errors") and "Machinery" in str(r_["errors"]):
            raise Machinery(str(r_["errors"]))
    f = wd / "tcp_traces.json"
    f.write_text(json.dumps([{k: r_[k] for k in ("id", "sends", "received", "reset")} for r_ in recs]))
    rj = tlc.run("TcpJudge", cfg_text="", workdir=wd, workers=1, env={"TRACE_FILE": str(f)}, what="judge", coverage=False, timeout=1800)
    tlc.require_ok(rj, "TcpJudge")
    verd = {v["id"]: v for v in rj.tagged("V")}
    if len(verd) != len(recs):
        raise Machinery(f"judge: {len(verd)} verdicts for {len(recs)}")
    ctx.traces += len(recs)
    ctx.evaluations += len(recs)
    ctx.nontrivial += len({(r_["side"], r_["cap"], tuple(r_["sizes"]), r_["pace"], r_["short"], r_.get("then")) for r_ in recs})
    ctx.extra["observation_sends_queued_after_the_receiver_loop_ended"] = sum(len(r_.get("queued_for_the_next_connection", [])) for r_ in recs)
    ctx.extra["closed_with_bytes_in_flight"] = sum(1 for r_ in recs if r_.get("then") == "close" and r_.get("in_flight_at_close", 0) > 0)
    for r_ in recs:
        v = verd[r_["id"]]
        if r_["id"] in (3, 40):
            ctx.sample({k: r_[k] for k in ("side", "cap", "sizes", "pace", "short", "sends")} | {"received_runs": r_["received"][:6]})
        big = max(r_["sizes"]) > r_["cap"]
        if r_.get("taken_never_resolved"):
            ctx.violation({"check": "tcp", "clause": "send-neither-succeeded-nor-failed", "side": r_["side"], "sizes": r_["sizes"], "then": r_.get("then"),
                           "senders": r_["taken_never_resolved"], "sched": [r_["seed"], r_["policy"]],
                           "what": f"{len(r_['sizes'])} thread(s) sending, {r_.get('then')}: the block of sender {r_['taken_never_resolved']} was taken from the send queue "
                                   "but never resolved: send_message neither reports success nor failure, it never returns"})
        elif r_["outcome"] != "done" or not r_.get("done", False):
            ctx.violation({"check": "tcp", "clause": "send-did-not-finish", "side": r_["side"], "cap": r_["cap"], "sizes": r_["sizes"], "pace": r_["pace"],
                           "short": r_["short"], "exceeds_buffer": big, "outcome": r_["outcome"], "wedge": r_.get("wedge"), "errors": r_.get("errors"),
                           "what": f"{r_['side']} cap={r_['cap']} sizes={r_['sizes']} pace={r_['pace']}: sending did not finish ({r_['outcome']})"})
        elif v["clause"] != "ok":
            ctx.violation({"check": "tcp", "clause": v["clause"], "side": r_["side"], "cap": r_["cap"], "sizes": r_["sizes"], "pace": r_["pace"],
                           "short": r_["short"], "exceeds_buffer": big, "sends": r_["sends"], "received_runs": r_["received"][:8],
                           "stream_len": r_.get("stream_len"), "then": r_.get("then"), "in_flight_at_close": r_.get("in_flight_at_close"),
                           "peer_saw_reset": r_.get("peer_saw_reset"),
                           "what": f"{r_['side']} cap={r_['cap']} sizes={r_['sizes']} pace={r_['pace']} short={r_['short']} then={r_.get('then')}: {v['clause']} "
                                   f"(peer read {r_.get('stream_len')} of {sum(r_['sizes'])} bytes)"})
        elif not r_.get("disable_returned", True):
            ctx.violation({"check": "tcp", "clause": "disable-did-not-return", "side": r_["side"], "cap": r_["cap"],
                           "what": f"{r_['side']}: disable() after the transfer did not return"})
    ctx.rule = ("scenarios = {server, client} x buffer capacity {1, 7, 4 KiB, 64 KiB} x message sizes {1, cap-1, cap, cap+1, 3*cap+2, "
                "1 MiB +-1, 3 MiB} x reader pacing {immediate, delayed, small reads, nothing for 8 s / 70 s and then everything} x short-write policy {none, half, random} x "
                "{peer drains while the connection stays up, disable() right after the last send and the peer reads until EOF, "
                "disable() while a send is blocked on a full socket (peer not reading) and the peer reads until EOF afterwards} + messages of "
                "1 MiB -14 .. 5 MiB through the real HsmsProtocol send path (packet split), the peer leaving after k bytes; 1-3 threads sending 0 B .. 200 KB "
                "messages at the same time through the real HsmsProtocol, the peer draining or leaving after k bytes / right after the sends were queued; "
                "non-trivial = distinct scenarios")
    ctx.assumptions += ["kernel TCP behaviour is the simulated socket layer (non-blocking send accepts 1..free bytes or raises EWOULDBLOCK)"]
    return ctx.finish()
