"""C04 -- HSMS frames are bit-exact and reassembled independently of TCP segmentation.

Leg M : TLC checks FrameStream (code-shaped framing loop: every partition of bounded streams is a path of the
        graph; invariants + liveness) and the codec theorems of HsmsFrame over a boundary universe.
Leg R : the universe vectors are replayed against secsgem.hsms (encode bytes, decode fields).
Leg V : the real receive path (HsmsProtocol SELECTED on a FakeConnection under simrt) is fed streams cut at
        every position (all 1- and 2-cut partitions, single bytes, random partitions, random thread schedules);
        the deliveries recorded after every segment are validated by TLC (FrameJudge).
"""
from __future__ import annotations

import json
import random

from .. import hsmsrun, link, simrt, tlc
from ..common import Ctx, Machinery, chunks, pmap, workdir

PID = "C04"


def pattern(n):
    return bytes((i * 7 + 3) % 251 for i in range(1, n + 1))


# --------------------------------------------------------------------------- Leg R: vectors
def check_vectors(ctx, vecs):
    import secsgem.hsms
    from secsgem.hsms.header import HsmsHeader, HsmsSType
    from secsgem.hsms.message import HsmsBlock, HsmsMessage

    n = 0
    for v in vecs:
        f = v["f"]
        body = pattern(f["blen"])
        system = int.from_bytes(bytes(f["system"]), "big")
        want_head = bytes(v["head"])
        want = want_head + body
        assert len(want) == 14 + f["blen"]
        n += 1
        try:
            hdr = HsmsHeader(system, f["session"], f["stream"], f["function"], f["w"], f["ptype"], HsmsSType(f["stype"]))
            got = HsmsMessage(hdr, body).blocks[0].encode()
        except Exception as exc:  # noqa: BLE001
            ctx.violation({"check": "vector-encode", "fields": f, "what": f"encode raised {exc!r} for {f}"})
            continue
        if bytes(got) != want:
            ctx.violation({"check": "vector-encode", "fields": f, "got": bytes(got[:14]).hex(), "want": want_head.hex(),
                           "what": f"HSMS frame bytes differ from E37 for {f}"})
            continue
        try:
            blk = HsmsBlock.decode(want)
            h = blk.header
            back = {"session": h.device_id, "w": h.require_response, "stream": h.stream, "function": h.function,
                    "ptype": h.p_type, "stype": h.s_type.value, "system": list(h.system.to_bytes(4, "big")),
                    "blen": len(blk.data)}
            same = back == f and bytes(blk.data) == body
        except Exception as exc:  # noqa: BLE001
            ctx.violation({"check": "vector-decode", "fields": f, "what": f"decode raised {exc!r} for {f}"})
            continue
        if not same:
            ctx.violation({"check": "vector-decode", "fields": f, "got": back, "what": f"decoded fields differ for {f}"})
    return n


# --------------------------------------------------------------------------- Leg V: segmentations
def make_stream(kind, rng):
    """List of (frame bytes, expected-observation key)."""
    frames = []

    def data(i, s, f, w, blen, session=0, sysid=None):
        sysid = 0x10000 + i if sysid is None else sysid
        frames.append((link.hsms_frame(stype=0, system=sysid, session=session, stream=s, function=f, wbit=w,
                                       body=pattern(blen)), ("D", sysid, s, f, w, blen, session)))

    def lt(i):
        sysid = 0x10000 + i
        frames.append((link.hsms_frame(stype=5, system=sysid), ("L", sysid)))

    if kind == "short3":
        data(1, 1, 1, False, 0)
        lt(2)
        data(3, 99, 7, True, 2, session=0x7FFF)
    elif kind == "mixed":
        data(1, 1, 1, False, 0)
        data(2, 6, 11, True, 1)
        lt(3)
        data(4, 127, 255, False, 300, session=0xFFFF)
        lt(5)
        data(6, 0, 0, True, 3)
    elif kind == "samehdr":
        # a peer that numbers all its messages alike: neighbouring frames with equal headers (equal system bytes) are distinct
        # messages -- different bodies, and the very same frame twice
        data(1, 6, 11, False, 3, sysid=0x4242)
        data(2, 6, 11, False, 7, sysid=0x4242)
        data(3, 6, 11, False, 7, sysid=0x4242)
        data(4, 1, 1, True, 0, sysid=0x4242)
        data(5, 1, 1, True, 0, sysid=0x4242)
    elif kind.startswith("big:"):
        # one body around / above 1 MiB (the size of the sender's packets -- no limit for a message), followed by small frames
        data(1, 6, 11, True, int(kind[4:]))
        lt(2)
        data(3, 1, 1, False, 5)
    else:  # random
        n = rng.randint(2, 8)
        for i in range(1, n + 1):
            if rng.random() < 0.25:
                lt(i)
            else:
                data(i, rng.choice([0, 1, 2, 64, 99, 127]), rng.choice([0, 1, 2, 13, 255]), rng.random() < 0.5,
                     rng.choice([0, 0, 1, 2, 10, 255, 256, 1500]), rng.choice([0, 1, 0x7FFF, 0xFFFF]))
    return frames


def run_batch(job):
    """job: (batch id, [(tid, kind, stream seed, segs or None)], sched seed, policy)."""
    bid, items, seed, policy = job
    hsmsrun.quiet_logging()
    simrt.install()
    out = []

    def main(s):
        ep = hsmsrun.Ep(mode="passive", kind="protocol")
        order = []   # observation keys in the order they become visible
        ep.protocol.events.message_received += lambda d: order.append(
            ("D", d["message"].header.system, d["message"].header.stream, d["message"].header.function,
             d["message"].header.require_response, len(d["message"].data), d["message"].header.device_id,
             bytes(d["message"].data)))

        def on_send(data):
            for fr in link.parse_frames(data)[0]:
                if fr.get("stype") == 6:
                    order.append(("L", fr["system"]))
                else:
                    order.append(("X", fr.get("stype"), fr.get("system")))

        ep.protocol.enable()
        ep.link.connect()
        s.settle()
        ep.link.feed(link.hsms_frame(stype=1, system=1))
        s.settle()
        ep.link.take_frames()
        ep.link.on_send_hook = on_send
        if ep.cs != "SEL":
            raise Machinery("endpoint did not reach SELECTED")
        for tid, kind, sseed, segs in items:
            rng = random.Random(sseed)
            if kind.startswith("reconnect:"):
                # the previous connection ended inside a frame: none of its bytes belong to the new connection's stream
                kind = kind.split(":", 1)[1]
                pre = b"".join(f for f, _ in make_stream("mixed", random.Random(sseed + 1)))
                cut = rng.choice([1, 2, 3, 4, 5, 9, 13, 14, 15, 20])
                ep.link.feed(pre[:cut])
                s.settle()
                n0 = ep.link.closed_count
                ep.link.peer_close()
                okc, whyc = s.run_until(lambda: ep.link.closed_count > n0 and ep.cs == "NC", max_dt=30)
                if not okc:
                    raise Machinery(f"close did not finish in the C04 reconnect item: {whyc}")
                ep.link.on_send_hook = None
                if rng.random() < 0.5:
                    # the peer's Select.req is already in the socket when the connection is accepted
                    ep.link.connect(inflight=link.hsms_frame(stype=1, system=2))
                    s.settle()
                else:
                    ep.link.connect()
                    s.settle()
                    ep.link.feed(link.hsms_frame(stype=1, system=2))
                s.settle()
                ep.link.take_frames()
                ep.link.on_send_hook = on_send
                if ep.cs != "SEL":
                    out.append({"id": tid, "lens": [1], "segs": [1], "obs": [[0]], "kind": "reconnect", "sseed": sseed, "sched": [seed, policy],
                                "not_selected_after_reconnect": True})
                    return
            frames = make_stream(kind, rng)
            stream = b"".join(f for f, _ in frames)
            if segs is None:
                # random partition
                segs = []
                rest = len(stream)
                while rest:
                    k = min(rest, rng.choice([1, 1, 2, 3, 4, 5, 10, 14, 15, 40, 1024, rest]))
                    segs.append(k)
                    rest -= k
            assert sum(segs) == len(stream), (segs, len(stream))
            del order[:]
            seen_rsp = []
            obs = []
            pos = 0
            bad = None
            for k in segs:
                ep.link.feed(stream[pos:pos + k])
                pos += k
                s.settle()
                ep.link.take_raw()
                # map observations to frame indices (0 = something that matches no sent frame)
                idx = []
                used = set()
                for o in order:
                    match = []
                    for n, (fb, key) in enumerate(frames, start=1):
                        if key[0] == "D" and o[0] == "D" and tuple(o[1:7]) == key[1:] and o[7] == fb[14:]:
                            match.append(n)
                        if key[0] == "L" and o[0] == "L" and o[1] == key[1]:
                            match.append(n)
                    # equal frames are distinct messages: the k-th observation of such a frame stands for the k-th of them
                    fresh = [n for n in match if n not in used]
                    j = fresh[0] if fresh else (match[-1] if match else 0)
                    used.add(j)
                    idx.append(j)
                obs.append(idx)
            out.append({"id": tid, "lens": [len(f) for f, _ in frames], "segs": list(segs), "obs": obs, "kind": kind,
                        "sseed": sseed, "sched": [seed, policy]})
            # the endpoint must be back at an empty buffer for the next item
            if len(ep.protocol._receive_buffer) != 0:
                out[-1]["residue"] = len(ep.protocol._receive_buffer)
                ep.protocol._receive_buffer.clear()

    s = simrt.run(main, seed=seed, policy=policy, switch_prob=0.3, max_vtime=1e9, wall_timeout=600)
    return {"bid": bid, "outcome": s.outcome, "errors": [e[:2] for e in s.errors[:2]], "traces": out,
            "wedge": s.wedge_info}


def run(ctx: Ctx):
    wd = workdir(PID)
    # ---- Leg M: codec theorems + vectors
    r = tlc.run("HsmsFrameVec", cfg_text="", workdir=wd, workers=1, what="vectors", coverage=False, timeout=900)
    tlc.require_ok(r, "HsmsFrameVec")
    vecs = r.tagged("VEC")
    if len(vecs) < 1000:
        raise Machinery(f"too few vectors: {len(vecs)}")
    ctx.extra["codec_vectors"] = len(vecs)
    # ---- Leg M: framing model
    lens = "{5, 6, 9}" if ctx.quick else "{5, 6, 7, 11}"
    mf = 3 if ctx.quick else 4
    cfg = (f"SPECIFICATION Spec\nCONSTANTS Lens = {lens}\n MaxFrames = {mf}\nINVARIANT InOrderNoDupNoLoss\n"
           "INVARIANT NothingEarly\nINVARIANT ConservesBytes\nINVARIANT AllDeliveredAtQuiescence\nPROPERTY EventuallyAll\n")
    r2 = tlc.run("FrameStream", cfg_text=cfg, workdir=wd, what="framestream", timeout=1800)
    tlc.require_ok(r2, "FrameStream")
    tlc.require_covered(r2, ["DoSegment|Segment", "Extract", "Deliver"])
    ctx.add_tlc(r2, "framing loop: every partition of every stream of <= MaxFrames frames; safety + liveness")
    # ---- Leg R: vectors against the real codec
    nvec = check_vectors(ctx, vecs)
    ctx.evaluations += nvec
    ctx.sample({"vector": vecs[0]})
    # ---- Leg V: segmentations on the real receive path
    rng = random.Random(ctx.seed + 4)
    items = []
    tid = 0

    def add(kind, sseed, segs):
        nonlocal tid
        tid += 1
        items.append((tid, kind, sseed, segs))

    for kind in ("short3", "mixed"):
        total = sum(len(f) for f, _ in make_stream(kind, random.Random(0)))
        add(kind, 0, [total])
        add(kind, 0, [1] * total)
        step = 1 if kind == "short3" else (7 if ctx.quick else 2)
        for a in range(1, total):
            add(kind, 0, [a, total - a])
        for a in range(0, total, step):
            for k in range(1, total - a, step):
                if a + k < total:
                    add(kind, 0, ([a] if a else []) + [k, total - a - k])
    for i in range(300 if ctx.quick else 4000):
        add("random", rng.randrange(1 << 30), None)
    total = sum(len(f) for f, _ in make_stream("samehdr", random.Random(0)))
    add("samehdr", 0, [total])
    add("samehdr", 0, [1] * total)
    for _ in range(4 if ctx.quick else 40):
        add("samehdr", rng.randrange(1 << 30), None)
    mib = 1024 * 1024
    for blen in ((mib - 10, mib - 9, mib + mib // 2) if ctx.quick else (mib - 11, mib - 10, mib - 9, mib, mib + mib // 2, 3 * mib, 16 * mib + 3)):
        total = sum(len(f) for f, _ in make_stream(f"big:{blen}", random.Random(0)))
        for piece in ((65536,) if ctx.quick else (65536, 1000003)):
            add(f"big:{blen}", 0, [piece] * (total // piece) + ([total % piece] if total % piece else []))
        add(f"big:{blen}", 0, [total])
    jobs = []
    for b, ch in enumerate(chunks(items, 28 if ctx.quick else 56)):
        pol = ["fifo", "random", "pct"][b % 3]
        # in every batch (i.e. under every schedule policy and seed) one or two streams follow a connection that ended inside a frame
        ch = list(ch)
        for _ in range(1 if pol == "fifo" else 2):
            tid += 1
            ch.insert(rng.randrange(len(ch) + 1), (tid, "reconnect:random", rng.randrange(1 << 30), None))
        jobs.append((b, ch, rng.randrange(1 << 30), pol))
    results = pmap(run_batch, jobs)
    traces = []
    for res in results:
        if res["outcome"] != "done" or res["errors"]:
            ctx.violation({"check": "segmentation-run", "what": f"receive path run ended {res['outcome']} {res['errors']}",
                           "wedge": res["wedge"], "done_traces": len(res["traces"])})
        traces.extend(res["traces"])
    f = wd / "seg_traces.json"
    f.write_text(json.dumps([{k: t[k] for k in ("id", "lens", "segs", "obs")} for t in traces]))
    rj = tlc.run("FrameJudge", cfg_text="", workdir=wd, workers=1, env={"TRACE_FILE": str(f)}, what="judge",
                 coverage=False, timeout=1800)
    tlc.require_ok(rj, "FrameJudge")
    verd = {v["id"]: v for v in rj.tagged("V")}
    if len(verd) != len(traces):
        raise Machinery(f"FrameJudge: {len(verd)} verdicts for {len(traces)} traces")
    ctx.traces += len(traces)
    ctx.evaluations += sum(len(t["segs"]) for t in traces)
    ctx.nontrivial += len({json.dumps([t["lens"], t["segs"]]) for t in traces if len(t["segs"]) > 1})
    for t in traces:
        v = verd[t["id"]]
        if t["id"] in (3, 40):
            ctx.sample({"lens": t["lens"], "segs": t["segs"][:12], "delivered_after_each_segment": t["obs"][:12]})
        if t.get("not_selected_after_reconnect"):
            ctx.violation({"check": "segmentation", "kind": "reconnect", "what": "after a connection that ended inside a frame the next connection's "
                           "Select.req was not answered (endpoint not SELECTED)", "sched": t["sched"]})
        elif not v["ok"]:
            ctx.violation({"check": "segmentation", "kind": t["kind"], "lens": t["lens"], "segs": t["segs"], "at": v["at"],
                           "observed": t["obs"][v["at"] - 1], "want_count": v["want"], "sseed": t["sseed"],
                           "sched": t["sched"],
                           "what": f"after segment {v['at']} of {t['segs'][:8]}.. the receiver delivered "
                                   f"{t['obs'][v['at'] - 1]} instead of frames 1..{v['want']} (frame lengths {t['lens']})"})
        elif t.get("residue"):
            ctx.violation({"check": "segmentation", "kind": t["kind"], "what": f"{t['residue']} stale bytes left in the "
                           "receive buffer after a complete stream", "lens": t["lens"], "segs": t["segs"]})
    # ---- Leg T: the trigger-driven receiver / dispatcher loops (model + trace validation of the real threads)
    from . import c04_trace
    c04_trace.check(ctx, wd, pmap)
    ctx.rule = ("codec: boundary universe of header fields x body lengths; reassembly: all partitions with <= 3 segments of two "
                "fixed streams (data + Linktest.req frames), single-byte and one-shot partitions, random partitions of random "
                "streams (also right after a connection that ended inside a frame), under fifo/random/PCT thread schedules; distinct = distinct (frame lengths, partition); every Event / Queue "
                "operation of the receiver and dispatcher threads in 90 (900) further runs validated by TLC as a behaviour of DispatcherLoops")
    ctx.assumptions += ["frames with SType outside E37's table are outside the property"]
    return ctx.finish()
