"""C15 -- SML text of any item parses back to the same item; the parser terminates.

Leg M : TLC checks the token-level reference SmlRef for self-consistency on ALL token strings up to length 5/6 over the
        11-token alphabet (a well-formed item text is never one that must be rejected, ...).
Leg R : every item of the TLC-proved E5 universe (and seeded random items) is printed by the real to_sml(); the real parser
        must turn that text back into an item whose encoding equals the reference bytes.
Leg V : (a) the printed texts are tokenized by the harness' own tokenizer and TLC (SmlJudge) checks that their structure is
        the item's structure; (b) every token string up to length 5 (thorough 6) over the alphabet and single-token edits of
        valid SML are given to the real parser under a watchdog; for every string for which it RETURNS an item TLC decides
        whether the property forbade that (missing closing bracket / unknown type name).
"""
from __future__ import annotations

import itertools
import json
import multiprocessing as mp
import random

from .. import e5bind, tlc
from ..common import Ctx, Machinery, workdir
from . import c01

PID = "C15"
ALPHABET = ["<", ">", "[", "]", "L", "U1", "A", "1", '"x"', "X", "."]
TYPES = {"L", "B", "BOOLEAN", "A", "J", "I1", "I2", "I4", "I8", "U1", "U2", "U4", "U8", "F4", "F8"}


def tokenize(text):
    toks, cur, delim = [], "", ""
    for ch in text:
        if delim:
            cur += ch
            if ch == delim:
                toks.append(cur)
                cur, delim = "", ""
            continue
        if ch in " \t\n\r":
            if cur:
                toks.append(cur)
                cur = ""
        elif ch in "<>[]":
            if cur:
                toks.append(cur)
                cur = ""
            toks.append(ch)
        else:
            if ch in "'\"":
                delim = ch
            cur += ch
    if cur:
        toks.append(cur)
    return toks


def up_types(toks):
    out = []
    for i, t in enumerate(toks):
        out.append(t.upper() if i > 0 and toks[i - 1] == "<" and t.upper() in TYPES else t)
    return out


def shape(item):
    if item["f"] == "L":
        return {"t": "L", "n": len(item["v"]), "kids": [shape(c) for c in item["v"]]}
    return {"t": item["f"], "n": len(item["v"]), "kids": []}


class Hang(BaseException):
    pass


HANG = "\0HANG"


def parse_batch(texts):
    """Run the real parser on many texts; returns list of (index, sml of result) for accepted ones and (index, HANG) for
    texts on which the parser was still running after 10 s (per-text watchdog: SIGALRM raises inside the parser)."""
    import signal

    from secsgem.secs.item import Item

    def on_alarm(*_):
        raise Hang()

    signal.signal(signal.SIGALRM, on_alarm)
    out = []
    hangs = 0
    for i, t in texts:
        try:
            signal.setitimer(signal.ITIMER_REAL, 10.0 if hangs < 2 else 0.25)
            it = Item.from_sml(t)
            signal.setitimer(signal.ITIMER_REAL, 0)
        except Hang:
            hangs += 1
            out.append((i, HANG))
            continue
        except Exception:  # noqa: BLE001
            signal.setitimer(signal.ITIMER_REAL, 0)
            continue
        except BaseException:  # noqa: BLE001
            signal.setitimer(signal.ITIMER_REAL, 0)
            continue
        out.append((i, it.to_sml() if it is not None else "None"))
    signal.setitimer(signal.ITIMER_REAL, 0)
    return out


def run(ctx: Ctx):
    from secsgem.secs.item import Item

    wd = workdir(PID)
    maxlen = 5 if ctx.quick else 6
    r = tlc.run("SmlRefCheck", cfg_text="", workdir=wd, workers=1, what="ref", coverage=False, timeout=3000,
                env={"SML_MAXLEN": str(maxlen)}, extra_args=["-maxSetSize", "4000000"], heap="12g")
    tlc.require_ok(r, "SmlRefCheck")
    ctx.tlc_runs.append({"spec": "SmlRefCheck.tla", "what": f"reference self-consistency on all token strings <= {maxlen}", "wall_s": round(r.wall, 1)})
    vec, ln, nlb, nar = c01.universe(ctx, wd)
    Item._import_inherited()
    recs = []
    rid = 0
    rng = random.Random(ctx.seed + 15)
    items = [(v["item"], bytes(v["bytes"])) for v in vec]
    from .. import e5 as ref
    for _ in range(600 if ctx.quick else 6000):
        it = c01.random_item(rng)
        try:
            items.append((it, bytes(e5bind.ibuild(it).encode())))
        except Exception:  # noqa: BLE001
            continue
    texts_valid = []
    for item, want in items:
        f = item["f"]
        base = {"fmt": f, "item": item if len(json.dumps(item)) < 400 else c01.desc(item)}
        try:
            obj = e5bind.ibuild(item)
            text = obj.to_sml()
        except Exception as exc:  # noqa: BLE001
            ctx.violation(dict(base, check="to-sml", error=type(exc).__name__, what=f"to_sml of {c01.desc(item)} raised {exc!r}"))
            continue
        feat = {"has_quote": '"' in json.dumps(e5bind.pyval(item)) if f in ("A", "J") else False,
                "non_ascii_j": f == "J" and any(c > 127 for c in item["v"])}
        try:
            back = Item.from_sml(text)
            got = bytes(back.encode())
        except Exception as exc:  # noqa: BLE001
            ctx.violation(dict(base, check="sml-roundtrip", error=type(exc).__name__, sml=text[:200], **feat,
                               what=f"SML of {c01.desc(item)} does not parse back: {text[:80]!r} -> {exc!r}"))
            continue
        if got != want:
            ctx.violation(dict(base, check="sml-roundtrip", sml=text[:200], got=got[:40].hex(), want=want[:40].hex(), **feat,
                               what=f"SML of {c01.desc(item)} parses back to a different item: {text[:80]!r} -> {got[:16].hex()}"))
            continue
        rid += 1
        recs.append({"k": "printed", "id": rid, "toks": up_types(tokenize(text)), "shape": shape(item), "_sml": text[:200], "_item": base["item"]})
        if len(text) < 200:
            texts_valid.append(text)
    nprinted = len(recs)
    # ---- enumeration of token strings + mutations
    strings = []
    for n in range(0, maxlen + 1):
        for combo in itertools.product(ALPHABET, repeat=n):
            strings.append(" ".join(combo))
    muts = []
    for text in rng.sample(texts_valid, min(len(texts_valid), 300 if ctx.quick else 3000)):
        toks = tokenize(text)
        for _ in range(6):
            t2 = list(toks)
            op = rng.choice(["del", "ins", "swap"])
            if op == "del" and t2:
                del t2[rng.randrange(len(t2))]
            elif op == "ins":
                t2.insert(rng.randrange(len(t2) + 1), rng.choice(ALPHABET + ["XY", "0x41", "<", ">"]))
            elif len(t2) > 1:
                i = rng.randrange(len(t2) - 1)
                t2[i], t2[i + 1] = t2[i + 1], t2[i]
            muts.append(" ".join(t2))
    # character-level truncations: every proper prefix of printed texts (cuts inside type names, numbers, quoted literals)
    # and the alphabet strings with a literal that is never closed
    cuts = []
    shortv = sorted(set(texts_valid), key=lambda t: (len(t), t))
    pick = shortv[:40] + rng.sample(shortv, min(len(shortv), 60 if ctx.quick else 600))
    # ... and for every item type the three shortest printed texts whose root is an item of that type (with and without values)
    by_type = {}
    for t_ in shortv:
        m_ = t_.lstrip()[1:].split()
        if t_.lstrip().startswith("<") and m_:
            by_type.setdefault(m_[0].rstrip(">"), []).append(t_)
    for ty, ts in sorted(by_type.items()):
        with_values = [t_ for t_ in ts if len(t_.split()) > 3][:2]
        pick += ts[:2] + with_values
    ctx.extra["root_types_truncated"] = sorted(by_type)
    for text in pick:
        for k in range(1, len(text)):
            cuts.append(text[:k])
    for base_ in ('< A "x', "< A 'x", '< L < A "x" > < A "y', '< A "x" "y', '"', "'", '< U1 1 > "', '< L "', "< J 'x' 'y"):
        cuts.append(base_)
    cuts = list(dict.fromkeys(cuts))
    allt = list(enumerate(strings + muts + cuts))
    accepted = []
    chunksz = 20000
    ctxmp = mp.get_context("fork")
    with ctxmp.Pool(14) as pool:
        jobs = [pool.apply_async(parse_batch, (allt[i:i + chunksz],)) for i in range(0, len(allt), chunksz)]
        for j, job in enumerate(jobs):
            try:
                accepted.extend(job.get(timeout=300))
            except mp.TimeoutError:
                ctx.violation({"check": "parser-termination", "what": f"the SML parser did not terminate within 300 s on a batch of {chunksz} "
                               f"strings starting with {allt[j * chunksz][1]!r}"})
    hung = [(i, x) for i, x in accepted if x == HANG]
    accepted = [(i, x) for i, x in accepted if x != HANG]
    for i, _ in hung[:25]:
        t = allt[i][1]
        ctx.violation({"check": "parser-termination", "text": t[:200], "open_literal": t.count('"') % 2 == 1 or t.count("'") % 2 == 1,
                       "what": f"Item.from_sml({t[:80]!r}) did not terminate (still running after 10 s)"})
    for i, sml in accepted:
        rid += 1
        recs.append({"k": "accepted", "id": rid, "toks": up_types(tokenize(allt[i][1])), "_text": allt[i][1], "_result": sml[:100]})
    f = wd / "sml_recs.json"
    f.write_text(json.dumps([{k: v for k, v in r_.items() if not k.startswith("_")} for r_ in recs]))
    rj = tlc.run("SmlJudge", cfg_text="", workdir=wd, workers=1, env={"REC_FILE": str(f)}, what="judge", coverage=False,
                 timeout=3000, heap="12g")
    tlc.require_ok(rj, "SmlJudge")
    cnt = rj.tagged("N")
    if not cnt or cnt[0]["n"] != len(recs):
        raise Machinery(f"SmlJudge judged {cnt} of {len(recs)}")
    byid = {r_["id"]: r_ for r_ in recs}
    for v in rj.tagged("V"):
        r_ = byid[v["id"]]
        if r_["k"] == "accepted":
            ctx.violation({"check": "accepted", "clause": v["clause"], "text": r_["_text"], "result": r_["_result"],
                           "dot_terminated": "." in r_["toks"],
                           "what": f"Item.from_sml({r_['_text']!r}) returned {r_['_result']!r}: {v['clause']}"})
        else:
            ctx.violation({"check": "printed", "clause": v["clause"], "sml": r_["_sml"], "item": r_["_item"],
                           "what": f"to_sml() text {r_['_sml'][:80]!r}: {v['clause']}"})
    ctx.traces += len(recs)
    ctx.evaluations += len(items) + len(allt)
    ctx.nontrivial += nprinted + len(accepted)
    ctx.extra.update({"token_strings": len(strings), "mutations": len(muts), "character_level_truncations": len(cuts), "hangs": len(hung), "accepted_by_real_parser": len(accepted),
                      "printed_items": nprinted})
    if recs:
        ctx.sample({"printed": recs[0]["_sml"], "tokens": recs[0]["toks"][:12]})
    acc = [r_ for r_ in recs if r_["k"] == "accepted"]
    if acc:
        ctx.sample({"accepted_string": acc[len(acc) // 2]["_text"], "result": acc[len(acc) // 2]["_result"]})
    ctx.exhaustive = True
    ctx.rule = (f"round trip: all E5-universe items + seeded random items; rejection/termination: ALL token strings of length <= {maxlen} "
                "over {<,>,[,],L,U1,A,1,\"x\",X,.} + single-token edits of valid SML + every proper prefix (character level) of printed "
                "texts + texts ending inside a quoted literal, each under a 10 s watchdog; non-trivial = printed items + strings the real "
                "parser accepted (each judged by TLC)")
    ctx.assumptions += ["floats are compared through the re-encoded bytes (no decimal float parser in the reference)",
                        "the harness tokenizer (operators, white space, quoted literals) defines the token view of a text"]
    import re
    m = re.search(r'<<"COUNT", (\d+)>>', r.out)
    ctx.states = int(m.group(1)) if m else len(strings)     # token strings the reference was checked on
    ctx.transitions = ctx.states
    return ctx.finish()
