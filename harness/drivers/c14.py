"""C14 -- the Item API agrees with SEMI E5 and with the variables API on every value.

Leg M : the same TLC-proved boundary universe as C01/C02 (E5Universe) + the narrowest-integer-type rule (E5Item!Narrowest)
        proved to round-trip on boundary integers.
Leg R : vectors against secsgem.secs.item*: ItemX(value).encode() equals the reference bytes (hence the variables API's bytes),
        .value holds the value, Item.decode(valid encoding) re-encodes canonically (incl. non-minimal length bytes), all
        constructor forms (scalar / list / bytes) agree, Item.from_value picks the narrowest standard type.
Leg V : seeded random items encoded through the Item API are judged by TLC (E5Judge).
"""
from __future__ import annotations

import json

from .. import e5bind, tlc
from ..common import Ctx, Machinery, workdir
from . import c01

PID = "C14"


def run(ctx: Ctx):
    from secsgem.secs.item import Item

    wd = workdir(PID)
    vec, ln, nlb, nar = c01.universe(ctx, wd)
    Item._import_inherited()
    for v in vec:
        item, want = v["item"], bytes(v["bytes"])
        f = item["f"]
        base = {"fmt": f, "item": item if len(json.dumps(item)) < 500 else c01.desc(item)}
        try:
            obj = e5bind.ibuild(item)
            got = bytes(obj.encode())
        except Exception as exc:  # noqa: BLE001
            ctx.violation(dict(base, check="item-encode", error=type(exc).__name__, what=f"Item for {c01.desc(item)} raised {exc!r}"))
            continue
        if got != want:
            ctx.violation(dict(base, check="item-encode", got=got[:40].hex(), want=want[:40].hex(),
                               what=f"Item {c01.desc(item)} encodes to {got[:24].hex()} instead of {want[:24].hex()}"))
            continue
        exp = e5bind.ivalue(item)
        try:
            val = obj.value
            ok = (val == exp) or (f == "L" and obj.to_list() == exp if hasattr(obj, "to_list") else False)
        except Exception as exc:  # noqa: BLE001
            ok, val = False, repr(exc)
        if not ok and f != "L":
            ctx.violation(dict(base, check="item-value", got=repr(val)[:80], want=repr(exp)[:80],
                               what=f"Item {c01.desc(item)} holds {val!r} instead of {exp!r}"))
        try:
            back = Item.decode(want)
            again = bytes(back.encode())
        except Exception as exc:  # noqa: BLE001
            ctx.violation(dict(base, check="item-decode", error=type(exc).__name__, bytes=want[:40].hex(),
                               what=f"Item.decode of the E5 bytes of {c01.desc(item)} raised {exc!r}"))
            continue
        if again != want or type(back).__name__ != type(obj).__name__:
            ctx.violation(dict(base, check="item-decode", reencoded=again[:40].hex(),
                               what=f"Item.decode({want[:16].hex()}) gives {type(back).__name__} re-encoding to {again[:16].hex()}"))
        # constructor forms
        if f not in ("L", "A", "J") and len(item["v"]) >= 1:
            pv = e5bind.pyval(item)
            forms = []
            if f == "B":
                forms = [("list-of-ints", list(pv))]
                if len(pv) == 1:
                    forms.append(("int", pv[0]))
            elif len(pv) == 1:
                forms = [("scalar", pv[0]), ("list", [pv[0]])]
            for name, form in forms:
                try:
                    g2 = bytes(e5bind.icls(f)(form).encode())
                except Exception as exc:  # noqa: BLE001
                    ctx.violation(dict(base, check="item-constructor-form", form=name, error=type(exc).__name__,
                                       what=f"Item{f}({form!r}) raised {exc!r}"))
                    continue
                if g2 != want:
                    ctx.violation(dict(base, check="item-constructor-form", form=name, got=g2[:40].hex(), want=want[:40].hex(),
                                       what=f"Item{f}({form!r}) encodes to {g2[:24].hex()} instead of {want[:24].hex()}"))
                    continue
                if isinstance(form, list):
                    # the item HOLDS the value: what the caller does with its list afterwards does not reach into the item
                    try:
                        src = list(form)
                        it2 = e5bind.icls(f)(src)
                        src[0] = 0 if f != "BOOLEAN" else (not src[0])
                        src.append(src[0])
                        g3 = bytes(it2.encode())
                    except Exception as exc:  # noqa: BLE001
                        ctx.violation(dict(base, check="item-holds-value", error=type(exc).__name__,
                                           what=f"Item{f} built from a list raised {exc!r} after the caller changed that list"))
                        continue
                    if g3 != want:
                        ctx.violation(dict(base, check="item-holds-value", got=g3[:40].hex(), want=want[:40].hex(),
                                           what=f"Item{f}({form!r}) encodes to {g3[:24].hex()} after the caller changed its own list (was {want[:24].hex()})"))
    for v in nlb:
        data, canon = bytes(v["bytes"]), bytes(v["canon"])
        for tag, d, c in (("outer", data, canon), ("nested", bytes(v["nested"]), b"\x01\x01" + canon)):
            try:
                again = bytes(Item.decode(d).encode())
            except Exception as exc:  # noqa: BLE001
                ctx.violation({"check": "item-decode-nonminimal", "fmt": v["item"]["f"], "nlb": v["nlb"], "variant": tag,
                               "error": type(exc).__name__, "bytes": d[:40].hex(),
                               "what": f"Item.decode of valid encoding {d[:16].hex()} ({v['nlb']} length bytes, {tag}) raised {exc!r}"})
                continue
            if again != c:
                ctx.violation({"check": "item-decode-nonminimal", "fmt": v["item"]["f"], "nlb": v["nlb"], "variant": tag, "bytes": d[:40].hex(),
                               "reencoded": again[:40].hex(), "what": f"Item.decode({d[:16].hex()}) re-encodes to {again[:16].hex()} not {c[:16].hex()}"})
    for v in ln:
        item, want = c01.len_item(v)
        try:
            got = bytes(e5bind.ibuild(item).encode())
            again = bytes(Item.decode(want).encode())
        except Exception as exc:  # noqa: BLE001
            ctx.violation({"check": "item-length-boundary", "fmt": v["f"], "n": v["n"], "error": type(exc).__name__,
                           "what": f"Item {v['f']} x {v['n']} raised {exc!r}"})
            continue
        if got != want or again != want:
            ctx.violation({"check": "item-length-boundary", "fmt": v["f"], "n": v["n"], "got": got[:8].hex(), "want": want[:8].hex(),
                           "what": f"Item {v['f']} x {v['n']}: header {got[:4].hex()} instead of {want[:4].hex()} (decode ok={again == want})"})
    # narrowest type for plain integers, and the other plain python values
    for v in nar:
        x = e5bind.num(v["x"])
        want_f, want_b = v["item"]["f"], bytes(v["bytes"])
        try:
            it = Item.from_value(x)
            got_f, got_b, val = it._sml_type, bytes(it.encode()), it.value
        except Exception as exc:  # noqa: BLE001
            ctx.violation({"check": "from-value", "value": x, "error": type(exc).__name__, "what": f"Item.from_value({x}) raised {exc!r}"})
            continue
        if got_f != want_f or got_b != want_b or val != x:
            ctx.violation({"check": "from-value", "value": x, "got": got_f, "want": want_f,
                           "what": f"Item.from_value({x}) -> {got_f} {got_b.hex()} (value {val}); narrowest type is {want_f} {want_b.hex()}"})
    plain = [(True, "BOOLEAN"), (False, "BOOLEAN"), ("text", "A"), ("", "A"), (b"\x00\xff", "B"), (b"", "B"), ([], "L"),
             ([1, "a", [True]], "L")]
    for val, want_f in plain:
        try:
            it = Item.from_value(val)
            okv = it.value == val or (want_f == "L" and it.to_list() == val if hasattr(it, "to_list") else False)
            if it._sml_type != want_f or not okv:
                ctx.violation({"check": "from-value", "value": repr(val), "got": it._sml_type, "want": want_f,
                               "what": f"Item.from_value({val!r}) -> {it._sml_type} holding {it.value!r}"})
        except Exception as exc:  # noqa: BLE001
            ctx.violation({"check": "from-value", "value": repr(val), "error": type(exc).__name__, "what": f"Item.from_value({val!r}) raised {exc!r}"})
    # values of different python types that compare (and hash) equal -- 1 / True / 1.0, 0 / False / 0.0 / -0.0 -- in every order:
    # the type and bytes chosen for one must not depend on which of the others was seen before (caches keyed by equality)
    import itertools
    import struct

    def expect(val):
        if isinstance(val, bool):
            return "BOOLEAN", b"\x25\x01" + bytes([1 if val else 0])
        return "U1", b"\xa5\x01" + bytes([val])

    nperm = 0
    for group in ([1, True, 1.0], [0, False, 0.0, -0.0]):
        for perm in itertools.permutations(group):
            nperm += 1
            for x in perm:
                try:
                    it = Item.from_value(x)
                    got = (it._sml_type, bytes(it.encode()))
                except Exception as exc:  # noqa: BLE001
                    ctx.violation({"check": "from-value-order", "order": repr(perm), "error": type(exc).__name__,
                                   "what": f"Item.from_value({x!r}) in the order {perm!r} raised {exc!r}"})
                    continue
                if not isinstance(x, float) and got != expect(x):     # the property does not prescribe the type chosen for a float
                    ctx.violation({"check": "from-value-order", "order": repr(perm), "value": repr(x), "got": [got[0], got[1].hex()],
                                   "want": [expect(x)[0], expect(x)[1].hex()],
                                   "what": f"Item.from_value({x!r}) in the order {perm!r} gives {got[0]} {got[1].hex()} instead of "
                                           f"{expect(x)[0]} {expect(x)[1].hex()}"})
            members = [x for x in perm if not isinstance(x, float)]
            try:
                got_l = bytes(Item.from_value(list(members)).encode())
                want_l = b"\x01" + bytes([len(members)]) + b"".join(expect(x)[1] for x in members)
                if got_l != want_l:
                    ctx.violation({"check": "from-value-order", "order": repr(perm), "value": repr(members), "got": got_l.hex(), "want": want_l.hex(),
                                   "what": f"Item.from_value({members!r}) after {perm!r} encodes to {got_l.hex()} instead of {want_l.hex()}"})
            except Exception as exc:  # noqa: BLE001
                ctx.violation({"check": "from-value-order", "order": repr(perm), "error": type(exc).__name__,
                               "what": f"Item.from_value({members!r}) after {perm!r} raised {exc!r}"})
    ctx.extra["equal_value_orders"] = nperm
    ctx.evaluations += len(vec) + 2 * len(nlb) + len(ln) + len(nar) + len(plain)
    ctx.nontrivial += len(vec) + len(nar)
    ctx.sample({"item": vec[7]["item"], "bytes": bytes(vec[7]["bytes"]).hex()})
    ctx.sample({"plain_int": e5bind.num(nar[3]["x"]), "narrowest": nar[3]["item"]["f"]})
    recs = c01.record_random(ctx, wd, lambda it: bytes(e5bind.ibuild(it).encode()), 1500 if ctx.quick else 20000, "itemapi")
    ctx.evaluations += len(recs)
    ctx.rule = ("same TLC-proved universe as C01/C02 against the Item API: encode, .value, decode/re-encode (canonical and non-minimal "
                "length bytes), constructor forms, length-byte boundaries, narrowest type of boundary integers (2^7, 2^8, 2^15, 2^16, "
                "2^31, 2^32, 2^63, 2^64 -1/+0/+1, both signs) + seeded random items judged by TLC")
    ctx.assumptions += ["cross-API agreement follows from both APIs equalling the reference bytes (C01 checks the variables API)"]
    ctx.states = len(vec) + len(ln) + len(nlb) + len(nar)
    ctx.transitions = ctx.states
    return ctx.finish()
