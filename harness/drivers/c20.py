"""C20 -- a secsgem host and equipment always reach communication and agree on data.

Leg M : TLC checks GemPair (abstract pair: HSMS select + S1F13/S1F14 exchange in both roles, link with arbitrary delay,
        T5 reconnect, disable/enable cycles): CommNeedsLink and the liveness property ReachCommunication under fairness.
Leg V : a real GemHostHandler and a real GemEquipmentHandler run in one simulation, connected through the real
        TcpClientConnection / TcpServerConnection on the simulated socket layer (virtual time, optional link latency, small
        receive buffers = segmentation), both role assignments, both enable orders, fifo / random / PCT thread schedules; a
        session of host service calls (status variables, constants, alarms, event subscription, online/offline, remote
        command), equipment-side triggers and disable/enable cycles is executed; TLC (PairJudge) validates the times to
        reach communication, every returned value against what the equipment holds, and the received collection events.
"""
from __future__ import annotations

import json
import random

from .. import simrt, simsock, tlc
from ..common import Ctx, Machinery, chunks, pmap, workdir

PID = "C20"
BOUND = 60      # virtual seconds: T5 (10) reconnect + T6 + establish communication, with slack


def canon(x):
    if hasattr(x, "get") and callable(x.get) and not isinstance(x, dict):
        x = x.get()
    try:
        return json.dumps(x, sort_keys=True, default=repr)
    except Exception:  # noqa: BLE001
        return repr(x)


def run_batch(job):
    import logging
    logging.disable(logging.CRITICAL)
    simsock.install()
    return [run_one(it) for it in job]


def run_one(it):
    import secsgem.common
    import secsgem.common.tcp_connection as tc
    import secsgem.gem
    import secsgem.hsms
    import secsgem.secs.variables as var

    rec = dict(it)
    rec.update({"bound": BOUND, "comm": [], "calls": [], "triggered": [], "received": []})

    def main(s):
        rng = random.Random(it["seed"])
        net = simsock.Net(capacity=it["cap"])
        if it["latency"]:
            net.latency = it["latency"]
        simsock.set_net(net)
        act, pas = secsgem.hsms.HsmsConnectMode.ACTIVE, secsgem.hsms.HsmsConnectMode.PASSIVE
        hs = secsgem.hsms.HsmsSettings(connect_mode=act if it["active"] == "H" else pas, port=5001,
                                        device_type=secsgem.common.DeviceType.HOST)
        es = secsgem.hsms.HsmsSettings(connect_mode=pas if it["active"] == "H" else act, port=5001,
                                        device_type=secsgem.common.DeviceType.EQUIPMENT)
        host = secsgem.gem.GemHostHandler(hs)
        eq = secsgem.gem.GemEquipmentHandler(es, initial_control_state="HOST_OFFLINE")
        eq.status_variables.update({10: secsgem.gem.StatusVariable(10, "sv", "u", var.U4, False)})
        eq.status_variables[10].value = 123
        eq.data_values.update({20: secsgem.gem.DataValue(20, "dv", var.U4, False)})
        eq.data_values[20].value = 77
        eq.equipment_constants.update({30: secsgem.gem.EquipmentConstant(30, "ec", 0, 500, 50, "u", var.U4, False),
                                       32: secsgem.gem.EquipmentConstant(32, "ec2", 0, 10, 5, "u", var.U4, False)})
        eq.alarms.update({40: secsgem.gem.Alarm(40, "al", "alarm text", 1, 140, 141)})
        eq.collection_events.update({100: secsgem.gem.CollectionEvent(100, "ce", [20]),
                                     101: secsgem.gem.CollectionEvent(101, "ce the host never subscribes", [20])})
        started = []
        eq.callbacks.rcmd_START = lambda **kw: started.append(1)
        host.events.collection_event_received += lambda d: rec["received"].append(
            canon([d["ceid"].get(), [v["value"] for v in d["values"]]]))

        def both_comm():
            return host.communication_state.current.name == "COMMUNICATING" and eq.communication_state.current.name == "COMMUNICATING"

        def wait_comm(phase):
            t0 = s.now
            ok, why = s.run_until(both_comm, max_dt=BOUND * 3)
            rec["comm"].append({"phase": phase, "ok": bool(ok), "dt": int(s.now - t0 + 0.999)})
            return ok

        first, second = (host, eq) if it["order"] == "host_first" else (eq, host)
        first.enable()
        s.advance(rng.choice([0.0, 0.3, 12.0]))
        second.enable()
        if not wait_comm("initial"):
            rec["blocked"] = [b["thread"] + ":" + "/".join(b["stack"][-2:]) for b in s.blocked_report()][:8]
            return
        results = {}

        def call(api, fn, want):
            done = {"v": False}

            def body():
                try:
                    results[api] = fn()
                except Exception as exc:  # noqa: BLE001
                    results[api] = f"EXC {type(exc).__name__}: {exc}"
                done["v"] = True

            th = simrt.Thread(target=body, name=f"hostapp_{api}")
            th.start()
            ok, why = s.run_until(lambda: done["v"], max_dt=200)
            got = results.get(api, "NO RETURN")
            rec["calls"].append({"api": api, "want": canon(want() if callable(want) else want), "got": canon(got if ok else "NO RETURN")})

        def call_pair(apis):
            """Several host service calls at the same time (separate application threads)."""
            dn = {}

            def body(api, fn):
                try:
                    results[api] = fn()
                except Exception as exc:  # noqa: BLE001
                    results[api] = f"EXC {type(exc).__name__}: {exc}"
                dn[api] = True

            for api, fn, _want in apis:
                simrt.Thread(target=body, args=(api, fn), name=f"hostapp_{api}").start()
            ok, why = s.run_until(lambda: len(dn) == len(apis), max_dt=200)
            for api, _fn, want in apis:
                got = results.get(api, "NO RETURN") if dn.get(api) else "NO RETURN"
                rec["calls"].append({"api": api, "want": canon(want() if callable(want) else want), "got": canon(got)})

        def align():
            """Equal transaction counters on both sides (each side numbers its own transactions; the values may coincide): the
            side that is behind issues S1F1 requests until both counters are equal.  Counters are only read here."""
            for _ in range(3):
                hc, ec = getattr(host.protocol, "_system_counter", None), getattr(eq.protocol, "_system_counter", None)
                if not isinstance(hc, int) or not isinstance(ec, int):
                    return False
                d = (hc - ec) % (1 << 32)
                if d == 0:
                    return True
                side, n = (eq, d) if d < 200 else (host, (1 << 32) - d)
                if n >= 200:
                    return False
                dn = {"v": False}

                def body(side=side, n=n, dn=dn):
                    for _ in range(n):
                        side.are_you_there()
                    dn["v"] = True

                simrt.Thread(target=body, name="hostapp_align").start()
                s.run_until(lambda: dn["v"], max_dt=200)
            return False

        def crossing(tag):
            """A host request and a collection event report of the equipment cross on the link (transactions open in both
            directions at the same time; with equal counter start values they carry the same system bytes)."""
            for k in range(2):
                if it.get("ctr") == "equal" and align():
                    rec["aligned"] = rec.get("aligned", 0) + 1
                eq.data_values[20].value = rng.randrange(1000)
                rec["triggered"].append(canon([100, [eq.data_values[20].value]]))
                dn = {}

                def a(k=k):
                    try:
                        results[tag + f"crossing_request_sv{k}"] = host.request_sv(10)
                    except Exception as exc:  # noqa: BLE001
                        results[tag + f"crossing_request_sv{k}"] = f"EXC {type(exc).__name__}: {exc}"
                    dn["a"] = True

                def b():
                    eq.trigger_collection_events([100])
                    dn["b"] = True

                ths = [simrt.Thread(target=a, name=f"hostapp_cross{k}"), simrt.Thread(target=b, name=f"eqapp_cross{k}")]
                for th in (ths if k == 0 else ths[::-1]):
                    th.start()
                s.run_until(lambda: len(dn) == 2 and len(rec["received"]) >= len(rec["triggered"]), max_dt=200)
                got = results.get(tag + f"crossing_request_sv{k}", "NO RETURN") if dn.get("a") else "NO RETURN"
                rec["calls"].append({"api": tag + f"crossing_request_sv{k}", "want": canon(eq.status_variables[10].value), "got": canon(got)})
                rec["calls"].append({"api": tag + f"crossing_trigger_returned{k}", "want": canon(True), "got": canon(bool(dn.get("b")))})

        def session(tag, last=False):
            call(tag + "clear_collection_events", lambda: (host.clear_collection_events(), "ok")[1], "ok")
            call(tag + "request_svs", lambda: host.request_svs([10]).get(), lambda: [eq.status_variables[10].value])
            call(tag + "request_sv", lambda: host.request_sv(10), lambda: eq.status_variables[10].value)
            call(tag + "list_svs", lambda: [[x["SVID"], x["SVNAME"], x["UNITS"]] for x in host.list_svs([10]).get()], [[10, "sv", "u"]])
            call(tag + "request_ecs", lambda: host.request_ecs([30]).get(), lambda: [eq.equipment_constants[30].value])
            newv = rng.choice([1, 250, 500])
            call(tag + "set_ec", lambda: host.set_ec(30, var.U4(newv)), 0)
            call(tag + "request_ec_after_set", lambda: host.request_ec(30).get(), [newv])
            call(tag + "set_ec_out_of_range", lambda: host.set_ec(30, var.U4(501)), 3)
            call(tag + "request_ec_unchanged", lambda: host.request_ec(30).get(), [newv])
            # one request naming two constants: accepted as a whole, or refused as a whole (the valid one listed first)
            call(tag + "set_ecs_both_valid", lambda: host.set_ecs([[30, var.U4(newv // 2 + 1)], [32, var.U4(7)]]), 0)
            call(tag + "request_ecs_after_both", lambda: host.request_ecs([30, 32]).get(), [newv // 2 + 1, 7])
            call(tag + "set_ecs_second_out_of_range", lambda: host.set_ecs([[30, var.U4(newv)], [32, var.U4(11)]]), 3)
            call(tag + "request_ecs_after_refusal", lambda: host.request_ecs([30, 32]).get(), [newv // 2 + 1, 7])
            call(tag + "equipment_holds_after_refusal", lambda: [eq.equipment_constants[30].value, eq.equipment_constants[32].value], [newv // 2 + 1, 7])
            call(tag + "set_ec_restore", lambda: host.set_ec(30, var.U4(newv)), 0)
            call(tag + "list_ecs", lambda: [[x["ECID"], x["ECNAME"], x["ECMIN"], x["ECMAX"], x["ECDEF"]] for x in host.list_ecs([30]).get()],
                 [[30, "ec", 0, 500, 50]])
            call_pair([(tag + "concurrent_request_svs", lambda: host.request_svs([10]).get(), lambda: [eq.status_variables[10].value]),
                       (tag + "concurrent_request_ecs", lambda: host.request_ecs([30]).get(), lambda: [eq.equipment_constants[30].value]),
                       (tag + "concurrent_list_svs", lambda: [[x["SVID"], x["SVNAME"], x["UNITS"]] for x in host.list_svs([10]).get()], [[10, "sv", "u"]])])
            call(tag + "enable_alarm", lambda: host.enable_alarm(40), 0)
            call(tag + "list_enabled_alarms", lambda: [x["ALID"] for x in host.list_enabled_alarms()], [40])
            call(tag + "list_alarms", lambda: [[x["ALID"], x["ALTX"]] for x in host.list_alarms([40])], [[40, "alarm text"]])
            # the alarm code byte carries the set bit (0x80) while the alarm is set
            call(tag + "alarm_code_clear", lambda: [x["ALCD"] for x in host.list_alarms([40])], [1])
            call(tag + "set_alarm", lambda: (eq.set_alarm(40), "ok")[1], "ok")
            call(tag + "alarm_code_set", lambda: [x["ALCD"] for x in host.list_alarms([40])], [129])
            call(tag + "enabled_alarm_code_set", lambda: [[x["ALID"], x["ALCD"]] for x in host.list_enabled_alarms()], [[40, 129]])
            call(tag + "clear_alarm", lambda: (eq.clear_alarm(40), "ok")[1], "ok")
            call(tag + "alarm_code_clear_again", lambda: [x["ALCD"] for x in host.list_alarms([40])], [1])
            call(tag + "go_online", lambda: host.go_online(), 0)
            call(tag + "control_state", lambda: eq.control_state.current.name, "ONLINE_REMOTE")
            call(tag + "go_online_again", lambda: host.go_online(), 2)
            call(tag + "subscribe", lambda: (host.subscribe_collection_event(100, [20], 1000 + len(rec["triggered"])), "ok")[1], "ok")
            for k in range(2):
                eq.data_values[20].value = rng.randrange(1000)
                rec["triggered"].append(canon([100, [eq.data_values[20].value]]))
                # second round: one trigger call names an event nobody subscribed to before the subscribed one
                eq.trigger_collection_events([100] if k == 0 else [101, 100])
                s.run_until(lambda: len(rec["received"]) >= len(rec["triggered"]), max_dt=100)
            crossing(tag)
            # a second report on the same event (status variable 10): from now on every trigger is announced once per linked report, each
            # notification carrying the values of that report only
            call(tag + "subscribe_second_report", lambda: (host.subscribe_collection_event(100, [10], 5000 + len(rec["triggered"])), "ok")[1], "ok")
            eq.data_values[20].value = rng.randrange(1000)
            rec["triggered"].append(canon([100, [eq.data_values[20].value]]))
            rec["triggered"].append(canon([100, [eq.status_variables[10].value]]))
            eq.trigger_collection_events([100])
            s.run_until(lambda: len(rec["received"]) >= len(rec["triggered"]), max_dt=100)
            call(tag + "remote_command", lambda: host.send_remote_command("START", []).HCACK.get(), 4)
            s.run_until(lambda: bool(started), max_dt=50)
            call(tag + "remote_command_executed", lambda: len(started) >= 1, True)
            if it.get("stay_online") and not last:
                return          # the link is cut / a side is disabled while the equipment is ON-LINE
            call(tag + "go_offline", lambda: host.go_offline(), 0)
            call(tag + "control_state_offline", lambda: eq.control_state.current.name, "HOST_OFFLINE")

        session("s1.", last=(it.get("cut") is None and not it["cycles"]))
        if it.get("cut") is not None:
            # the link drops in the middle of a message; both sides must notice, reconnect and communicate again
            net.cut_after = it["cut"]
            cdone = {"v": False}

            def lost_call(cdone=cdone):
                try:
                    host.are_you_there()
                except Exception:  # noqa: BLE001
                    pass
                cdone["v"] = True

            simrt.Thread(target=lost_call, name="hostapp_lost_call").start()
            s.run_until(lambda: not both_comm(), max_dt=60)
            if not wait_comm(f"after-cut@{it['cut']}"):
                rec["blocked"] = [b["thread"] + ":" + "/".join(b["stack"][-2:]) for b in s.blocked_report()][:8]
                return
            s.run_until(lambda: cdone["v"], max_dt=100)
            del started[:]
            eq.alarms[40].enabled = False
            session("s1b.", last=not it["cycles"])
        for cyc, who in enumerate(it["cycles"], start=1):
            side = host if who == "H" else eq
            dn = {"v": False}

            def dis(side=side, dn=dn):
                side.disable()
                dn["v"] = True

            th = simrt.Thread(target=dis, name=f"disable_{who}")
            th.start()
            ok, why = s.run_until(lambda: dn["v"], max_dt=100)
            if not ok:
                rec["comm"].append({"phase": f"disable{cyc}-did-not-return", "ok": False, "dt": 0})
                return
            s.advance(rng.choice([0.5, 3.0, 15.0]))
            side.enable()
            if not wait_comm(f"cycle{cyc}:{who}"):
                rec["blocked"] = [b["thread"] + ":" + "/".join(b["stack"][-2:]) for b in s.blocked_report()][:8]
                return
            if cyc == len(it["cycles"]):
                del started[:]
                # report subscriptions do not survive on the equipment only if it was the disabled side? they do: state is kept
                eq.alarms[40].enabled = False
                session(f"s{cyc + 1}.", last=True)
        for hnd in (host, eq):
            dn2 = {"v": False}

            def fin(hnd=hnd, dn2=dn2):
                hnd.disable()
                dn2["v"] = True

            t3 = simrt.Thread(target=fin, name="final_disable")
            t3.start()
            s.run_until(lambda: dn2["v"], max_dt=100)

    s = simrt.run(main, seed=it["seed"], policy=it["policy"], switch_prob=0.15, max_vtime=1e5, wall_timeout=600,
                  line_funcs=[tc.TcpConnection._start_receiver, tc.TcpConnection.disconnect, secsgem.common.Protocol.get_next_system_counter],
                  line_cost=1e-3, pct_depth=3, pct_horizon=3000, randint=(lambda a, b: 4711) if it.get("ctr") == "equal" else None,
                  line_lag=((secsgem.gem.GemHandler.enable, secsgem.gem.GemHandler.disable), 0.6, 0.05) if it.get("lag") == "enable" else None,
                  wake_lag={"select": (("secsgem_hsmsProtocol_sendSelectReqThread",), 1.0, 0.05),
                            "app": (("hostapp_", "secsgem_gemHandler", "secsgem_hsmsProtocol"), 0.3, 0.05)}.get(it.get("lag")))
    simsock.set_net(None)
    rec["outcome"] = s.outcome
    if s.errors:
        rec["errors"] = [e[:2] for e in s.errors[:3]]
    if s.outcome != "done":
        rec["wedge"] = s.wedge_info
    return rec


def run(ctx: Ctx):
    wd = workdir(PID)
    for a in ("H", "E"):
        r = tlc.run("GemPair", cfg_text=f"SPECIFICATION Spec\nCONSTANTS Active = \"{a}\"\n MaxCycles = {2 if ctx.quick else 3}\n"
                    "INVARIANT TypeOK\nINVARIANT CommNeedsLink\nPROPERTY ReachCommunication\n", workdir=wd, what=f"pair_{a}", timeout=900)
        tlc.require_ok(r, "GemPair")
        tlc.require_covered(r, ["Enable", "Disable", "Connect", "Deliver"])
        ctx.add_tlc(r, f"abstract pair, active side {a}: safety + ReachCommunication under fairness")
    rng = random.Random(ctx.seed + 20)
    items = []
    tid = 0
    for active in ("H", "E"):
        for order in ("host_first", "equipment_first"):
            for cap in (65536, 64):
                for cycles in ([], ["H"], ["E"], ["E", "H"]):
                    reps = 1 if ctx.quick else 4
                    for _ in range(reps):
                        tid += 1
                        items.append({"id": tid, "active": active, "order": order, "cap": cap, "cycles": cycles, "latency": 0,
                                      "cut": rng.choice([None, 3, 7, 11, 14, 20]) if cycles != ["E", "H"] else None,
                                      "seed": rng.randrange(1 << 30), "policy": rng.choice(["fifo", "random", "pct"]),
                                      "lag": [None, "select", "app", "enable"][tid % 4], "ctr": "equal" if tid % 3 == 0 else "random", "stay_online": tid % 2 == 1})
    recs = [r_ for batch in pmap(run_batch, chunks(items, 32)) for r_ in batch]
    for r_ in recs:
        if r_.get("errors") and "Machinery" in str(r_["errors"]):
            raise Machinery(str(r_["errors"]))
    f = wd / "pair_traces.json"
    f.write_text(json.dumps([{k: r_[k] for k in ("id", "bound", "comm", "calls", "triggered", "received")} for r_ in recs]))
    rj = tlc.run("PairJudge", cfg_text="", workdir=wd, workers=1, env={"TRACE_FILE": str(f)}, what="judge", coverage=False, timeout=1800)
    tlc.require_ok(rj, "PairJudge")
    verd = {v["id"]: v for v in rj.tagged("V")}
    if len(verd) != len(recs):
        raise Machinery(f"judge: {len(verd)} verdicts for {len(recs)}")
    ctx.traces += len(recs)
    ctx.evaluations += sum(len(r_["calls"]) + len(r_["comm"]) for r_ in recs)
    ctx.extra["sessions_with_equal_transaction_counters"] = len([r_ for r_ in recs if r_.get("aligned")])
    if not ctx.extra["sessions_with_equal_transaction_counters"]:
        ctx.assumptions.append("the transaction counters of the two endpoints could not be aligned (attribute not readable): crossing transactions with equal system bytes were not produced")
    ctx.nontrivial += len({(r_["active"], r_["order"], r_["cap"], tuple(r_["cycles"]), r_["policy"]) for r_ in recs if r_["calls"]})
    for r_ in recs:
        v = verd[r_["id"]]
        if r_["id"] in (1, 8):
            ctx.sample({k: r_[k] for k in ("active", "order", "cap", "cycles", "policy", "comm")} | {"calls": r_["calls"][:5],
                                                                                                 "triggered": r_["triggered"][:2], "received": r_["received"][:2]})
        base = {"check": "pair", "lag": r_.get("lag"), "ctr": r_.get("ctr"), "active": r_["active"], "order": r_["order"], "cap": r_["cap"], "cycles": r_["cycles"], "policy": r_["policy"], "cut": r_.get("cut"),
                "sched_seed": r_["seed"]}
        if r_["outcome"] != "done" or r_.get("errors"):
            ctx.violation(dict(base, clause="session-did-not-finish", outcome=r_["outcome"], errors=r_.get("errors"), wedge=r_.get("wedge"),
                               what=f"pair session (active {r_['active']}, {r_['order']}, cycles {r_['cycles']}) ended {r_['outcome']} {r_.get('errors')}"))
        elif v["clause"] != "ok":
            bad = r_["calls"][v["call"] - 1] if v["call"] else None
            ctx.violation(dict(base, clause=v["clause"], comm=r_["comm"], bad_call=bad, triggered=r_["triggered"], received=r_["received"],
                               blocked=r_.get("blocked"), api=bad["api"].split(".", 1)[-1] if bad else None,
                               what=f"pair (active {r_['active']}, {r_['order']}, cap {r_['cap']}, cycles {r_['cycles']}, {r_['policy']}): {v['clause']}"
                                    + (f": {bad}" if bad else f" comm={r_['comm']}")))
    # both endpoints hand every message over through the dispatcher loops: 30 (300) runs validated against DispatcherLoops (C04)
    from . import c04_trace
    c04_trace.check(ctx, wd, pmap, only_plain=True)
    ctx.rule = ("sessions = {host active, equipment active} x {host first, equipment first} x receive buffer {64 KiB, 64 B} x "
                "disable/enable cycles {none, host, equipment, both} x {equipment ON-LINE, OFF-LINE when the link is cut / a side is disabled} x thread schedule (fifo / random / PCT, optionally with wake-up latency "
                "of the select thread or of application / protocol helper threads, or the enabling thread descheduled between the "
                "statements of enable() / disable()); each session: 27 host calls (incl. two-constant S2F15 requests, accepted and refused) + 3 concurrent ones compared with the "
                "equipment's tables, 2 collection events (one triggered together with an event nobody subscribed to), remote command; non-trivial = distinct configurations that completed a session")
    ctx.assumptions += ["link latency is zero in these runs (segmentation by 64-byte socket buffers); schedule space sampled",
                        f"bound for reaching communication: {BOUND} virtual seconds"]
    return ctx.finish()
