"""C05 -- the HSMS session follows the E37 connect/select state model for every history.

Leg M : TLC checks the monitor E37Session (state-model invariants, action property) exhaustively.
Leg R : TLC dumps the complete labelled transition relation of the monitor; edge-covering histories are
        replayed on a real HsmsProtocol (FakeConnection, simrt) -- also with a message already in flight
        when the connection is accepted, under random thread schedules.
Leg T : spec/HsmsEndpoint.tla models the conn thread, receive path, dispatcher and select thread one action per shared-state
        access (exhaustive TLC check, two ordering defects kept as witnesses); executions of the real code are recorded as
        event traces (sys.settrace, no hooks) and validated by TLC against it (HsmsEndpointTrace) -- see c05_trace.py.
Leg V : the recorded executions (inputs + observed frames/events/deliveries/state) are judged by TLC
        (E37Judge folds the monitor over every trace; first failing clause is named).
"""
from __future__ import annotations

import json
import random

from .. import graph, hsmsrun, simrt, tlc
from ..common import Ctx, Machinery, pmap, workdir

PID = "C05"
T6 = 5.0


def run_trace(job):
    """job: (id, mode, inputs, seed, policy, merge_inflight). Returns trace record."""
    tid, mode, inputs, seed, policy, merge = job[:6]
    residue = job[6] if len(job) > 6 else False
    hsmsrun.quiet_logging()
    simrt.install()
    rec = {"id": tid, "mode": mode, "steps": [], "seed": seed, "policy": policy, "merge": merge, "residue": residue}

    def main(s):
        from .. import link as lk
        ep = hsmsrun.Ep(mode=mode, kind="protocol")
        rng_r = random.Random(seed ^ 0x4E5)
        i = 0
        while i < len(inputs):
            inp = inputs[i]
            if residue and inp["k"] in ("PeerClose", "Disable") and ep.cs != "NC":
                # the connection ends while only the first bytes of a message have arrived: they are not a message and
                # belong to this connection only
                whole = lk.hsms_frame(stype=0, system=ep.fresh_sys(), session=0, stream=1, function=13, wbit=True,
                                      body=b"\x01\x02\x41\x04mdln\x41\x03rev")
                cut = rng_r.choice([1, 3, 4, 6, 13, 14, len(whole) - 1])
                ep.link.feed(whole[:cut])
                s.settle()
                ep.link.take_frames()
                rec.setdefault("residues", []).append(cut)
            if merge and inp["k"] == "Connect" and i + 1 < len(inputs) and inputs[i + 1]["k"] in ("Ctrl", "Data") \
                    and inputs[i + 1].get("sys") != "open":
                # message already in flight when the connection is accepted: both inputs happen "at once";
                # the connection-accepting thread races with the receive path under the chooser
                nxt = inputs[i + 1]
                o1 = exec_inflight(s, ep, inp, nxt)
                rec["steps"].extend(o1)
                i += 2
                continue
            obs = hsmsrun.e37_step(s, ep, inp, T6)
            rec["steps"].append({"inp": inp, "obs": obs})
            i += 1
        rec["handler_errors"] = ep.link.handler_errors[:5]

    s = simrt.run(main, seed=seed, policy=policy, switch_prob=0.4, max_vtime=1e7, pct_depth=2, pct_horizon=60)
    rec["outcome"] = s.outcome
    if s.outcome != "done":
        rec["wedge"] = s.wedge_info
    if s.errors:
        rec["errors"] = [e[:2] for e in s.errors[:3]]
    return rec


def run_closing(job):
    """disable() while a Select.req and a data message behind it are still in the receive path."""
    cid, seed, policy, gap = job
    hsmsrun.quiet_logging()
    simrt.install()
    from .. import link as lk
    rec = {"id": cid, "seed": seed, "policy": policy, "gap": gap, "sel": "none", "comm": False, "data": "none", "final": "?"}

    def main(s):
        ep = hsmsrun.Ep(mode="passive", kind="protocol")
        ep.protocol.enable()
        ep.link.connect()
        s.settle()
        ev0 = len(ep.events)
        ep.link.feed(lk.hsms_frame(stype=1, system=0x7001) + lk.hsms_frame(stype=0, system=0x7002, session=0, stream=1, function=1, wbit=True))
        for _ in range(gap):
            s.yield_point()
        fin = {"v": False}

        def dis():
            ep.protocol.disable()
            fin["v"] = True

        simrt.Thread(target=dis, name="app_disable").start()
        ok, why = s.run_until(lambda: fin["v"], max_dt=30)
        if not ok:
            rec["final"] = "disable-did-not-return"
            return
        s.settle()
        answers = [f for f in ep.link.take_frames() if f.get("system") == 0x7001]
        kinds = {"rsp" if f["stype"] == 2 else "reject" if f["stype"] == 7 else "other" for f in answers}
        rec["sel"] = "both" if len(answers) > 1 else (kinds.pop() if kinds else "none")
        rec["comm"] = "communicating" in ep.events[ev0:]
        rec["data"] = "delivered" if any(d["system"] == 0x7002 for d in ep.delivered) else "none"
        rec["final"] = ep.cs

    s = simrt.run(main, seed=seed, policy=policy, switch_prob=0.4, max_vtime=1e6, pct_depth=3, pct_horizon=200)
    rec["outcome"] = s.outcome
    if s.errors:
        rec["errors"] = [e[:2] for e in s.errors[:2]]
    return rec


def exec_inflight(s, ep, inp_connect, nxt):
    """Connect with `nxt` already buffered. Observation is split so that the monitor can fold it:
    step 1 (Connect) gets the events/frames the monitor attributes to Connect, step 2 the rest."""
    from .. import link as lk

    ev0, d0 = len(ep.events), len(ep.delivered)
    if nxt["k"] == "Ctrl":
        st = hsmsrun.STNUM[nxt["st"]]
        sysid = ep.fresh_sys()   # "open" cannot be known before the connection exists -> only "new" merged
        frame = lk.hsms_frame(stype=st, system=sysid, b3=nxt.get("status", 0))
    else:
        sfn, fn, body = hsmsrun.DATA_KINDS[nxt["sf"]]
        sysid = ep.fresh_sys()
        frame = lk.hsms_frame(stype=0, system=sysid, session=0, stream=sfn, function=fn, wbit=nxt["w"], body=body)
    ep.seen_in.add(sysid)
    ep.link.connect(inflight=frame)
    s.settle()
    frames = ep.classify(ep.link.take_frames(), sysid)
    evs = [e for e in ep.events[ev0:] if e in ("connected", "communicating", "disconnected")]
    dl = ep.delivered[d0:]
    # attribute: "connected" event and fresh Select.req belong to Connect; everything else to the message
    f1 = [f for f in frames if f["st"] == "Select.req" and f["sys"] == "fresh"]
    f2 = [f for f in frames if f not in f1]
    e1 = [e for e in evs if e == "connected"]
    e2 = [e for e in evs if e != "connected"]
    o1 = {"frames": f1, "ev": e1, "dlv": 0, "dlv_other": 0, "rep": 0, "cs": "NS", "merged": True}
    o2 = {"frames": f2, "ev": e2, "rep": 0, "dlv": len([d for d in dl if d["system"] == sysid]),
          "dlv_other": len([d for d in dl if d["system"] != sysid]), "cs": ep.cs, "merged": True}
    return [{"inp": inp_connect, "obs": o1}, {"inp": nxt, "obs": o2}]


def judge(wd, traces, label):
    f = wd / f"traces_{label}.json"
    slim = [{"id": t["id"], "mode": t["mode"],
             "steps": [{"inp": st["inp"], "obs": {k: st["obs"][k] for k in ("frames", "ev", "dlv", "rep", "cs")}}
                       for st in t["steps"]]} for t in traces]
    for t in slim:
        for st in t["steps"]:
            st["obs"]["frames"] = [{"st": fr["st"], "sys": fr["sys"], "reason": fr["reason"]} for fr in st["obs"]["frames"]]
    f.write_text(json.dumps(slim))
    res = tlc.run("E37Judge", cfg_text="", workdir=wd, workers=1, env={"TRACE_FILE": str(f)}, what=f"judge_{label}",
                  coverage=False, timeout=1800)
    tlc.require_ok(res, "E37Judge")
    v = {x["id"]: x for x in res.tagged("V")}
    if len(v) != len(traces):
        raise Machinery(f"E37Judge returned {len(v)} verdicts for {len(traces)} traces")
    return v


def signature(trace, v):
    st = trace["steps"][v["at"] - 1]
    inp = st["inp"]
    sig = {"check": "e37", "clause": v["clause"], "input": inp["k"], "mode": trace["mode"]}
    if inp["k"] == "Ctrl":
        sig["stype"] = inp["st"]
        sig["sys"] = inp["sys"]
    if inp["k"] == "Data":
        sig["sf"] = inp["sf"]
    prev = trace["steps"][v["at"] - 2]["obs"]["cs"] if v["at"] > 1 else "NC"
    sig["state_before"] = prev
    sig["inflight"] = bool(st["obs"].get("merged"))
    return sig


def run(ctx: Ctx):
    wd = workdir(PID)
    # ---- Leg M + generation
    cfg = ("SPECIFICATION Spec\nVIEW View\nACTION_CONSTRAINT Dump\nINVARIANT TypeOK\nINVARIANT NotConnectedWhenDisabled\n"
           "INVARIANT OpenOnlyWhenConnected\nINVARIANT NeverDeliverUnlessSelected\nINVARIANT DataInNotSelectedRejected\n"
           "INVARIANT EveryRequestAnsweredOnce\nPROPERTY SelectedOnlyBySelect\n")
    res = tlc.run("E37Session", cfg_text=cfg, workdir=wd, workers=1, what="gen", coverage=True, timeout=600)
    tlc.require_ok(res, "E37Session")
    ctx.add_tlc(res, "E37 monitor: all histories, invariants + SelectedOnlyBySelect")
    edges = res.tagged("TR")
    inits = [{"mode": m, "enabled": False, "cs": "NC", "openSel": False, "openData": False} for m in ("active", "passive")]
    g = graph.Graph(edges, inits)
    if len(g.inits) != 2 or len(edges) < 100:
        raise Machinery(f"unexpected monitor graph: {len(g.inits)} inits, {len(edges)} edges")
    rng = random.Random(ctx.seed + 5)
    paths = g.edge_cover()
    walks = g.random_walks(60 if ctx.quick else 600, 30, rng)
    jobs = []
    tid = 0

    def add(path, seed, policy, merge, residue=False):
        nonlocal tid
        tid += 1
        jobs.append((tid, path[0]["from"]["mode"], [e["inp"] for e in path], seed, policy, merge, residue))

    for p in paths:
        add(p, 0, "fifo", False)
    for p in walks:
        add(p, rng.randrange(1 << 30), "random", False)
    # in-flight at accept: every (Connect, message) pair, several schedules each
    nsched = 12 if ctx.quick else 60
    inflight_paths = [p for p in paths if len(p) >= 2 and p[-2]["inp"]["k"] == "Connect" and p[-1]["inp"]["k"] in ("Ctrl", "Data")
                      and p[-1]["inp"].get("sys") != "open"]
    for p in inflight_paths:
        for _ in range(nsched):
            add(p, rng.randrange(1 << 30), "pct", True)
            add(p, rng.randrange(1 << 30), "random", True)
    for p in walks[: (20 if ctx.quick else 200)]:
        add(p, rng.randrange(1 << 30), "random", True)

    # a connection that ends in the middle of an inbound message, then the history goes on (reconnect, select, data)
    closers = [p for p in paths + walks if any(e["inp"]["k"] in ("PeerClose", "Disable") for e in p[:-1])]
    for p in closers[: (150 if ctx.quick else 1500)]:
        add(p, rng.randrange(1 << 30), "fifo" if tid % 2 else "random", False, True)

    traces = pmap(run_trace, jobs)
    bad_runs = [t for t in traces if t["outcome"] != "done"]
    for t in bad_runs[:3]:
        ctx.violation({"check": "e37", "clause": "wedged", "what": f"execution did not finish: {t['outcome']}",
                       "trace": t})
    traces = [t for t in traces if t["outcome"] == "done"]
    verd = judge(wd, traces, "all")
    ctx.traces += len(traces)
    ctx.evaluations += sum(len(t["steps"]) for t in traces)
    ctx.nontrivial += len({json.dumps([s["inp"] for s in t["steps"]]) for t in traces})
    for t in traces:
        v = verd[t["id"]]
        if t["id"] <= 3:
            ctx.sample({"mode": t["mode"], "steps": t["steps"][:6]})
        if v["ok"]:
            if any(s["obs"].get("dlv_other") for s in t["steps"]):
                ctx.violation({"check": "e37", "clause": "delivery-of-other", "what": "a message was delivered twice or late",
                               "trace": t})
            continue
        sig = signature(t, v)
        st = t["steps"][v["at"] - 1]
        rec = dict(sig)
        rec.update({"at": v["at"], "expected": v["exp"], "expected_cs": v["cs"], "observed": st["obs"],
                    "inputs": [s["inp"] for s in t["steps"][: v["at"]]], "sched_seed": t["seed"], "policy": t["policy"],
                    "merge": t["merge"], "mode": t["mode"], "residue_cuts": t.get("residues"),
                    "what": f"E37 monitor clause '{v['clause']}' fails at step {v['at']} ({json.dumps(st['inp'])}) "
                            f"in state {sig['state_before']} ({t['mode']})"})
        ctx.violation(rec)
    # ---- the closing window (disable() racing a Select.req + data message), judged by E37Closing
    cjobs = []
    for i in range(1, (120 if ctx.quick else 1200) + 1):
        cjobs.append((i, rng.randrange(1 << 30), ["random", "pct", "fifo", "random"][i % 4], rng.choice([0, 0, 1, 2, 3, 5, 8, 13, 21, 34, 55])))
    crecs = pmap(run_closing, cjobs)
    for r_ in crecs:
        if r_["outcome"] != "done" or r_.get("errors"):
            ctx.violation({"check": "closing-window", "clause": "run-did-not-finish", "what": f"closing-window run ended {r_['outcome']} {r_.get('errors')}",
                           "sched": [r_["seed"], r_["policy"], r_["gap"]]})
    crecs = [r_ for r_ in crecs if r_["outcome"] == "done" and not r_.get("errors")]
    fc = wd / "closing.json"
    fc.write_text(json.dumps([{k: r_[k] for k in ("id", "sel", "comm", "data", "final")} for r_ in crecs]))
    rc_ = tlc.run("E37Closing", cfg_text="", workdir=wd, workers=1, env={"TRACE_FILE": str(fc)}, what="closing", coverage=False, timeout=900)
    tlc.require_ok(rc_, "E37Closing")
    cv = {v["id"]: v["clause"] for v in rc_.tagged("V")}
    if len(cv) != len(crecs):
        raise Machinery(f"E37Closing: {len(cv)} verdicts for {len(crecs)} runs")
    for r_ in crecs:
        if cv[r_["id"]] != "ok":
            ctx.violation({"check": "closing-window", "clause": cv[r_["id"]], "observed": {k: r_[k] for k in ("sel", "comm", "data", "final")},
                           "sched": [r_["seed"], r_["policy"], r_["gap"]],
                           "what": f"disable() racing a Select.req + data message ({r_['policy']}, gap {r_['gap']}): {cv[r_['id']]}; "
                                   f"answer {r_['sel']}, communicating reported {r_['comm']}, data {r_['data']}, final {r_['final']}"})
    ctx.traces += len(crecs)
    ctx.extra["closing_window_runs"] = {k: sum(1 for r_ in crecs if r_["sel"] == k) for k in ("rsp", "reject", "none", "both")}
    # ---- Leg T: thread-level model HsmsEndpoint + trace validation of recorded executions
    from . import c05_trace
    c05_trace.check(ctx, wd, pmap)
    ctx.rule = ("histories = one shortest path per edge of the E37 monitor's transition relation + random walks of 30 inputs "
                "+ every (Connect, message) pair with the message already in flight under random schedules + histories in which a "
                "connection ends after only the first bytes of a message arrived; each step's "
                "frames/events/deliveries/state recorded from the real HsmsProtocol and judged by TLC; distinct = distinct "
                "input sequences.  Leg T: executions of connection establishment + select (passive / active, peer accepting / refusing / "
                "silent, messages in flight at accept, simultaneous select) recorded as one event per shared-state access and validated "
                "by TLC as behaviours of the thread-level specification HsmsEndpoint")
    ctx.extra["monitor_edges"] = len(edges)
    ctx.extra["inflight_runs"] = len([j for j in jobs if j[5]])
    ctx.extra["partial_message_at_close_runs"] = len([t for t in traces if t.get("residues")])
    ctx.assumptions += ["FakeConnection mirrors TcpConnection's thread structure (accept thread, receiver thread)",
                        "T7/T8 are not modelled (absent from code and from the property's alphabet)",
                        "linktest timer silenced in these histories (checked by the linktest scenario)"]
    return ctx.finish()
