"""Independent SEMI E5 (SECS-II) item codec for the harness (written from the standard, not from secsgem).

Items are tuples (fmt, value):  ("L", [items]), ("B", bytes), ("BOOLEAN", [bool..]), ("A", bytes), ("J", bytes),
("U1".."U8"/"I1".."I8"/"F4"/"F8", [numbers]).
"""
from __future__ import annotations

import struct

CODES = {0o00: "L", 0o10: "B", 0o11: "BOOLEAN", 0o20: "A", 0o21: "J", 0o30: "I8", 0o31: "I1", 0o32: "I2", 0o34: "I4",
         0o40: "F8", 0o44: "F4", 0o50: "U8", 0o51: "U1", 0o52: "U2", 0o54: "U4"}
FMT = {v: k for k, v in CODES.items()}
NUM = {"I8": (">q", 8), "I1": (">b", 1), "I2": (">h", 2), "I4": (">i", 4), "F8": (">d", 8), "F4": (">f", 4),
       "U8": (">Q", 8), "U1": (">B", 1), "U2": (">H", 2), "U4": (">I", 4)}


class E5Error(ValueError):
    pass


def header(fmt, n, nlb=None):
    if nlb is None:
        nlb = 1 if n <= 0xFF else (2 if n <= 0xFFFF else 3)
    if n >= 1 << (8 * nlb):
        raise E5Error("length does not fit")
    return bytes([(FMT[fmt] << 2) | nlb]) + n.to_bytes(nlb, "big")


def encode(item, nlb=None):
    fmt, val = item
    if fmt == "L":
        return header("L", len(val), nlb) + b"".join(encode(x) for x in val)
    if fmt in ("B", "A", "J"):
        return header(fmt, len(val), nlb) + bytes(val)
    if fmt == "BOOLEAN":
        return header(fmt, len(val), nlb) + bytes(1 if b else 0 for b in val)
    code, size = NUM[fmt]
    return header(fmt, size * len(val), nlb) + b"".join(struct.pack(code, v) for v in val)


def decode(data: bytes, pos=0):
    """Returns (item, next_pos). Raises E5Error on malformed input."""
    if pos >= len(data):
        raise E5Error("no data")
    fb = data[pos]
    nlb = fb & 3
    code = fb >> 2
    if nlb == 0 or code not in CODES:
        raise E5Error(f"bad format byte {fb:02x}")
    if pos + 1 + nlb > len(data):
        raise E5Error("truncated length")
    n = int.from_bytes(data[pos + 1:pos + 1 + nlb], "big")
    p = pos + 1 + nlb
    fmt = CODES[code]
    if fmt == "L":
        items = []
        for _ in range(n):
            it, p = decode(data, p)
            items.append(it)
        return ("L", items), p
    if p + n > len(data):
        raise E5Error("truncated payload")
    raw = data[p:p + n]
    p += n
    if fmt in ("B", "A", "J"):
        return (fmt, bytes(raw)), p
    if fmt == "BOOLEAN":
        return (fmt, [b != 0 for b in raw]), p
    codec, size = NUM[fmt]
    if n % size:
        raise E5Error("payload not a multiple of the element size")
    return (fmt, [struct.unpack(codec, raw[i:i + size])[0] for i in range(0, n, size)]), p


def decode_all(data: bytes):
    if not data:
        return None
    it, p = decode(data, 0)
    if p != len(data):
        raise E5Error("trailing bytes")
    return it


def plain(item):
    """Item -> plain python (lists, ints, str, bytes); single-element numeric arrays become scalars."""
    if item is None:
        return None
    fmt, val = item
    if fmt == "L":
        return [plain(x) for x in val]
    if fmt in ("A", "J"):
        return val.decode("latin-1")
    if fmt == "B":
        return val[0] if len(val) == 1 else list(val)
    if len(val) == 1:
        return val[0]
    return list(val)


# builders
def L(*items):
    return ("L", list(items))


def U4(*v):
    return ("U4", list(v))


def U1(*v):
    return ("U1", list(v))


def A(s):
    return ("A", s.encode("latin-1") if isinstance(s, str) else bytes(s))


def B(*v):
    return ("B", bytes(v))


def BOOL(*v):
    return ("BOOLEAN", list(v))
