"""State-machine definitions for C18: random generation, introspection of the shipped machines,
TLA+ emission, and construction of the *real* engine objects with recording handlers."""
from __future__ import annotations

import enum
import random

import secsgem.common
from secsgem.common.state_machine import State, StateMachine, Transition


# ----------------------------------------------------------------------------- TLA emission
def _q(s):
    return '"' + s + '"'


def _fun(d, val):
    if not d:
        return "<<>>"
    return "(" + " @@ ".join(f"{_q(k)} :> {val(v)}" for k, v in d.items()) + ")"


def _set(xs):
    return "{" + ", ".join(_q(x) for x in sorted(xs)) + "}"


def _seq(xs):
    return "<<" + ", ".join(_q(x) for x in xs) + ">>"


def machine_tla(M):
    return ("[states |-> " + _set(M["states"]) + ", parent |-> " + _fun(M["parent"], _q) + ", init |-> " + _q(M["init"])
            + ", trans |-> " + _fun(M["trans"], lambda t: "[src |-> " + _set(t["src"]) + ", dst |-> " + _q(t["dst"]) + "]")
            + ", handler |-> " + _fun(M["handler"], _seq) + "]")


def write_machines_module(path, machines):
    body = ",\n  ".join(machine_tla(M) for M in machines)
    path.write_text("---- MODULE SmMachines ----\nEXTENDS TLC\nMachines == <<\n  " + body + "\n>>\n====\n")


# ----------------------------------------------------------------------------- random machines
def anc(M, s):
    out = [s]
    while M["parent"][s] != "-":
        s = M["parent"][s]
        out.append(s)
    return out


def random_machine(rng: random.Random, idx: int):
    n = rng.randint(3, 6)
    names = [f"S{i}" for i in range(n)]
    parent = {}
    depth = {}
    for i, s in enumerate(names):
        cands = [p for p in names[:i] if depth[p] < 2]
        if cands and rng.random() < 0.55:
            p = rng.choice(cands)
            parent[s] = p
            depth[s] = depth[p] + 1
        else:
            parent[s] = "-"
            depth[s] = 0
    M = {"name": f"gen{idx}", "states": names, "parent": parent, "init": None, "trans": {}, "handler": {}}
    has_child = {p for p in parent.values() if p != "-"}
    leaves = [s for s in names if s not in has_child]
    M["init"] = rng.choice(leaves)

    def related(a, b):
        return a != b and (a in anc(M, b) or b in anc(M, a))

    nt = rng.randint(3, 7)
    for k in range(nt):
        # destinations are mostly leaves; occasionally an inner state
        dst = rng.choice(leaves) if rng.random() < 0.8 else rng.choice(names)
        # mostly unrelated source/destination; sometimes a transition to an ancestor / descendant
        allow_related = rng.random() < 0.25
        pool = [s for s in (leaves if rng.random() < 0.8 else names) if allow_related or not related(s, dst)]
        if not pool:
            continue
        src = set(rng.sample(pool, rng.randint(1, min(3, len(pool)))))
        if rng.random() < 0.15:
            src.add(dst)  # self transition
        M["trans"][f"t{k}"] = {"src": sorted(src), "dst": dst}
    if not M["trans"]:
        return random_machine(rng, idx)
    # make sure init can move
    if not any(M["init"] in t["src"] for t in M["trans"].values()):
        k = rng.choice(list(M["trans"]))
        if not related(M["init"], M["trans"][k]["dst"]):
            M["trans"][k]["src"] = sorted(set(M["trans"][k]["src"]) | {M["init"]})
    # handlers with nested requests, levelled so that nesting terminates
    M["handler"] = {s: [] for s in names}
    tnames = list(M["trans"])
    hstates = rng.sample(names, rng.randint(0, min(2, n)))
    level = {s: i + 1 for i, s in enumerate(hstates)}

    def chain_levels(t):
        return [level[x] for x in anc(M, M["trans"][t]["dst"]) if x in level]

    for s in hstates:
        ok = [t for t in tnames if all(l > level[s] for l in chain_levels(t))]
        reqs = []
        for _ in range(rng.randint(1, 2)):
            r = rng.random()
            if r < 0.1:
                reqs.append("UNKNOWN")
            elif ok:
                reqs.append(rng.choice(ok))
        M["handler"][s] = reqs
    return M


# ----------------------------------------------------------------------------- real engine from a record
class GenMachine(StateMachine):
    """The real secsgem engine instantiated from a machine record."""

    def __init__(self, M, log):
        super().__init__()
        E = enum.Enum("E", {s: i for i, s in enumerate(M["states"])})
        self.st = {}
        # parents first
        order = sorted(M["states"], key=lambda s: len(anc(M, s)))
        for s in order:
            p = M["parent"][s]
            self.st[s] = State(E[s], s, parent=self.st[p] if p != "-" else None, initial=(s in anc(M, M["init"])))
        self._current_state = self.st[M["init"]]
        self._transitions = [Transition(t, [self.st[x] for x in d["src"]], self.st[d["dst"]])
                             for t, d in M["trans"].items()]
        attach_recorders(self, self.st, log)
        for s, reqs in M["handler"].items():
            if reqs:
                self.st[s].events.enter.register(self._mk_nested(reqs, log))
        # a second observer of every event, registered AFTER the handlers that request nested transitions: each performed transition
        # fires its events exactly once for every observer, also when the same event fires again while it is being dispatched
        self.late_log = []
        attach_recorders(self, self.st, self.late_log)

    def _mk_nested(self, reqs, log):
        def handler(_data):
            for r in reqs:
                try:
                    self._perform_transition(r)
                except (secsgem.common.state_machine.UnknownTransitionError,
                        secsgem.common.state_machine.WrongSourceStateError) as exc:
                    log.append(["nested_err", r, type(exc).__name__])
        return handler

    def request(self, t):
        self._perform_transition(t)


def attach_recorders(machine, states: dict, log):
    for name, st in states.items():
        st.events.enter.register(lambda _d, n=name: log.append(["enter", n]))
        st.events.leave.register(lambda _d, n=name: log.append(["leave", n]))
    for tr in machine._transitions:
        tr.events.called.register(lambda _d, n=tr.name: log.append(["called", n]))


# ----------------------------------------------------------------------------- shipped machines
def shipped_factories():
    """name -> factory() returning (machine object, {state name: State})."""
    import secsgem.gem.communication_state_machine as csm
    import secsgem.gem.control_state_machine as ctl
    import secsgem.hsms
    import secsgem.hsms.connection_state_machine as hcm

    facs = {}
    facs["hsms_connection"] = lambda: hcm.ConnectionStateMachine()
    facs["gem_communication"] = lambda: csm.CommunicationStateMachine(secsgem.hsms.HsmsSettings())
    for ini in ["EQUIPMENT_OFFLINE", "ATTEMPT_ONLINE", "HOST_OFFLINE", "ONLINE"]:
        for onl in ["LOCAL", "REMOTE"]:
            facs[f"gem_control_{ini}_{onl}"] = (lambda i=ini, o=onl: ctl.ControlStateMachine(i, o))
    return facs


def states_of(machine):
    return {v.name: v for v in vars(machine).values() if isinstance(v, State)}


def introspect(name, factory):
    """Machine record of a shipped machine, read off the live object (tables are not copied by hand)."""
    mach = factory()
    sts = states_of(mach)
    M = {"name": name, "states": sorted(sts), "parent": {}, "init": mach.current_state.name, "trans": {},
         "handler": {}}
    for n, s in sts.items():
        M["parent"][n] = s.parent.name if s.parent is not None else "-"
    for tr in mach._transitions:
        if tr.name in M["trans"]:
            continue  # transition() returns the first match
        M["trans"][tr.name] = {"src": sorted(x.name for x in tr.sources), "dst": tr.destination.name}
    # nested requests issued by enter handlers: fire each enter event against a probe
    for n, s in sts.items():
        probe = factory()
        psts = states_of(probe)
        seen = []
        probe._perform_transition = lambda t, seen=seen: seen.append(t)
        try:
            psts[n].events.fire("enter", {})
        except Exception:  # noqa: BLE001
            pass
        M["handler"][n] = list(seen)
    return M


def make_real(M, factories, log):
    """Real engine object for machine record M with recording handlers."""
    if M["name"] in factories:
        mach = factories[M["name"]]()
        attach_recorders(mach, states_of(mach), log)
        mach.request = mach._perform_transition
        return mach, states_of(mach)
    g = GenMachine(M, log)
    return g, g.st


def observe(mach, sts):
    return {"cur": mach.current_state.name, "active": sorted(n for n, s in sts.items() if s.active)}
