"""Shared plumbing: work dirs, evidence, violations, known findings, verdicts."""
from __future__ import annotations

import json
import os
import shutil
import sys
import time
from pathlib import Path

VERIF = Path(__file__).resolve().parent.parent
REPO = Path(os.environ.get("VERIF_REPO", "/repo"))
SPEC = VERIF / "spec"
WORK = Path(os.environ.get("VERIF_WORK", VERIF / ".work"))        # scratch; overridable so that sweeps can run side by side
EVID = Path(os.environ.get("VERIF_EVID", VERIF / "evidence"))
REPLAYS = EVID / "replays"
KNOWN = VERIF / "known_findings.json"

EXIT_OK, EXIT_VIOLATION, EXIT_MACHINERY = 0, 1, 2


class Machinery(Exception):
    """The verification machinery itself failed (exit 2; neither pass nor violation)."""


def workdir(pid: str, name: str = "") -> Path:
    d = WORK / pid / name if name else WORK / pid
    if d.exists():
        shutil.rmtree(d, ignore_errors=True)
    d.mkdir(parents=True, exist_ok=True)
    return d


def _match_value(pat, val):
    if isinstance(pat, dict):
        if "in" in pat:
            return val in pat["in"]
        if "prefix" in pat:
            return isinstance(val, str) and val.startswith(pat["prefix"])
        if "contains" in pat:
            return isinstance(val, (str, list)) and pat["contains"] in val
        if "ge" in pat:
            return val is not None and val >= pat["ge"]
        return False
    return pat == val


class Ctx:
    """One check run of one property."""

    def __init__(self, pid: str, tier: str, seed: int, level="model_checking"):
        self.pid = pid
        self.tier = tier
        self.seed = seed
        self.level = level
        self.t0 = time.time()
        self.states = 0
        self.transitions = 0
        self.traces = 0
        self.evaluations = 0
        self.nontrivial = 0
        self.samples: list = []
        self.tlc_runs: list = []
        self.extra: dict = {}
        self.assumptions: list[str] = []
        self.violations: list[dict] = []
        self.known_hits: dict[str, dict] = {}
        self.rule = ""
        self.exhaustive = None
        self._vcount = 0
        self.known = self._load_known()
        REPLAYS.mkdir(parents=True, exist_ok=True)
        for old in REPLAYS.glob(f"{pid}-*.json"):
            old.unlink()

    @property
    def quick(self):
        return self.tier == "quick"

    # ------------------------------------------------------------- known findings
    def _load_known(self):
        if not KNOWN.exists():
            return []
        data = json.loads(KNOWN.read_text())
        return [e for e in data.get("findings", []) if e.get("property") == self.pid and e.get("status") == "known"]

    def classify(self, record: dict):
        for e in self.known:
            pat = e.get("match", {})
            if pat and all(k in record and _match_value(v, record[k]) for k, v in pat.items()):
                return e
        return None

    # ------------------------------------------------------------- reporting
    def violation(self, record: dict):
        """Report a violation record: {'check':..., 'what':..., ...}; suppressed only if a known
        finding's structured signature matches."""
        record = dict(record)
        record.setdefault("property", self.pid)
        e = self.classify(record)
        if e is not None:
            hit = self.known_hits.setdefault(e["id"], {"entry": e, "count": 0, "example": record})
            hit["count"] += 1
            return False
        self._vcount += 1
        if self._vcount <= 25:
            path = REPLAYS / f"{self.pid}-{self._vcount}.json"
            record["seed"] = self.seed
            record["tier"] = self.tier
            path.write_text(json.dumps(record, indent=1, default=repr))
            shown = path.relative_to(VERIF) if str(path).startswith(str(VERIF)) else path
            print(f"VIOLATION property={self.pid} replay={shown}", flush=True)
            print(f"  what: {record.get('what')}", flush=True)
        self.violations.append(record)
        return True

    def sample(self, s, cap=6):
        if len(self.samples) < cap:
            self.samples.append(s)

    def add_tlc(self, res, what=""):
        self.states += res.distinct
        self.transitions += res.generated
        self.tlc_runs.append({"spec": res.spec, "cfg": res.cfg_name, "mode": res.mode, "what": what,
                              "distinct_states": res.distinct, "states_generated": res.generated,
                              "depth": res.depth, "wall_s": round(res.wall, 2),
                              "coverage_zero": res.zero_actions[:10]})

    # ------------------------------------------------------------- finish
    def finish(self):
        wall = time.time() - self.t0
        for kid, hit in self.known_hits.items():
            e = hit["entry"]
            print(f"KNOWN-FINDING: property={self.pid} {e['what']} [{kid}; {hit['count']} occurrence(s) this run]",
                  flush=True)
        cov = {
            "states": self.states,
            "transitions": self.transitions,
            "traces_validated_against_impl": self.traces,
            "samples": self.samples or ["(none)"],
            "evaluations": self.evaluations or self.traces,
            "distinct_nontrivial": self.nontrivial,
            "rule": self.rule,
            "tlc_runs": self.tlc_runs,
            "known_findings_seen": {k: v["count"] for k, v in self.known_hits.items()},
        }
        if self.states < 1 or self.transitions < 1:
            # no state-space run in this check: fall back to the generic coverage keys
            cov.pop("states")
            cov.pop("transitions")
        if self.exhaustive is not None:
            cov["exhaustive"] = self.exhaustive
        cov.update(self.extra)
        ev = {
            "property_id": self.pid,
            "tier": self.tier,
            "seed": self.seed,
            "level": self.level,
            "coverage": cov,
            "assumptions": self.assumptions,
            "wall_s": round(wall, 2),
            "violations": len(self.violations),
        }
        EVID.mkdir(exist_ok=True)
        (EVID / f"{self.pid}.json").write_text(json.dumps(ev, indent=1, default=repr))
        if self.violations:
            print(f"{self.pid}: {len(self.violations)} violation(s) in {wall:.1f}s", flush=True)
            return EXIT_VIOLATION
        print(f"{self.pid}: OK  tier={self.tier} states={self.states} transitions={self.transitions} "
              f"traces={self.traces} wall={wall:.1f}s", flush=True)
        return EXIT_OK


def chunks(seq, n):
    seq = list(seq)
    k = max(1, (len(seq) + n - 1) // n)
    return [seq[i:i + k] for i in range(0, len(seq), k)]


def pmap(fn, items, procs=14):
    """Map over items in worker processes (fork); fn must be a top-level function."""
    import multiprocessing as mp

    items = list(items)
    if not items:
        return []
    if procs <= 1 or len(items) == 1:
        return [fn(i) for i in items]
    ctx = mp.get_context("fork")
    with ctx.Pool(min(procs, len(items))) as pool:
        return pool.map(fn, items, chunksize=1)
