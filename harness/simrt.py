"""simrt -- deterministic cooperative runtime for the *real* secsgem threads.

Real OS threads, one baton: exactly one simulated thread runs at any time; it gives the baton up
only at a yield point (an operation of a simulated primitive, or -- for selected functions -- a
source line).  Time is virtual.  When no thread is runnable the clock jumps to the earliest
deadline; when there is none the run is WEDGED.

Nothing in /repo is edited: `install()` replaces the module attributes `threading`, `queue`,
`time`, `select`, `socket`, `random` of the secsgem modules by the shim namespaces below.
"""
from __future__ import annotations

import heapq
import itertools
import queue as _rq
import random as _rrandom
import os
import sys
import threading as _rt
import time as _rtime
import traceback
import types

NEW, RUNNABLE, BLOCKED, DONE = "new", "runnable", "blocked", "done"


class SimKill(BaseException):
    """Raised inside simulated threads at teardown so that their OS threads unwind."""


class SimError(Exception):
    """Machinery error of the runtime (never a property violation)."""


_current: "Scheduler | None" = None


def cur_sched() -> "Scheduler":
    s = _current
    if s is None:
        raise SimError("simulated primitive used outside a simulation")
    return s


class SimThread:
    _ids = itertools.count(1)

    def __init__(self, sched, target, args=(), kwargs=None, name=None, daemon=None):
        self.sched = sched
        self.target = target
        self.args = args
        self.kwargs = kwargs or {}
        self.sid = next(sched._tid)
        self.name = name or f"simthread-{self.sid}"
        self.daemon = daemon
        self.state = NEW
        self.sem = _rt.Semaphore(0)
        self.wait_obj = None
        self.deadline = None
        self.timed_out = False
        self.idle_wait = False
        self.ready_seq = 0
        self.prio = sched.rng.random() if sched.policy == "pct" else 0.0
        self.joiners: list[SimThread] = []
        self.os_thread = None
        self.is_main = False
        self.result = None
        self.exc = None

    def __repr__(self):
        return f"<SimThread {self.sid} {self.name} {self.state}>"

    # -- OS thread body
    def _boot(self):
        sched = self.sched
        self.sem.acquire()
        if sched.dead:
            self.state = DONE
            return
        if sched.line_codes or sched.event_codes:
            sys.settrace(sched._tracer)
        try:
            self.result = self.target(*self.args, **self.kwargs)
        except SimKill:
            self.state = DONE
            return
        except BaseException as exc:  # noqa: BLE001
            self.exc = exc
            sched.errors.append((self.name, repr(exc), traceback.format_exc()))
        finally:
            sys.settrace(None)
        if sched.dead:
            self.state = DONE
            return
        self.state = DONE
        for j in self.joiners:
            sched._wake(j)
        self.joiners = []
        if self.is_main:
            sched._finish("done")
            return
        nxt = sched._pick(None)
        if nxt is None:
            return
        sched.cur = nxt
        nxt.sem.release()


class Scheduler:
    """One simulation run."""

    def __init__(self, seed=0, policy="fifo", switch_prob=0.2, script=None, max_vtime=100000.0,
                 max_steps=5_000_000, line_cost=1e-4, randint=None, pct_depth=2, pct_horizon=150, wake_lag=None):
        self.now = 0.0
        # wake_lag = (thread name prefixes, probability, dt): a thread that was woken from a blocking wait is, with that
        # probability, not run for another dt of virtual time (scheduling latency after a wake-up; any OS may do that)
        self.wake_lag = wake_lag
        self.lag_rng = _rrandom.Random(seed ^ 0x1A6)
        self.seed = seed
        self.policy = policy
        self.switch_prob = switch_prob
        self.script = list(script) if script is not None else None
        self.script_pos = 0
        self.rng = _rrandom.Random(seed)
        self.app_rng = _rrandom.Random(seed ^ 0x5EC5)
        self.randint_override = randint
        self.threads: list[SimThread] = []
        self.timers: list = []
        self._tseq = itertools.count()
        self._tid = itertools.count(1)
        self._rseq = itertools.count(1)
        self.cur: SimThread | None = None
        self.dead = False
        self.outcome = None
        self.errors: list = []
        self.steps = 0
        self.max_vtime = max_vtime
        self.max_steps = max_steps
        self.line_cost = line_cost
        self.line_codes: set = set()
        self.event_codes: dict = {}      # code object -> [(event name, "call" | "return", extract(frame, retval) -> dict | None)]
        self.events: list = []
        self.lag_codes: set = set()      # code objects whose line boundaries may deschedule the thread for line_lag_dt
        self.line_lag_p = 0.0
        self.line_lag_dt = 0.0
        self.put_hook = None             # callable(queue, item) invoked when a Queue.put took effect
        self.op_hook = None              # callable(kind, obj, value): "set" / "clear" / "wait" (returned True) on Events, "get" / "qsize" on Queues
        self.choices: list[int] = []
        self.done_evt = _rt.Event()
        self.wedge_info = None
        self.log: list = []
        self.preempt_budget = None  # for bounded-preemption scripts
        # PCT (probabilistic concurrency testing): random thread priorities + a few priority change points
        self.yp_count = 0
        self.pct_points = set()
        self.pct_low = 0.0
        if policy == "pct":
            self.pct_points = {self.rng.randrange(1, pct_horizon) for _ in range(pct_depth)}

    # ------------------------------------------------------------------ thread management
    def spawn(self, target, args=(), kwargs=None, name=None, daemon=True) -> SimThread:
        t = SimThread(self, target, args, kwargs, name, daemon)
        self.threads.append(t)
        t.os_thread = _rt.Thread(target=t._boot, name="sim:" + t.name, daemon=True)
        t.os_thread.start()
        t.state = RUNNABLE
        t.ready_seq = next(self._rseq)
        return t

    def me(self) -> SimThread:
        t = self.cur
        if t is None or t.os_thread is not _rt.current_thread():
            if self.dead:
                raise SimKill
            raise SimError(f"primitive used from a thread that does not hold the baton "
                           f"({_rt.current_thread().name}, cur={self.cur})")
        return t

    def _wake(self, t: SimThread, timed_out=False):
        if t.state == BLOCKED:
            t.state = RUNNABLE
            t.deadline = None
            t.timed_out = timed_out
            t.ready_seq = next(self._rseq)

    def _runnable(self):
        return [t for t in self.threads if t.state == RUNNABLE and not t.idle_wait]

    def next_deadline(self):
        """Earliest pending deadline (timed waits and timers), or None."""
        best = None
        for t in self.threads:
            if t.state == BLOCKED and t.deadline is not None and (best is None or t.deadline < best):
                best = t.deadline
        while self.timers and self.timers[0][2].cancelled:
            heapq.heappop(self.timers)
        if self.timers and (best is None or self.timers[0][0] < best):
            best = self.timers[0][0]
        return best

    def _fire_due(self):
        for t in self.threads:
            if t.state == BLOCKED and t.deadline is not None and t.deadline <= self.now + 1e-12:
                self._wake(t, timed_out=True)
        while self.timers and self.timers[0][0] <= self.now + 1e-12:
            _, _, tm = heapq.heappop(self.timers)
            if tm.cancelled:
                continue
            tm._fire()

    def _choose(self, cands: list[SimThread], me: SimThread | None, forced: bool, fair: bool = False) -> SimThread:
        """Pick among runnable candidates (sorted by ready_seq)."""
        cands = sorted(cands, key=lambda t: t.ready_seq)
        if len(cands) == 1:
            return cands[0]
        if self.script is not None:
            if self.script_pos < len(self.script):
                k = self.script[self.script_pos] % len(cands)
                self.script_pos += 1
            else:
                k = 0 if (forced or me is None or me not in cands) else cands.index(me)
            self.choices.append(k)
            return cands[k]
        if self.policy == "random":
            k = self.rng.randrange(len(cands))
            self.choices.append(k)
            return cands[k]
        if self.policy == "pct" and not fair:
            best = max(cands, key=lambda t: t.prio)
            self.choices.append(cands.index(best))
            return best
        # fifo
        self.choices.append(0)
        return cands[0]

    def _pick(self, me: SimThread | None, voluntary=False, fair=False):
        """Select the next thread to run; advances virtual time if necessary. None => finished."""
        while True:
            if self.dead:
                return None
            self.steps += 1
            if self.steps > self.max_steps:
                self._finish("hang", "step budget exceeded")
                return None
            run = self._runnable()
            if run:
                return self._choose(run, me, not voluntary, fair)
            idle = [t for t in self.threads if t.state == RUNNABLE and t.idle_wait]
            if idle:
                return idle[0]
            nd = self.next_deadline()
            if nd is None:
                self._finish("wedged", "no runnable thread and no pending deadline")
                return None
            if nd > self.max_vtime:
                self._finish("hang", f"virtual time budget exceeded ({nd:.3f})")
                return None
            if nd > self.now:
                self.now = nd
            self._fire_due()

    def _switch(self, me: SimThread, voluntary=False, fair=False):
        nxt = self._pick(me, voluntary, fair)
        if nxt is None:
            raise SimKill
        if nxt is me:
            return
        self.cur = nxt
        nxt.sem.release()
        me.sem.acquire()
        if self.dead:
            raise SimKill

    def blocked_report(self):
        rep = []
        frames = sys._current_frames()
        for t in self.threads:
            if t.state in (BLOCKED, RUNNABLE):
                fr = frames.get(t.os_thread.ident) if t.os_thread else None
                stack = []
                if fr is not None:
                    for fs in traceback.extract_stack(fr):
                        if "simrt.py" in fs.filename or "threading.py" in fs.filename:
                            continue
                        stack.append(f"{fs.filename.split('/')[-1]}:{fs.lineno}:{fs.name}")
                rep.append({"thread": t.name, "state": t.state, "wait": repr(t.wait_obj)[:80],
                            "deadline": t.deadline, "stack": stack[-6:]})
        return rep

    def _finish(self, outcome, info=None):
        if self.dead:
            return
        if outcome != "done":
            self.wedge_info = {"why": info, "now": self.now, "threads": self.blocked_report()}
        self.outcome = outcome
        self.dead = True
        for t in self.threads:
            t.sem.release()
            t.sem.release()
        self.done_evt.set()

    # ------------------------------------------------------------------ primitives for shims
    def yield_point(self, kind="op"):
        if self.dead:
            raise SimKill
        me = self.me()
        if kind == "line":
            self.now += self.line_cost
            if self.now > self.max_vtime:
                self._finish("hang", "virtual time budget exceeded while spinning")
                raise SimKill
            self._fire_due()
            run = self._runnable()
            if len(run) <= 1:
                return
            if self.script is not None or self.policy == "random":
                me.ready_seq = next(self._rseq)
                self._switch(me, voluntary=True)
            else:
                # fair rotation so a spinning thread cannot starve the others (also under PCT priorities)
                me.ready_seq = next(self._rseq)
                self._switch(me, voluntary=False, fair=True)
            return
        if self.script is not None:
            if self.script_pos < len(self.script):
                self._switch(me, voluntary=True)
            return
        if self.policy == "pct":
            self.yp_count += 1
            if self.yp_count in self.pct_points:
                self.pct_low -= 1.0
                me.prio = self.pct_low
            if len(self._runnable()) > 1:
                self._switch(me, voluntary=True)
            return
        if self.policy == "random" and self.rng.random() < self.switch_prob:
            run = self._runnable()
            if len(run) > 1:
                self._switch(me, voluntary=True)

    def block(self, wait_obj, timeout=None) -> bool:
        """Block the calling thread. Returns False if the wait timed out."""
        if self.dead:
            raise SimKill
        me = self.me()
        me.state = BLOCKED
        me.wait_obj = wait_obj
        me.timed_out = False
        me.deadline = None if timeout is None else self.now + max(0.0, float(timeout))
        self._switch(me)
        me.wait_obj = None
        res = not me.timed_out
        if self.wake_lag is not None and res and wait_obj != ("lag",) and not self.dead:
            pre, prob, dt = self.wake_lag
            if any(str(me.name).startswith(p) for p in pre) and self.lag_rng.random() < prob:
                me.state = BLOCKED
                me.wait_obj = ("lag",)
                me.timed_out = False
                me.deadline = self.now + dt
                self._switch(me)
                me.wait_obj = None
        return res

    # ------------------------------------------------------------------ driver API (main thread)
    def settle(self):
        """Return when no other thread is runnable at the current virtual time (threads held back by wake_lag count as
        runnable: time advances until they ran)."""
        me = self.me()
        while True:
            me.idle_wait = True
            me.ready_seq = next(self._rseq)
            try:
                self._switch(me)
            finally:
                me.idle_wait = False
            if self.wake_lag is None:
                return
            lagging = [t.deadline for t in self.threads if t.state == BLOCKED and t.wait_obj == ("lag",) and t.deadline is not None]
            if not lagging:
                return
            self.block(("settle-lag",), max(0.0, min(lagging) - self.now))

    def sleep(self, dt):
        self.block(("sleep", dt), dt)

    def run_until(self, pred, max_dt=1000.0):
        """Let the system run (advancing time) until pred() holds at quiescence.

        Returns (ok, why): ok False with why 'wedged' if nothing can happen any more, 'time' if
        max_dt of virtual time passed.
        """
        limit = self.now + max_dt
        while True:
            self.settle()
            if pred():
                return True, "ok"
            nd = self.next_deadline()
            if nd is None:
                return False, "wedged"
            if nd > limit:
                return False, "time"
            self.block(("until", nd), max(0.0, nd - self.now))

    def advance(self, dt):
        """Advance virtual time by dt (running everything that becomes due), then settle."""
        self.block(("advance", dt), dt)
        self.settle()

    # ------------------------------------------------------------------ event recording (trace validation)
    def emit(self, name, **fields):
        """Append an event to the run's totally ordered event log (one baton: no two threads run at once)."""
        me = self.cur
        rec = {"e": name, "th": me.name if me is not None else "?", "t": round(self.now, 6)}
        rec.update(fields)
        self.events.append(rec)

    def _event_tracer_for(self, specs, lines):
        def local(frame, event, arg):
            if event == "line" and lines and not self.dead:
                if self.cur is not None and self.cur.os_thread is _rt.current_thread():
                    self.yield_point("line")
            elif event == "return" and not self.dead:
                for name, on, extract in specs:
                    if on == "return":
                        try:
                            f = extract(frame, arg) if extract else {}
                        except Exception as exc:  # noqa: BLE001
                            f = {"extract_error": repr(exc)}
                        if f is not None:
                            self.emit(name, **f)
            return local
        return local

    # ------------------------------------------------------------------ line tracing
    def _tracer(self, frame, event, arg):
        if event != "call":
            return None
        code = frame.f_code
        specs = self.event_codes.get(code)
        if specs:
            if not self.dead:
                for name, on, extract in specs:
                    if on == "call":
                        try:
                            f = extract(frame, None) if extract else {}
                        except Exception as exc:  # noqa: BLE001
                            f = {"extract_error": repr(exc)}
                        if f is not None:
                            self.emit(name, **f)
            return self._event_tracer_for(specs, code in self.line_codes)
        if code in self.line_codes:
            return self._line_tracer
        return None

    def _line_tracer(self, frame, event, arg):
        if event == "line" and not self.dead:
            if self.cur is not None and self.cur.os_thread is _rt.current_thread():
                if _DEBUG_LINES:
                    print(f"{self.now:.4f} [{str(self.cur.name)[:44]}] {frame.f_code.co_name}:{frame.f_lineno}", file=sys.stderr)
                if frame.f_code in self.lag_codes and self.lag_rng.random() < self.line_lag_p:
                    # the thread is descheduled between two statements for a while: everything else that can happen at this
                    # instant happens first
                    self.block(("linelag",), self.line_lag_dt)
                else:
                    self.yield_point("line")
        return self._line_tracer


_DEBUG_LINES = bool(os.environ.get("SIMRT_TRACE_LINES"))


def run(main, *, seed=0, policy="fifo", switch_prob=0.2, script=None, max_vtime=100000.0,
        max_steps=5_000_000, line_funcs=(), wall_timeout=120.0, randint=None, line_cost=1e-4,
        pct_depth=2, pct_horizon=150, wake_lag=None, event_funcs=(), line_lag=None):
    """Run `main(sched)` as the main simulated thread; returns the Scheduler (see .outcome).

    event_funcs: [(function, event name, "call" | "return", extract)]: an event is appended to sched.events when the function
    is entered / returns (extract(frame, retval) gives the event's fields, None suppresses the event)."""
    global _current
    if _current is not None:
        raise SimError("nested simulation")
    sched = Scheduler(seed=seed, policy=policy, switch_prob=switch_prob, script=script,
                      max_vtime=max_vtime, max_steps=max_steps, randint=randint, line_cost=line_cost,
                      pct_depth=pct_depth, pct_horizon=pct_horizon, wake_lag=wake_lag)
    for f in line_funcs:
        code = getattr(f, "__code__", None) or getattr(getattr(f, "__func__", None), "__code__", None)
        if code is None and isinstance(f, types.CodeType):
            code = f
        if code is None:
            raise SimError(f"no code object for {f!r}")
        sched.line_codes.add(code)
    if line_lag is not None:
        funcs, sched.line_lag_p, sched.line_lag_dt = line_lag
        for f in funcs:
            code = getattr(f, "__code__", None) or getattr(getattr(f, "__func__", None), "__code__", None)
            if code is None:
                raise SimError(f"no code object for {f!r}")
            sched.lag_codes.add(code)
            sched.line_codes.add(code)
    for f, name, on, extract in event_funcs:
        code = getattr(f, "__code__", None) or getattr(getattr(f, "__func__", None), "__code__", None)
        if code is None:
            raise SimError(f"no code object for {f!r}")
        sched.event_codes.setdefault(code, []).append((name, on, extract))
    _current = sched
    try:
        t = sched.spawn(main, args=(sched,), name="main")
        t.is_main = True
        sched.cur = t
        t.sem.release()
        if not sched.done_evt.wait(wall_timeout):
            sched._finish("walltimeout", f"wall clock {wall_timeout}s")
        # let OS threads unwind
        for th in list(sched.threads):
            if th.os_thread is not None:
                th.os_thread.join(2.0)
        sched.main_result = t.result
        sched.main_exc = t.exc
        return sched
    finally:
        _current = None


# ====================================================================== shims: threading
class Lock:
    def __init__(self):
        self._owner = None
        self._count = 0
        self._waiters: list[SimThread] = []
        self._reentrant = False

    def acquire(self, blocking=True, timeout=-1):
        s = cur_sched()
        s.yield_point()
        me = s.me()
        tmo = None if timeout is None or timeout < 0 else timeout
        deadline = None if tmo is None else s.now + tmo
        while True:
            if self._owner is None:
                self._owner = me
                self._count = 1
                return True
            if self._reentrant and self._owner is me:
                self._count += 1
                return True
            if not blocking:
                return False
            self._waiters.append(me)
            rem = None if deadline is None else max(0.0, deadline - s.now)
            ok = s.block(self, rem)
            if me in self._waiters:
                self._waiters.remove(me)
            if not ok:
                return False

    def release(self):
        s = _current
        if s is None or s.dead:
            return
        self._count -= 1
        if self._count <= 0:
            self._owner = None
            self._count = 0
            for w in self._waiters:
                s._wake(w)
            self._waiters = []

    def locked(self):
        return self._owner is not None

    def __enter__(self):
        self.acquire()
        return self

    def __exit__(self, *a):
        self.release()
        return False


class RLock(Lock):
    def __init__(self):
        super().__init__()
        self._reentrant = True


class Condition:
    def __init__(self, lock=None):
        self._lock = lock if lock is not None else RLock()
        self._waiters: list[SimThread] = []

    def acquire(self, *a, **k):
        return self._lock.acquire(*a, **k)

    def release(self):
        return self._lock.release()

    def __enter__(self):
        self._lock.acquire()
        return self

    def __exit__(self, *a):
        self._lock.release()
        return False

    def wait(self, timeout=None):
        s = cur_sched()
        me = s.me()
        # release fully
        saved = self._lock._count
        self._lock._count = 1
        self._lock.release()
        self._waiters.append(me)
        ok = s.block(self, timeout)
        if me in self._waiters:
            self._waiters.remove(me)
        self._lock.acquire()
        self._lock._count = saved
        return ok

    def wait_for(self, predicate, timeout=None):
        s = cur_sched()
        end = None if timeout is None else s.now + timeout
        result = predicate()
        while not result:
            rem = None
            if end is not None:
                rem = end - s.now
                if rem <= 0:
                    break
            self.wait(rem)
            result = predicate()
        return result

    def notify(self, n=1):
        s = cur_sched()
        if s.op_hook is not None:
            s.op_hook("notify", self, None)       # before any yield: the state change that is being announced just happened
        s.yield_point()
        for w in self._waiters[:n]:
            s._wake(w)
        self._waiters = self._waiters[n:]
        s.yield_point()

    def notify_all(self):
        self.notify(len(self._waiters))

    notifyAll = notify_all


class Event:
    def __init__(self):
        self._flag = False
        self._waiters: list[SimThread] = []

    def is_set(self):
        return self._flag

    isSet = is_set

    def set(self):
        s = cur_sched()
        s.yield_point()
        self._flag = True
        if s.op_hook is not None:
            s.op_hook("set", self, None)
        for w in self._waiters:
            s._wake(w)
        self._waiters = []
        s.yield_point()      # a real thread can be preempted right after the wake-up took effect

    def clear(self):
        s = cur_sched()
        s.yield_point()
        self._flag = False
        if s.op_hook is not None:
            s.op_hook("clear", self, None)

    def wait(self, timeout=None):
        s = cur_sched()
        s.yield_point()
        if self._flag:
            if s.op_hook is not None:
                s.op_hook("wait", self, None)
            return True
        me = s.me()
        self._waiters.append(me)
        s.block(self, timeout)
        if me in self._waiters:
            self._waiters.remove(me)
        if self._flag and s.op_hook is not None:
            s.op_hook("wait", self, None)
        return self._flag


class Semaphore:
    def __init__(self, value=1):
        self._value = value
        self._waiters: list[SimThread] = []

    def acquire(self, blocking=True, timeout=None):
        s = cur_sched()
        s.yield_point()
        me = s.me()
        end = None if timeout is None else s.now + timeout
        while self._value <= 0:
            if not blocking:
                return False
            self._waiters.append(me)
            ok = s.block(self, None if end is None else max(0.0, end - s.now))
            if me in self._waiters:
                self._waiters.remove(me)
            if not ok:
                return False
        self._value -= 1
        return True

    def release(self, n=1):
        s = cur_sched()
        self._value += n
        for w in self._waiters:
            s._wake(w)
        self._waiters = []

    __enter__ = acquire

    def __exit__(self, *a):
        self.release()


class Thread:
    """Shim for threading.Thread."""

    def __init__(self, group=None, target=None, name=None, args=(), kwargs=None, *, daemon=None):
        self._target = target
        self._args = args
        self._kwargs = kwargs or {}
        self.name = name or "Thread"
        self.daemon = bool(daemon)
        self._sim: SimThread | None = None

    def run(self):
        if self._target is not None:
            self._target(*self._args, **self._kwargs)

    def start(self):
        s = cur_sched()
        self._sim = s.spawn(self.run, name=self.name, daemon=self.daemon)
        s.log.append(("spawn", self.name, s.now))
        s.yield_point()

    def is_alive(self):
        cur_sched().yield_point()
        return self._sim is not None and self._sim.state != DONE

    def join(self, timeout=None):
        s = cur_sched()
        s.yield_point()
        if self._sim is None:
            raise RuntimeError("cannot join thread before it is started")
        if self._sim.state == DONE:
            return
        me = s.me()
        if self._sim is me:
            raise RuntimeError("cannot join current thread")
        self._sim.joiners.append(me)
        s.block(("join", self._sim.name), timeout)
        if me in self._sim.joiners:
            self._sim.joiners.remove(me)

    @property
    def ident(self):
        return self._sim.sid if self._sim else None

    def setDaemon(self, d):  # noqa: N802
        self.daemon = d


class Timer(Thread):
    def __init__(self, interval, function, args=None, kwargs=None):
        super().__init__(name="Timer")
        self.interval = interval
        self.function = function
        self.targs = args or []
        self.tkwargs = kwargs or {}
        self.cancelled = False
        self.fired = False
        self.started = False

    def start(self):
        s = cur_sched()
        s.yield_point()
        self.started = True
        heapq.heappush(s.timers, (s.now + float(self.interval), next(s._tseq), self))
        s.log.append(("timer_start", self.name, s.now, self.interval))

    def cancel(self):
        s = cur_sched()
        s.yield_point()
        self.cancelled = True

    def _fire(self):
        s = cur_sched()
        self.fired = True
        s.log.append(("timer_fire", self.name, s.now))
        self._sim = s.spawn(self._run_fn, name=self.name, daemon=True)

    def _run_fn(self):
        if not self.cancelled:
            self.function(*self.targs, **self.tkwargs)

    def is_alive(self):
        if not self.started:
            return False
        if self.fired:
            # cancel() after the timer fired does not end the thread: it is alive until its function returns
            return self._sim is not None and self._sim.state != DONE
        return not self.cancelled

    def join(self, timeout=None):
        s = cur_sched()
        while self.started and not self.cancelled and not self.fired:
            s.block(("timerjoin", self.name), 0.05)
        if self._sim is not None:
            super().join(timeout)


class _CurThread:
    def __init__(self, st):
        self.name = st.name
        self.ident = st.sid
        self.daemon = True


def _current_thread():
    s = _current
    if s is None:
        return _rt.current_thread()
    return _CurThread(s.me())


threading_shim = types.SimpleNamespace(
    Thread=Thread, Timer=Timer, Event=Event, Condition=Condition, Lock=Lock, RLock=RLock,
    Semaphore=Semaphore, current_thread=_current_thread, currentThread=_current_thread,
    get_ident=lambda: (_current.me().sid if _current else _rt.get_ident()),
    main_thread=_rt.main_thread, TIMEOUT_MAX=_rt.TIMEOUT_MAX, local=_rt.local,
    active_count=lambda: len([t for t in cur_sched().threads if t.state != DONE]),
)


# ====================================================================== shims: queue
class Queue:
    def __init__(self, maxsize=0):
        self.maxsize = maxsize
        self._putters = []
        self._items: list = []
        self._getters: list[SimThread] = []

    def qsize(self):
        s = cur_sched()
        s.yield_point()
        if s.op_hook is not None:
            s.op_hook("qsize", self, len(self._items))
        return len(self._items)

    def empty(self):
        cur_sched().yield_point()
        return not self._items

    def full(self):
        return 0 < self.maxsize <= len(self._items)

    def put(self, item, block=True, timeout=None):
        s = cur_sched()
        s.yield_point()
        if self.maxsize > 0:
            # bounded queue: the producer waits for a free slot
            me = s.me()
            end = None if timeout is None else s.now + timeout
            while len(self._items) >= self.maxsize:
                if not block:
                    raise _rq.Full
                rem = None
                if end is not None:
                    rem = end - s.now
                    if rem <= 0:
                        raise _rq.Full
                self._putters.append(me)
                s.block(("queue-full", id(self)), rem)
                if me in self._putters:
                    self._putters.remove(me)
        self._items.append(item)
        if s.put_hook is not None:
            s.put_hook(self, item)          # event recording at the linearization point of the put
        for g in self._getters:
            s._wake(g)
        self._getters = []
        s.yield_point()

    def put_nowait(self, item):
        self.put(item, False)

    def get(self, block=True, timeout=None):
        s = cur_sched()
        s.yield_point()
        me = s.me()
        end = None if timeout is None else s.now + timeout
        while not self._items:
            if not block:
                raise _rq.Empty
            rem = None
            if end is not None:
                rem = end - s.now
                if rem <= 0:
                    raise _rq.Empty
            self._getters.append(me)
            s.block(self, rem)
            if me in self._getters:
                self._getters.remove(me)
        item = self._items.pop(0)
        if self._putters:
            for p_ in self._putters:
                s._wake(p_)
            self._putters = []
        if s.op_hook is not None:
            s.op_hook("get", self, item)
        return item

    def get_nowait(self):
        return self.get(False)

    def task_done(self):
        pass

    def join(self):
        pass


queue_shim = types.SimpleNamespace(Queue=Queue, Empty=_rq.Empty, Full=_rq.Full, SimpleQueue=Queue,
                                   LifoQueue=Queue)


# ====================================================================== shims: time, random
class _TimeShim(types.ModuleType):
    def __init__(self):
        super().__init__("time")

    def __getattr__(self, name):
        return getattr(_rtime, name)

    @staticmethod
    def sleep(dt):
        s = cur_sched()
        s.block(("sleep", dt), max(0.0, dt))

    @staticmethod
    def time():
        s = _current
        return 1_700_000_000.0 + (s.now if s else 0.0)

    @staticmethod
    def monotonic():
        s = _current
        return s.now if s else _rtime.monotonic()

    perf_counter = monotonic


time_shim = _TimeShim()


class _RandomShim(types.ModuleType):
    def __init__(self):
        super().__init__("random")

    def __getattr__(self, name):
        s = _current
        if s is None:
            return getattr(_rrandom, name)
        return getattr(s.app_rng, name)

    @staticmethod
    def randint(a, b):
        s = _current
        if s is None:
            return _rrandom.randint(a, b)
        if s.randint_override is not None:
            v = s.randint_override
            return v(a, b) if callable(v) else v
        return s.app_rng.randint(a, b)


random_shim = _RandomShim()

_installed: set = set()


def install(extra=None):
    """Replace concurrency module references inside the secsgem modules (idempotent)."""
    import importlib
    import pkgutil

    import secsgem

    shims = {"threading": threading_shim, "queue": queue_shim, "time": time_shim, "random": random_shim}
    real = {"threading": _rt, "queue": _rq, "time": _rtime, "random": _rrandom}
    if extra:
        for k, v in extra.items():
            shims[k] = v
            real[k] = sys.modules.get(k) or importlib.import_module(k)
    todo = {k: v for k, v in shims.items() if k not in _installed}
    if not todo:
        return
    for m in pkgutil.walk_packages(secsgem.__path__, "secsgem."):
        if ".functions.s" in m.name or ".data_items." in m.name:
            continue
        try:
            importlib.import_module(m.name)
        except Exception:  # noqa: BLE001
            pass
    for name, mod in list(sys.modules.items()):
        if not name.startswith("secsgem") or mod is None:
            continue
        for attr, shim in todo.items():
            if getattr(mod, attr, None) is real.get(attr) and real.get(attr) is not None:
                setattr(mod, attr, shim)
    _installed.update(todo)
