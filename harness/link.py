"""In-memory links for running real secsgem protocol objects under simrt.

FakeConnection mirrors the contract of secsgem.common.TcpConnection:
  * a *connection thread* (the accept/connect thread) marks the link connected, starts the
    *receiver thread* and then calls on_connected -- concurrently with the receiver thread, which
    may already deliver data;
  * the receiver thread delivers inbound chunks through on_data; when the peer closes or a local
    disconnect() is requested it runs on_disconnecting -> close -> on_disconnected and resets flags;
  * disable()/disconnect() set `disconnecting`, ask the receiver thread to stop and wait for it.

The harness side (driver) owns the other end: feed(), peer_close(), connect(), take_sent().
Also contains an independent HSMS frame codec (written from SEMI E37, not from secsgem).
"""
from __future__ import annotations

import struct

import secsgem.common
import secsgem.hsms

from . import simrt


# ---------------------------------------------------------------------------- independent HSMS codec
STYPE = {0: "Data", 1: "Select.req", 2: "Select.rsp", 3: "Deselect.req", 4: "Deselect.rsp",
         5: "Linktest.req", 6: "Linktest.rsp", 7: "Reject.req", 9: "Separate.req"}


def hsms_frame(stype=0, system=0, session=0xFFFF, stream=0, function=0, wbit=False, body=b"",
               ptype=0, b2=None, b3=None):
    """Encode an HSMS frame per SEMI E37 (header byte 2 / 3 overridable for control messages)."""
    if stype == 0:
        hb2 = (0x80 if wbit else 0) | (stream & 0x7F)
        hb3 = function & 0xFF
    else:
        hb2 = 0 if b2 is None else b2
        hb3 = 0 if b3 is None else b3
    hdr = struct.pack(">HBBBBL", session & 0xFFFF, hb2, hb3, ptype, stype, system & 0xFFFFFFFF)
    return struct.pack(">L", 10 + len(body)) + hdr + body


def parse_frames(buf: bytes):
    """Split a byte string into frames; returns (frames, rest)."""
    frames = []
    pos = 0
    while len(buf) - pos >= 4:
        (n,) = struct.unpack(">L", buf[pos:pos + 4])
        if len(buf) - pos - 4 < n:
            break
        raw = buf[pos + 4:pos + 4 + n]
        if n < 10:
            frames.append({"malformed": True, "raw": raw.hex()})
        else:
            session, b2, b3, ptype, stype, system = struct.unpack(">HBBBBL", raw[:10])
            fr = {"session": session, "b2": b2, "b3": b3, "ptype": ptype, "stype": stype,
                  "system": system, "body": bytes(raw[10:]), "len": n}
            if stype == 0:
                fr["w"] = bool(b2 & 0x80)
                fr["s"] = b2 & 0x7F
                fr["f"] = b3
            frames.append(fr)
        pos += 4 + n
    return frames, buf[pos:]


# ---------------------------------------------------------------------------- FakeConnection
class FakeConnection(secsgem.common.Connection):
    """Connection whose remote end is the driver."""

    def __init__(self, settings, link: "Link"):
        super().__init__(settings)
        self.link = link
        link.conn = self
        self.enabled = False
        self._thread_running = False
        self._stop_thread = False
        self._inbox: list = []  # chunks: bytes | "EOF"
        self._rx_event = simrt.Event()
        self._stopped_event = simrt.Event()
        self.send_result = True
        self.receiver = None

    # -- secsgem API
    def enable(self):
        if not self.enabled:
            self.enabled = True
            self.link.on_enable()

    def disable(self):
        if self.enabled:
            self.enabled = False
            self.link.on_disable()
            self.disconnect()

    def disconnect(self):
        if not self._thread_running:
            return
        self._disconnecting = True
        self._stop_thread = True
        self._rx_event.set()
        while self._thread_running:
            self._stopped_event.wait()
            self._stopped_event.clear()
        self._disconnecting = False

    def send_data(self, data: bytes) -> bool:
        sched = simrt.cur_sched()
        sched.yield_point()
        if self.link.stall_event is not None:
            # the peer does not read and the socket is full: the send blocks until the driver lets it go
            self.link.stalled += 1
            self.link.stall_event.wait()
        res = self.link.on_send(bytes(data))
        return res

    # -- driven by the harness
    def _accept(self):
        """Body of the connection (accept/connect) thread."""
        self._connected = True
        self._stop_thread = False
        self._inbox_closed = False
        self.receiver = simrt.Thread(target=self._receiver_thread, name=f"conn_receiver_{self.link.name}")
        self._thread_running = True  # TcpConnection._start_receiver waits for this flag
        self.receiver.start()
        try:
            self.on_connected({"source": self})
        except Exception as exc:  # noqa: BLE001  (TcpConnection logs and ignores)
            self.link.handler_errors.append(("on_connected", repr(exc)))

    def _receiver_thread(self):
        sched = simrt.cur_sched()
        try:
            while not self._stop_thread:
                if not self._inbox:
                    self._rx_event.wait()
                    self._rx_event.clear()
                    continue
                if self._disconnecting:
                    # TcpConnection stops reading once a local disconnect was requested
                    sched.block(("disc-sleep",), 0.2)
                    continue
                chunk = self._inbox.pop(0)
                if chunk == "EOF":
                    self._connected = False
                    self._stop_thread = True
                    continue
                self.link.note("SegIn", len=len(chunk))
                try:
                    self.on_data({"source": self, "data": chunk})
                except Exception as exc:  # noqa: BLE001
                    self.link.handler_errors.append(("on_data", repr(exc)))
                    break
            self.link.note("Disconnecting")
            try:
                if not self.link.abrupt_close:        # a connection layer may report the loss without the "disconnecting" notice
                    self.on_disconnecting({"source": self})
            except Exception as exc:  # noqa: BLE001
                self.link.handler_errors.append(("on_disconnecting", repr(exc)))
            self.link.up = False
            self.link.note("SockClosed")
            try:
                self.on_disconnected({"source": self})
            except Exception as exc:  # noqa: BLE001
                self.link.handler_errors.append(("on_disconnected", repr(exc)))
        finally:
            self._connected = False
            self._thread_running = False
            self._stop_thread = False
            self._inbox = []
            self.link.note("CloseDone")
            self.link.closed_count += 1
            if not sched.dead:
                self._stopped_event.set()


class Link:
    """The driver's end of a FakeConnection."""

    def __init__(self, name="ep"):
        self.name = name
        self.conn: FakeConnection | None = None
        self.up = False
        self.sent = bytearray()      # everything the endpoint wrote on the current+past links
        self.sent_log = []           # (vtime, bytes)
        self.events = []             # observable event log (dicts)
        self.handler_errors = []
        self.closed_count = 0
        self.connect_count = 0
        self.fail_sends = False
        self.on_send_hook = None
        self.stall_event = None      # simrt.Event: while set to an (unset) event, send_data blocks on it
        self.stalled = 0
        self.abrupt_close = False    # skip on_disconnecting in the close sequence
        self.enabled_log = []

    def note(self, ev, **kw):
        s = simrt._current
        rec = {"ev": ev, "t": round(s.now, 6) if s else 0.0}
        rec.update(kw)
        self.events.append(rec)

    def on_enable(self):
        self.note("Enable")

    def on_disable(self):
        self.note("Disable")

    def on_send(self, data: bytes) -> bool:
        if self.fail_sends or not self.up:
            self.note("SendFail", len=len(data))
            return False
        self.sent += data
        self.sent_log.append((simrt.cur_sched().now, data))
        if self.on_send_hook:
            self.on_send_hook(data)
        return True

    # ---- driver actions
    def connect(self, inflight: bytes | None = None):
        """Establish the link on a fresh connection thread (like the TCP accept thread)."""
        assert self.conn is not None
        self.up = True
        self.connect_count += 1
        self.note("Connect")
        if inflight:
            self.conn._inbox.append(inflight)
            self.conn._rx_event._flag = True
        th = simrt.Thread(target=self.conn._accept, name=f"conn_accept_{self.name}")
        th.start()
        return th

    def feed(self, data: bytes):
        assert self.conn is not None
        if not data:
            return
        self.conn._inbox.append(bytes(data))
        self.conn._rx_event.set()

    def peer_close(self):
        assert self.conn is not None
        self.note("PeerClose")
        self.conn._inbox.append("EOF")
        self.conn._rx_event.set()

    def take_frames(self):
        """Frames written since the last call (complete ones)."""
        frames, rest = parse_frames(bytes(self.sent))
        self.sent = bytearray(rest)
        return frames

    def take_raw(self):
        data = bytes(self.sent)
        self.sent = bytearray()
        return data


class FakeHsmsSettings(secsgem.hsms.HsmsSettings):
    """HsmsSettings whose create_connection() yields a FakeConnection (public extension point)."""

    def __init__(self, link: Link, **kwargs):
        super().__init__(**kwargs)
        self._link = link

    def create_connection(self):
        return FakeConnection(self, self._link)
