"""Running a real HsmsProtocol (optionally under a GEM handler) on a FakeConnection under simrt."""
from __future__ import annotations

import logging

import secsgem.common
import secsgem.gem
import secsgem.hsms
import secsgem.secs

from . import link, simrt

CS = {"NOT_CONNECTED": "NC", "CONNECTED": "CONN", "CONNECTED_NOT_SELECTED": "NS", "CONNECTED_SELECTED": "SEL"}
STNUM = {v: k for k, v in link.STYPE.items()}


class Ep:
    """One endpoint under test."""

    def __init__(self, mode="passive", kind="protocol", name="ep", linktest=1e9, device_type=None, **kw):
        self.link = link.Link(name)
        cm = secsgem.hsms.HsmsConnectMode.ACTIVE if mode == "active" else secsgem.hsms.HsmsConnectMode.PASSIVE
        args = dict(connect_mode=cm)
        if device_type is not None:
            args["device_type"] = device_type
        args.update(kw.pop("settings", {}))
        self.settings = link.FakeHsmsSettings(self.link, **args)
        self.events = []      # (name, payload)
        self.delivered = []   # message headers delivered through message_received
        self.handler = None
        if kind == "protocol":
            self.protocol = secsgem.hsms.HsmsProtocol(self.settings)
            self.protocol.events.message_received += self._on_msg
        elif kind == "equipment":
            self.handler = kw.pop("handler_cls", secsgem.gem.GemEquipmentHandler)(self.settings, **kw)
            self.protocol = self.handler.protocol
        elif kind == "host":
            self.handler = kw.pop("handler_cls", secsgem.gem.GemHostHandler)(self.settings, **kw)
            self.protocol = self.handler.protocol
        else:
            raise ValueError(kind)
        self.protocol._linktest_timeout = linktest
        for ev in ("connected", "communicating", "disconnected"):
            getattr(self.protocol.events, ev).register(lambda d, ev=ev: self.events.append(ev))
        if self.handler is not None:
            self.protocol.events.handler_communicating += lambda d: self.events.append("handler_communicating")
        self.seen_in = set()      # system ids used by inbound messages
        self.seen_out = set()     # system ids chosen by the endpoint
        self.last_select_req = None
        self.last_app_req = None
        self.app_replies = []
        self._next_sys = 1000

    def _on_msg(self, data):
        h = data["message"].header
        self.delivered.append({"s": h.stream, "f": h.function, "w": h.require_response, "system": h.system})

    @property
    def cs(self):
        return CS[self.protocol.connection_state.current.name]

    def fresh_sys(self):
        self._next_sys += 1
        return self._next_sys

    def classify(self, frames, inbound_sys=None):
        """Abstract the frames written by the endpoint: sys -> echo | fresh | other."""
        out = []
        for f in frames:
            if f.get("malformed"):
                out.append({"st": "malformed", "sys": "other", "reason": 0})
                continue
            x = f["system"]
            if inbound_sys is not None and x == inbound_sys:
                sysc = "echo"
            elif x in self.seen_in or x in self.seen_out:
                sysc = "other"
            else:
                sysc = "fresh"
                self.seen_out.add(x)
            st = link.STYPE.get(f["stype"], f"stype{f['stype']}")
            if st == "Select.req":
                self.last_select_req = x
            if st == "Data" and sysc == "fresh":
                self.last_app_req = x
            rec = {"st": st, "sys": sysc, "reason": f["b3"] if st == "Reject.req" else 0}
            if st == "Data":
                rec.update({"s": f["s"], "f": f["f"], "w": f["w"]})
            out.append(rec)
        return out


def quiet_logging():
    logging.disable(logging.CRITICAL)


# --------------------------------------------------------------------------- E37 input execution
DATA_KINDS = {
    # (stream, function, body)
    "known": (1, 1, b""),
    "unknown": (99, 7, b""),
    "badbody": (1, 3, b"\x01\xff"),   # S1F3 with a truncated list header
}


def e37_step(sched, ep: Ep, inp, t6):
    """Execute one E37Session input on the real endpoint; return the observation."""
    k = inp["k"]
    inbound_sys = None
    ev0 = len(ep.events)
    d0 = len(ep.delivered)
    r0 = len(ep.app_replies)
    if k == "Enable":
        ep.protocol.enable()
    elif k == "Disable":
        ep.protocol.disable()
    elif k == "Connect":
        ep.link.connect()
    elif k == "PeerClose":
        ep.link.peer_close()
    elif k == "WaitT6":
        sched.advance(t6 + 0.25)
    elif k == "WaitT3":
        sched.advance(ep.protocol._settings.timeouts.t3 + 1.0)
    elif k == "AppRequest":
        import secsgem.secs.functions as sf

        def app(ep=ep):
            rsp = ep.protocol.send_and_waitfor_response(sf.SecsS01F01())
            if rsp is not None:
                ep.app_replies.append(rsp.header.system)

        simrt.Thread(target=app, name="app_request").start()
    elif k == "DataFor":
        inbound_sys = ep.last_app_req if inp["sys"] == "opendata" else ep.last_select_req
        if inbound_sys is None:
            inbound_sys = ep.fresh_sys()
        ep.seen_in.add(inbound_sys)
        ep.link.feed(link.hsms_frame(stype=0, system=inbound_sys, session=0, stream=1, function=2, wbit=False, body=b"\x01\x00"))
    elif k == "PrimaryFor":
        inbound_sys = ep.last_app_req if ep.last_app_req is not None else ep.fresh_sys()
        ep.seen_in.add(inbound_sys)
        ep.link.feed(link.hsms_frame(stype=0, system=inbound_sys, session=0, stream=1, function=1, wbit=inp["w"], body=b""))
    elif k == "Ctrl":
        st = STNUM[inp["st"]]
        if inp["sys"] == "open":
            inbound_sys = ep.last_select_req if ep.last_select_req is not None else ep.fresh_sys()
        else:
            inbound_sys = ep.fresh_sys()
        ep.seen_in.add(inbound_sys)
        b3 = inp.get("status", 0)
        ep.link.feed(link.hsms_frame(stype=st, system=inbound_sys, b3=b3))
    elif k == "Data":
        s, f, body = DATA_KINDS[inp["sf"]]
        inbound_sys = ep.fresh_sys()
        ep.seen_in.add(inbound_sys)
        ep.link.feed(link.hsms_frame(stype=0, system=inbound_sys, session=0, stream=s, function=f,
                                     wbit=inp["w"], body=body))
    else:
        raise ValueError(k)
    sched.settle()
    frames = ep.classify(ep.link.take_frames(), inbound_sys)
    dl = ep.delivered[d0:]
    return {"frames": frames, "ev": [e for e in ep.events[ev0:] if e in ("connected", "communicating", "disconnected")],
            "dlv": len([d for d in dl if d["system"] == inbound_sys]) if inbound_sys is not None else len(dl),
            "dlv_other": len([d for d in dl if d["system"] != inbound_sys]) if inbound_sys is not None else 0,
            "rep": len(ep.app_replies) - r0,
            "cs": ep.cs}


# --------------------------------------------------------------------------- GEM helpers
def s1f14_body(ack, from_host):
    return b"\x01\x02\x21\x01" + bytes([ack]) + (b"\x01\x00" if from_host else b"\x01\x02\x41\x04mdln\x41\x03rev")


def establish(sched, ep: Ep):
    """Bring a handler endpoint to SELECTED + COMMUNICATING (driver plays the peer). Returns True on success."""
    h = ep.handler
    h.enable()
    ep.link.connect()
    sched.settle()
    if ep.settings.is_active:
        for f in ep.link.take_frames():
            if f.get("stype") == 1:
                ep.link.feed(link.hsms_frame(stype=2, system=f["system"]))
    else:
        ep.link.feed(link.hsms_frame(stype=1, system=ep.fresh_sys()))
    sched.settle()
    peer_is_host = not h._is_host if hasattr(h, "_is_host") else True
    for f in ep.link.take_frames():
        if f.get("stype") == 0 and f["s"] == 1 and f["f"] == 13:
            ep.link.feed(link.hsms_frame(stype=0, system=f["system"], session=0, stream=1, function=14,
                                         body=s1f14_body(0, peer_is_host)))
    sched.settle()
    ep.link.take_frames()
    return h.communication_state.current.name == "COMMUNICATING"


def data_frame(s, f, w, system, body=b"", session=0):
    return link.hsms_frame(stype=0, system=system, session=session, stream=s, function=f, wbit=w, body=body)
