"""Run TLC and parse what it reports."""
from __future__ import annotations

import json
import os
import re
import subprocess
import time
from pathlib import Path

from .common import SPEC, Machinery

JAR = "/opt/veriftools/tla/tla2tools.jar:/opt/veriftools/tla/CommunityModules-deps.jar"

_RE_STATES = re.compile(r"(\d+) states generated, (\d+) distinct states found")
_RE_DEPTH = re.compile(r"The depth of the complete state graph search is (\d+)")
_RE_COV = re.compile(r"^<(\w+) line \d+, col \d+ to line \d+, col \d+ of module (\w+)>: (\d+):(\d+)")


class TlcResult:
    def __init__(self):
        self.spec = ""
        self.cfg_name = ""
        self.mode = "check"
        self.rc = 0
        self.out = ""
        self.lines: list[str] = []
        self.generated = 0
        self.distinct = 0
        self.depth = 0
        self.wall = 0.0
        self.ok = False
        self.error = None          # short description of the first error
        self.error_kind = None     # invariant | deadlock | property | assumption | eval | other
        self.error_name = None
        self.trace_text = ""
        self.coverage: dict[str, tuple[int, int]] = {}
        self.zero_actions: list[str] = []

    def tagged(self, tag: str):
        """Values printed as PrintT(<<tag, ToJson(x)>>) -> list of decoded x."""
        pre = f'<<"{tag}", '
        res = []
        for ln in self.lines:
            if ln.startswith(pre) and ln.endswith(">>"):
                lit = ln[len(pre):-2]
                try:
                    res.append(json.loads(json.loads(lit)))
                except Exception as exc:  # noqa: BLE001
                    raise Machinery(f"cannot parse TLC output line {ln[:200]!r}: {exc}") from exc
        return res

    def tagged_raw(self, tag: str):
        pre = f'<<"{tag}", '
        return [ln[len(pre):-2] for ln in self.lines if ln.startswith(pre) and ln.endswith(">>")]


def run(spec: str | Path, cfg: str | Path | None = None, *, cfg_text: str | None = None, workdir: Path,
        workers: int | str = 16, simulate: str | None = None, depth: int | None = None, seed: int | None = None,
        env: dict | None = None, timeout: float = 900, coverage: bool = True, deadlock: bool = False,
        dfs: bool = False, extra_args: list[str] | None = None, heap: str = "8g", what: str = "",
        expect_error: bool = False) -> TlcResult:
    """Run TLC on spec (name relative to /verif/spec or a path). cfg may be a file or text."""
    spec_path = Path(spec)
    if not spec_path.is_absolute():
        spec_path = SPEC / spec_path
    if not spec_path.suffix:
        spec_path = spec_path.with_suffix(".tla")
    workdir.mkdir(parents=True, exist_ok=True)
    if cfg_text is not None:
        cfg_path = workdir / (spec_path.stem + "_" + (what or "run").replace(" ", "_") + ".cfg")
        cfg_path.write_text(cfg_text)
    else:
        cfg_path = Path(cfg) if cfg is not None else spec_path.with_suffix(".cfg")
        if not cfg_path.is_absolute():
            cfg_path = SPEC / cfg_path
    meta = workdir / ("meta_" + spec_path.stem + "_" + str(int(time.time() * 1000) % 10**8))
    props = [f"-DTLA-Library={SPEC}:{workdir}"]
    if dfs:
        props.append("-Dtlc2.tool.queue.IStateQueue=StateDeque")
    cmd = ["java", f"-Xmx{heap}", "-Xss1g", "-XX:+UseParallelGC", *props, "-cp", JAR, "tlc2.TLC",
           "-metadir", str(meta), "-noGenerateSpecTE", "-workers", str(workers), "-config", str(cfg_path)]
    if coverage and not simulate:
        cmd += ["-coverage", "1"]
    if not deadlock:
        cmd += ["-deadlock"]  # -deadlock DISABLES deadlock checking
    if simulate:
        cmd += ["-simulate", simulate]
    if depth is not None:
        cmd += ["-depth", str(depth)]
    if seed is not None:
        cmd += ["-seed", str(seed)]
    if extra_args:
        cmd += extra_args
    cmd.append(str(spec_path))
    e = dict(os.environ)
    if env:
        e.update({k: str(v) for k, v in env.items()})
    t0 = time.time()
    try:
        cp = subprocess.run(cmd, cwd=str(spec_path.parent), env=e, capture_output=True, text=True,
                            timeout=timeout)
        out = cp.stdout + ("\n" + cp.stderr if cp.stderr else "")
        rc = cp.returncode
    except subprocess.TimeoutExpired as exc:
        raise Machinery(f"TLC timed out after {timeout}s on {spec_path.name} ({what})") from exc
    res = TlcResult()
    res.spec = spec_path.name
    res.cfg_name = cfg_path.name
    res.mode = "simulate" if simulate else "check"
    res.rc = rc
    res.out = out
    res.lines = out.splitlines()
    res.wall = time.time() - t0
    for ln in res.lines:
        m = _RE_STATES.search(ln)
        if m:
            res.generated, res.distinct = int(m.group(1)), int(m.group(2))
        m = _RE_DEPTH.search(ln)
        if m:
            res.depth = int(m.group(1))
        m = _RE_COV.match(ln)
        if m:
            name = m.group(1)
            d, t = int(m.group(3)), int(m.group(4))
            od, ot = res.coverage.get(name, (0, 0))
            res.coverage[name] = (od + d, ot + t)
    res.zero_actions = sorted(a for a, (d, t) in res.coverage.items() if t == 0 and a not in ("Init",))
    # errors
    for i, ln in enumerate(res.lines):
        if ln.startswith("Error:"):
            res.error = ln
            m = re.search(r"Invariant (\w+) is violated", ln)
            if m:
                res.error_kind, res.error_name = "invariant", m.group(1)
            elif "Deadlock reached" in ln:
                res.error_kind = "deadlock"
            elif re.search(r"Temporal propert(y|ies) .*violated", ln) or "Action property" in ln:
                res.error_kind = "property"
                m2 = re.search(r"Action property (\w+)", ln)
                if m2:
                    res.error_name = m2.group(1)
            elif "Assumption" in ln:
                res.error_kind = "assumption"
            elif "POSTCONDITION" in ln.upper() or "Postcondition" in ln:
                res.error_kind = "postcondition"
            else:
                res.error_kind = "other"
                res.error = "\n".join(res.lines[i:i + 12])
            res.trace_text = "\n".join(l for l in res.lines[i:i + 400]
                                       if not l.startswith("<<\""))[:20000]
            break
    finished = any("Model checking completed" in ln or "Finished in" in ln or "Progress: " in ln
                   for ln in res.lines)
    res.ok = res.error is None and rc == 0 and finished
    try:
        import shutil

        shutil.rmtree(meta, ignore_errors=True)
    except Exception:  # noqa: BLE001
        pass
    if res.error is None and rc != 0 and not simulate:
        raise Machinery(f"TLC failed rc={rc} on {spec_path.name} ({what}):\n" + "\n".join(res.lines[-25:]))
    if res.error_kind == "other" and not expect_error:
        raise Machinery(f"TLC error on {spec_path.name} ({what}):\n{res.error}")
    return res


def require_ok(res: TlcResult, what=""):
    if not res.ok:
        raise Machinery(f"TLC reported {res.error} on {res.spec} {what}\n{res.trace_text[:3000]}")
    return res


def require_covered(res: TlcResult, actions):
    def alts(a):
        out = []
        for x in a.split("|"):
            out += [x, "Do" + x]
        return out

    missing = [a for a in actions if not any(res.coverage.get(x, (0, 0))[1] > 0 for x in alts(a))]
    if missing:
        raise Machinery(f"vacuous: actions never taken in {res.spec}: {missing}")
