"""Binding between the abstract items of spec/E5Item.tla (as JSON) and the two item APIs of secsgem."""
from __future__ import annotations

import itertools
import struct

import secsgem.secs.variables as var
from secsgem.secs.variables.functions import generate

VCLS = {"B": var.Binary, "BOOLEAN": var.Boolean, "A": var.String, "J": var.JIS8, "I1": var.I1, "I2": var.I2, "I4": var.I4,
        "I8": var.I8, "U1": var.U1, "U2": var.U2, "U4": var.U4, "U8": var.U8, "F4": var.F4, "F8": var.F8}
_uniq = itertools.count()


def num(x):
    v = int.from_bytes(bytes(x["mag"]), "big")
    return -v if x["neg"] else v


def absnum(v, width):
    return {"neg": v < 0, "mag": list(abs(v).to_bytes(width, "big"))}


WIDTH = {"I1": 1, "U1": 1, "I2": 2, "U2": 2, "I4": 4, "U4": 4, "F4": 4, "I8": 8, "U8": 8, "F8": 8}


def pyval(item):
    """Abstract leaf item -> the python value given to the constructors."""
    f, v = item["f"], item["v"]
    if f == "B":
        return bytes(v)
    if f == "BOOLEAN":
        return list(v)
    if f == "A":
        return bytes(v).decode("latin-1")
    if f == "J":
        return "".join(chr(c) for c in v)
    if f in ("F4", "F8"):
        return [struct.unpack(">f" if f == "F4" else ">d", bytes(p))[0] for p in v]
    return [num(x) for x in v]


# ------------------------------------------------------------------------------ variables API
def shape(item):
    f = item["f"]
    if f != "L":
        return f
    return ("L", tuple(shape(c) for c in item["v"]))


def named(fmt, name):
    """Give a data format the field name `name` (a List keys its fields by name)."""
    if not isinstance(fmt, list):
        return type(name, (fmt,), {"name": name})
    body = [x for x in fmt if not isinstance(x, str)]
    if len(body) == 1:
        return [named(body[0], name)]      # an Array takes the name of its element format
    return [name] + body


def vfmt(item):
    """Data format (as accepted by variables.functions.generate) for an abstract item."""
    f = item["f"]
    if f != "L":
        return VCLS[f]
    ch = item["v"]
    if len(ch) == 0:
        return [var.Binary]
    shapes = {shape(c) for c in ch}
    if len(shapes) == 1:
        return [vfmt(ch[0])]
    return [named(vfmt(c), f"N{next(_uniq)}") for c in ch]


def vvalue(item):
    f = item["f"]
    if f != "L":
        return pyval(item)
    return [vvalue(c) for c in item["v"]]


def vbuild(item):
    """Returns (object, data format)."""
    f = item["f"]
    if f != "L":
        return VCLS[f](pyval(item)), VCLS[f]
    fmt = vfmt(item)
    obj = generate(fmt)
    obj.set(vvalue(item))
    return obj, fmt


def vfresh(fmt):
    return generate(fmt) if isinstance(fmt, list) else fmt()


# ------------------------------------------------------------------------------ Item API
def icls(f):
    from secsgem.secs.item import Item

    Item._import_inherited()
    return Item._subclasses_by_sml[f]


def ibuild(item):
    f = item["f"]
    if f == "L":
        return icls("L")([ibuild(c) for c in item["v"]])
    v = pyval(item)
    return icls(f)(v)


def ivalue(item):
    """What Item.value is expected to hold (scalars for one element, lists otherwise)."""
    f = item["f"]
    if f == "L":
        return [ivalue(c) for c in item["v"]]
    v = pyval(item)
    if f in ("B", "A", "J"):
        return v
    if len(v) == 1:
        return v[0]
    return v
