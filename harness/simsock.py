"""Simulated `socket` and `select` modules for running the real TcpClientConnection / TcpServerConnection
under simrt: bounded kernel buffers, partial send, EWOULDBLOCK, FIN, connect refusal, listen/accept.

A Net object is the "network"; the driver can also hold raw endpoints (Net.dial / Net.listen_raw) to play a peer
that reads at its own pace.
"""
from __future__ import annotations

import errno
import socket as _rs
import types

from . import simrt


class Net:
    def __init__(self, capacity=65536, partial=None):
        self.capacity = capacity          # receive buffer of every endpoint (= what a sender can have in flight)
        self.rcvbuf = capacity // 2       # the part of it that is the receiver's kernel buffer (rest: sender's queue)
        self.partial = partial            # optional callable(n_offered, free) -> n_accepted (models short writes)
        self.listeners = {}               # port -> Listener
        self.waiters = []                 # sim threads blocked in select
        self.raw_accept = {}              # port -> list of Endpoint (driver-side listeners)
        self.log = []
        self.cut_after = None             # armed link cut: drop the link after this many more bytes were accepted
        self.time_wait = {}               # port -> virtual time until which it sits in TIME_WAIT (the endpoint closed an accepted connection first)

    def wake(self):
        s = simrt._current
        if s is None:
            return
        for w in self.waiters:
            s._wake(w)
        self.waiters = []

    # ---- driver-side raw endpoints
    def dial(self, port):
        """Driver connects to a listening sim socket; returns its Endpoint (or None if nobody listens)."""
        lst = self.listeners.get(port)
        if lst is None or lst.closed or len(lst.backlog) >= max(1, lst.backlog_size):
            return None
        a, b = Endpoint(self), Endpoint(self)
        a.peer, b.peer = b, a
        lst.backlog.append(b)
        self.wake()
        return a

    def listen_raw(self, port):
        """Driver listens on a port: connecting sim sockets get an Endpoint pair; returns the list that collects
        the driver-side endpoints."""
        self.raw_accept[port] = []
        return self.raw_accept[port]


class Endpoint:
    """One end of an established connection."""

    def __init__(self, net):
        self.net = net
        self.peer: Endpoint | None = None
        self.rx = bytearray()
        self.closed = False       # this end was closed locally
        self.fin = False          # peer closed (EOF after rx drained)
        self.rst = False          # peer closed abortively (SO_LINGER on, 0 s): ECONNRESET after rx drained
        self.total_in = 0
        self.local_port = None    # accepted connections: the listening port (TIME_WAIT bookkeeping)
        self.user_timeout = None  # TCP_USER_TIMEOUT of the socket that writes through this end (seconds)
        self.stall_since = None   # since when bytes written through this end wait, unacknowledged, in the local send queue
        self.aborted = False      # the kernel gave the connection up (TCP_USER_TIMEOUT)

    # driver API
    def free(self):
        return self.net.capacity - len(self.peer.rx)

    def write(self, data: bytes):
        """Driver-side send (may exceed capacity: the driver is not under test)."""
        if self.closed or self.peer.closed:
            return 0
        self.peer.rx += data
        self.peer.total_in += len(data)
        self.net.wake()
        return len(data)

    def _now(self):
        sch = simrt._current
        return sch.now if sch is not None else 0.0

    def before_read(self):
        """TCP_USER_TIMEOUT of the writing side: data that sat unacknowledged in its send queue (everything beyond the reader's
        receive buffer) for longer than the timeout made the kernel abort the connection and discard it."""
        w = self.peer
        if w is not None and w.user_timeout and w.stall_since is not None and not w.aborted:
            if self._now() - w.stall_since > w.user_timeout:
                lost = max(0, len(self.rx) - self.net.rcvbuf)
                if lost:
                    del self.rx[self.net.rcvbuf:]
                self.net.log.append(("user_timeout", lost))
                w.aborted = True
                self.rst = True
                self.fin = True

    def after_read(self):
        w = self.peer
        if w is not None and w.stall_since is not None:
            w.stall_since = None if len(self.rx) <= self.net.rcvbuf else self._now()

    def read(self, n=1 << 30):
        self.before_read()
        data = bytes(self.rx[:n])
        del self.rx[:n]
        self.after_read()
        if data:
            self.net.wake()
        return data

    def close(self, abort=False):
        if not self.closed:
            self.closed = True
            if self.local_port is not None and not abort and self.peer is not None and not self.peer.closed and not self.fin:
                # the accepting side closes an established connection first (FIN, not RST): its port is in TIME_WAIT for 60 s
                self.net.time_wait[self.local_port] = self._now() + 60.0
            if self.peer is not None:
                self.peer.fin = True
                if abort:
                    # close() with SO_LINGER (on, 0): RST instead of FIN, whatever still sits in the local send queue is
                    # discarded.  peer.rx stands for send queue + peer receive buffer; the first rcvbuf bytes are taken
                    # to have reached the peer's receive buffer already.
                    lost = max(0, len(self.peer.rx) - self.net.rcvbuf)
                    if lost:
                        del self.peer.rx[self.net.rcvbuf:]
                        self.net.log.append(("abort", lost))
                    self.peer.rst = True
            self.net.wake()


class Listener:
    def __init__(self):
        self.backlog = []
        self.backlog_size = 1
        self.closed = False


class SimSocket:
    """socket.socket work-alike (stream sockets only)."""

    def __init__(self, family=None, type_=None, proto=0, net=None, ep=None):
        self.net: Net = net if net is not None else current_net()
        self.ep: Endpoint | None = ep
        self.listener: Listener | None = None
        self.port = None
        self.blocking = True
        self.closed = False
        self.opts = {}

    # -- options (recorded; SO_LINGER changes close())
    def setsockopt(self, *a):
        self.opts[tuple(a[:2])] = a[2] if len(a) > 2 else None
        return None

    def _abortive(self):
        v = self.opts.get((_rs.SOL_SOCKET, _rs.SO_LINGER))
        if isinstance(v, (bytes, bytearray)) and len(v) >= 8:
            import struct
            on, secs = struct.unpack("ii", bytes(v[:8]))
            return bool(on) and secs == 0
        return False

    def setblocking(self, flag):
        self.blocking = bool(flag)

    def settimeout(self, t):
        self.blocking = t is None

    def fileno(self):
        return id(self) & 0xFFFF

    # -- server side
    def bind(self, addr):
        simrt.cur_sched().yield_point()
        if self.closed:
            raise OSError(errno.EBADF, "bad file descriptor")
        self.port = addr[1]
        if self.port in self.net.listeners and not self.net.listeners[self.port].closed:
            raise OSError(errno.EADDRINUSE, "address in use")
        tw = self.net.time_wait.get(self.port)
        if tw is not None and simrt.cur_sched().now < tw and not self.opts.get((_rs.SOL_SOCKET, _rs.SO_REUSEADDR)):
            # Linux: a port with a connection in TIME_WAIT can only be bound again by a socket that has SO_REUSEADDR set at bind()
            raise OSError(errno.EADDRINUSE, "address in use (TIME_WAIT)")

    def listen(self, backlog=1):
        if self.closed:
            raise OSError(errno.EBADF, "bad file descriptor")
        self.listener = Listener()
        self.listener.backlog_size = backlog
        self.net.listeners[self.port] = self.listener
        self.net.wake()

    def accept(self):
        s = simrt.cur_sched()
        s.yield_point()
        if self.listener is None or self.closed:
            raise OSError(errno.EBADF, "bad file descriptor")
        while not self.listener.backlog:
            if not self.blocking:
                raise BlockingIOError(errno.EWOULDBLOCK, "would block")
            me = s.me()
            self.net.waiters.append(me)
            s.block(("accept", self.port))
            if self.closed:
                raise OSError(errno.EBADF, "bad file descriptor")
        ep = self.listener.backlog.pop(0)
        ep.local_port = self.port
        return SimSocket(net=self.net, ep=ep), ("127.0.0.1", 40000)

    # -- client side
    def connect(self, addr):
        s = simrt.cur_sched()
        s.yield_point()
        port = addr[1]
        self.net.log.append(("connect", port, round(s.now, 3)))
        if port in self.net.raw_accept:
            a, b = Endpoint(self.net), Endpoint(self.net)
            a.peer, b.peer = b, a
            self.ep = a
            self.net.raw_accept[port].append(b)
            self.net.wake()
            return
        lst = self.net.listeners.get(port)
        if lst is None or lst.closed or len(lst.backlog) >= max(1, lst.backlog_size):
            raise ConnectionRefusedError(errno.ECONNREFUSED, "connection refused")
        a, b = Endpoint(self.net), Endpoint(self.net)
        a.peer, b.peer = b, a
        self.ep = a
        lst.backlog.append(b)
        self.net.wake()

    # -- data
    def send(self, data):
        s = simrt.cur_sched()
        s.yield_point()
        if self.closed or self.ep is None:
            raise OSError(errno.EBADF, "bad file descriptor")
        if self.ep.peer.closed or self.ep.fin and False:
            raise BrokenPipeError(errno.EPIPE, "broken pipe")
        if self.ep.aborted:
            raise TimeoutError(errno.ETIMEDOUT, "connection timed out (TCP_USER_TIMEOUT)")
        ut = self.opts.get((getattr(_rs, "IPPROTO_TCP", 6), getattr(_rs, "TCP_USER_TIMEOUT", 18)))
        self.ep.user_timeout = (ut / 1000.0) if isinstance(ut, (int, float)) and ut > 0 else None
        free = self.ep.free()
        if free <= 0:
            raise BlockingIOError(errno.EWOULDBLOCK, "would block")
        n = min(len(data), free)
        if self.net.partial is not None:
            n = max(1, min(n, self.net.partial(len(data), free)))
        if self.net.cut_after is not None:
            if n >= self.net.cut_after:
                # the link drops in the middle of this write: only the first bytes get through, both directions die
                k = self.net.cut_after
                self.net.cut_after = None
                self.ep.peer.rx += bytes(data[:k])
                self.ep.peer.total_in += k
                self.net.log.append(("cut", len(data), k))
                self.ep.fin = True
                self.ep.peer.fin = True
                self.ep.peer.closed = False
                self.ep.cutoff = True
                self.ep.peer.cutoff = True
                self.net.wake()
                return n
            self.net.cut_after -= n
        if getattr(self.ep, "cutoff", False):
            return n          # bytes written into a dead link vanish
        self.ep.peer.rx += bytes(data[:n])
        self.ep.peer.total_in += n
        if len(self.ep.peer.rx) > self.net.rcvbuf and self.ep.stall_since is None:
            self.ep.stall_since = s.now
        self.net.log.append(("send", len(data), n))
        self.net.wake()
        return n

    def sendall(self, data):
        total = 0
        while total < len(data):
            try:
                total += self.send(data[total:])
            except BlockingIOError:
                s = simrt.cur_sched()
                self.net.waiters.append(s.me())
                s.block(("sendall",), 0.01)
        return None

    def recv(self, n):
        s = simrt.cur_sched()
        s.yield_point()
        if self.closed or self.ep is None:
            raise OSError(errno.EBADF, "bad file descriptor")
        while not self.ep.rx:
            if self.ep.rst:
                raise ConnectionResetError(errno.ECONNRESET, "connection reset by peer")
            if self.ep.fin:
                return b""
            if not self.blocking:
                raise BlockingIOError(errno.EWOULDBLOCK, "would block")
            self.net.waiters.append(s.me())
            s.block(("recv",))
        self.ep.before_read()
        data = bytes(self.ep.rx[:n])
        del self.ep.rx[:n]
        self.ep.after_read()
        self.net.wake()
        return data

    def shutdown(self, how):
        return None

    def close(self):
        if self.closed:
            return
        self.closed = True
        if self.listener is not None:
            self.listener.closed = True
            for ep in self.listener.backlog:
                ep.close()
            if self.net.listeners.get(self.port) is self.listener:
                del self.net.listeners[self.port]
        if self.ep is not None:
            self.ep.close(abort=self._abortive())
        self.net.wake()

    # -- readiness for select
    def _readable(self):
        if self.closed:
            # observed on Linux/CPython with the real classes: a select() that is already waiting on a listening
            # socket returns it as readable when another thread closes it (the following accept() raises EBADF)
            return True
        if self.listener is not None:
            return bool(self.listener.backlog)
        if self.ep is None:
            return False
        return bool(self.ep.rx) or self.ep.fin

    def _writable(self):
        if self.closed or self.ep is None:
            return self.closed
        return self.ep.free() > 0 or self.ep.peer.closed


_net: Net | None = None


def current_net() -> Net:
    if _net is None:
        raise simrt.SimError("no simulated network installed")
    return _net


def set_net(net: Net | None):
    global _net
    _net = net


def sim_select(rlist, wlist, xlist, timeout=None):
    s = simrt.cur_sched()
    s.yield_point()
    end = None if timeout is None else s.now + timeout
    net = current_net()
    for sock in list(rlist) + list(wlist):
        if getattr(sock, "closed", False):
            # select() called on an already closed socket: fileno() is -1
            raise ValueError("file descriptor cannot be a negative integer (-1)")
    while True:
        r = [x for x in rlist if x._readable()]
        w = [x for x in wlist if x._writable()]
        if r or w:
            return r, w, []
        rem = None
        if end is not None:
            rem = end - s.now
            if rem <= 0:
                return [], [], []
        net.waiters.append(s.me())
        s.block(("select",), rem)
        if s.me() in net.waiters:
            net.waiters.remove(s.me())


# every constant of the real module (AF_*, SOL_*, SO_*, SHUT_*, TCP_*, ...), the socket class replaced
socket_shim = types.SimpleNamespace(**{k: v for k, v in vars(_rs).items() if k.isupper() and isinstance(v, int)})
socket_shim.socket = SimSocket
socket_shim.error = OSError
socket_shim.timeout = _rs.timeout
select_shim = types.SimpleNamespace(select=sim_select)


def install():
    simrt.install(extra={"socket": socket_shim, "select": select_shim})
