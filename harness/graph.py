"""Paths through a labelled transition relation dumped by TLC (edges: {from, inp, out, to})."""
from __future__ import annotations

import json
import random
from collections import deque


def key(x):
    return json.dumps(x, sort_keys=True)


class Graph:
    def __init__(self, edges, inits=None):
        self.edges = edges
        self.succ = {}
        for e in edges:
            self.succ.setdefault(key(e["from"]), []).append(e)
        tos = {key(e["to"]) for e in edges}
        if inits is None:
            inits = [e["from"] for e in edges if key(e["from"]) not in tos]
        self.inits = []
        seen = set()
        for i in inits:
            if key(i) not in seen:
                seen.add(key(i))
                self.inits.append(i)
        # shortest paths (as edge lists) from any init
        self.path = {}
        dq = deque()
        for i in self.inits:
            self.path[key(i)] = []
            dq.append(key(i))
        while dq:
            k = dq.popleft()
            for e in self.succ.get(k, []):
                kt = key(e["to"])
                if kt not in self.path:
                    self.path[kt] = self.path[k] + [e]
                    dq.append(kt)

    def edge_cover(self):
        """One path (list of edges) per edge: shortest prefix + the edge."""
        out = []
        for e in self.edges:
            k = key(e["from"])
            if k in self.path:
                out.append(self.path[k] + [e])
        return out

    def merged_cover(self, max_len=40, rng=None):
        """Fewer, longer paths that together cover every edge (greedy walk preferring uncovered edges)."""
        rng = rng or random.Random(0)
        unc = {}          # state key -> list of uncovered out-edges
        for k, es in self.succ.items():
            if k in self.path:
                unc[k] = list(es)
        total = sum(len(v) for v in unc.values())
        # state-level adjacency with one representative edge per distinct successor state
        adj = {}
        for k, es in self.succ.items():
            seen = {}
            for e in es:
                kt = key(e["to"])
                if kt not in seen:
                    seen[kt] = e
            adj[k] = list(seen.items())
        paths = []
        while total > 0:
            cur = key(rng.choice(self.inits))
            p = []
            progressed = False
            while len(p) < max_len:
                lst = unc.get(cur)
                if lst:
                    e = lst.pop(rng.randrange(len(lst)))
                    total -= 1
                    progressed = True
                else:
                    e = self._toward_uncovered(cur, unc, adj)
                    if e is None:
                        break
                p.append(e)
                cur = key(e["to"])
            if not p or not progressed:
                # unreachable leftovers from this init: try shortest-path prefix to some state with uncovered edges
                k = next((k for k, v in unc.items() if v), None)
                if k is None:
                    break
                e = unc[k].pop()
                total -= 1
                paths.append(self.path[k] + [e])
                continue
            paths.append(p)
        return paths

    def _toward_uncovered(self, cur, unc, adj):
        seen = {cur}
        dq = deque([(cur, None)])
        while dq:
            k, first = dq.popleft()
            for kt, e in adj.get(k, []):
                if kt in seen:
                    continue
                f = first or e
                if unc.get(kt):
                    return f
                seen.add(kt)
                dq.append((kt, f))
        return None

    def random_walks(self, n, length, rng):
        out = []
        for _ in range(n):
            cur = key(rng.choice(self.inits))
            p = []
            for _ in range(length):
                es = self.succ.get(cur, [])
                if not es:
                    break
                e = rng.choice(es)
                p.append(e)
                cur = key(e["to"])
            out.append(p)
        return out
