"""Paths through a labelled transition relation dumped by TLC (edges: {from, inp, out, to})."""
from __future__ import annotations

import json
import random
from collections import deque


def key(x):
    return json.dumps(x, sort_keys=True)


class Graph:
    def __init__(self, edges, inits=None):
        self.edges = edges
        self.succ = {}
        for e in edges:
            self.succ.setdefault(key(e["from"]), []).append(e)
        tos = {key(e["to"]) for e in edges}
        if inits is None:
            inits = [e["from"] for e in edges if key(e["from"]) not in tos]
        self.inits = []
        seen = set()
        for i in inits:
            if key(i) not in seen:
                seen.add(key(i))
                self.inits.append(i)
        # shortest paths (as edge lists) from any init
        self.path = {}
        dq = deque()
        for i in self.inits:
            self.path[key(i)] = []
            dq.append(key(i))
        while dq:
            k = dq.popleft()
            for e in self.succ.get(k, []):
                kt = key(e["to"])
                if kt not in self.path:
                    self.path[kt] = self.path[k] + [e]
                    dq.append(kt)

    def edge_cover(self):
        """One path (list of edges) per edge: shortest prefix + the edge."""
        out = []
        for e in self.edges:
            k = key(e["from"])
            if k in self.path:
                out.append(self.path[k] + [e])
        return out

    def merged_cover(self, max_len=40, rng=None):
        """Fewer, longer paths that together cover every edge (greedy walk preferring uncovered edges)."""
        rng = rng or random.Random(0)
        uncovered = {id(e) for e in self.edges if key(e["from"]) in self.path}
        paths = []
        guard = 0
        while uncovered and guard < 100000:
            guard += 1
            # start from an init, walk preferring uncovered edges; else move along shortest path to one
            start = rng.choice(self.inits)
            cur = key(start)
            p = []
            while len(p) < max_len:
                cands = [e for e in self.succ.get(cur, []) if id(e) in uncovered]
                if cands:
                    e = rng.choice(cands)
                else:
                    # BFS to nearest state with uncovered out-edge
                    tgt = self._nearest(cur, uncovered)
                    if tgt is None:
                        break
                    e = tgt
                p.append(e)
                uncovered.discard(id(e))
                cur = key(e["to"])
            if not p:
                break
            paths.append(p)
        return paths

    def _nearest(self, cur, uncovered):
        seen = {cur}
        dq = deque([(cur, None)])
        while dq:
            k, first = dq.popleft()
            for e in self.succ.get(k, []):
                f = first or e
                if id(e) in uncovered:
                    return f
                kt = key(e["to"])
                if kt not in seen:
                    seen.add(kt)
                    dq.append((kt, f))
        return None

    def random_walks(self, n, length, rng):
        out = []
        for _ in range(n):
            cur = key(rng.choice(self.inits))
            p = []
            for _ in range(length):
                es = self.succ.get(cur, [])
                if not es:
                    break
                e = rng.choice(es)
                p.append(e)
                cur = key(e["to"])
            out.append(p)
        return out
