#!/bin/sh
# tools/confirm_seed.sh <ID> : confirm a seeded change in its scratch worktree /tmp/wt/<ID> using /tmp/wt_out/<ID>/{patch.diff,demo.py}
id=$1; wt=${SEED_WT:-/tmp/wt}/$id; out=${SEED_OUT:-/tmp/wt_out}/$id
git -C $wt checkout -q -- . || exit 2
PYTHONPATH=$wt timeout 300 /venv/bin/python $out/demo.py > $out/demo_unchanged.log 2>&1; d0=$?
git -C $wt apply $out/patch.diff || { echo "$id: patch does not apply"; exit 2; }
files=$(git -C $wt diff --stat | tail -1)
(cd $wt && PYTHONPATH=$wt timeout 900 /venv/bin/python -m pytest -q -p no:cacheprovider --no-cov 2>&1 | tail -1) > $out/tests_with_change.log; t=$(cat $out/tests_with_change.log)
PYTHONPATH=$wt timeout 300 /venv/bin/python $out/demo.py > $out/demo_changed.log 2>&1; d1=$?
echo "$id: demo unchanged rc=$d0, with change rc=$d1; tests: $t; diff: $files"
