#!/venv/bin/python
"""Parallel variant of seed_eval.py: every seeded change is applied to a scratch worktree of /repo's HEAD (never to /repo itself),
the quick checks listed for it are run against that tree (VERIF_REPO), the worktree is reset.  Runs from a snapshot of /verif so
that the drivers cannot change under it; writes caught_by into seeded/<id>/meta.json of THIS tree and regenerates seeded/README.md.
usage: tools/seed_eval_par.py [-j N] [id ...]"""
import json
import os
import shutil
import subprocess
import sys
from concurrent.futures import ThreadPoolExecutor

HERE = os.path.dirname(os.path.dirname(os.path.abspath(__file__)))
sys.path.insert(0, os.path.join(HERE, "tools"))
from seed_eval import EXTRA  # noqa: E402


def sh(cmd, **kw):
    return subprocess.run(cmd, shell=True, capture_output=True, text=True, **kw)


def main():
    args = sys.argv[1:]
    jobs = 4
    if args[:1] == ["-j"]:
        jobs = int(args[1])
        args = args[2:]
    ids = args or sorted(d for d in os.listdir(os.path.join(HERE, "seeded")) if os.path.exists(os.path.join(HERE, "seeded", d, "meta.json")))
    snap = "/tmp/se_snap"
    shutil.rmtree(snap, ignore_errors=True)
    sh(f"rsync -a --exclude .git --exclude '.work*' --exclude evidence/replays {HERE}/ {snap}/")
    head = sh("git -C /repo rev-parse HEAD").stdout.strip()
    for k in range(jobs):
        sh(f"git -C /repo worktree remove --force /tmp/se_wt{k}")
        r = sh(f"git -C /repo worktree add --detach /tmp/se_wt{k} {head}")
        assert r.returncode == 0, r.stderr
    free = list(range(jobs))

    def one(sid):
        k = free.pop()
        try:
            wt = f"/tmp/se_wt{k}"
            d = os.path.join(HERE, "seeded", sid)
            meta = json.load(open(os.path.join(d, "meta.json")))
            sh(f"git -C {wt} checkout -- .")
            r = sh(f"git -C {wt} apply {d}/patch.diff")
            if r.returncode:
                print(sid, "patch does not apply", r.stderr[:200], flush=True)
                return
            results = {}
            for cid in [meta["property"]] + EXTRA.get(sid, EXTRA.get(meta["property"], [])):
                env = f"VERIF_REPO={wt} VERIF_WORK=/tmp/se_work{k} VERIF_EVID=/tmp/se_evid{k}"
                try:
                    out = sh(f"cd {snap} && {env} ./check {cid} --tier quick", timeout=3000)
                    rc, txt = out.returncode, out.stdout
                except subprocess.TimeoutExpired:
                    rc, txt = 124, ""
                viol = [l for l in txt.splitlines() if l.startswith("VIOLATION")]
                what = [l.strip()[6:] for l in txt.splitlines() if l.strip().startswith("what:")]
                results[cid] = {"exit": rc, "violations": len(viol), "first": what[0][:300] if what else ""}
                print(sid, cid, "exit", rc, len(viol), "violation lines;", (what[0][:140] if what else ""), flush=True)
            sh(f"git -C {wt} checkout -- .")
            meta["checks_on_repo_with_change"] = results
            meta["checked_on"] = f"scratch worktree of /repo at {head[:7]} with the change applied (VERIF_REPO)"
            meta["caught_by"] = [c for c, v in results.items() if v["exit"] == 1]
            json.dump(meta, open(os.path.join(d, "meta.json"), "w"), indent=1)
        finally:
            free.append(k)

    with ThreadPoolExecutor(max_workers=jobs) as ex:
        list(ex.map(one, ids))
    for k in range(jobs):
        sh(f"git -C /repo worktree remove --force /tmp/se_wt{k}")
        shutil.rmtree(f"/tmp/se_work{k}", ignore_errors=True)
        shutil.rmtree(f"/tmp/se_evid{k}", ignore_errors=True)
    sh("git -C /repo worktree prune")
    shutil.rmtree(snap, ignore_errors=True)
    rows = []
    for sid in sorted(os.listdir(os.path.join(HERE, "seeded"))):
        mp = os.path.join(HERE, "seeded", sid, "meta.json")
        if not os.path.exists(mp):
            continue
        m = json.load(open(mp))
        rows.append(f"| {sid} | {m['property']} | {m['summary'][:150]} | {(m.get('needs_to_manifest') or '')[:150]} | {', '.join(m.get('caught_by', [])) or '-'} |")
    with open(os.path.join(HERE, "seeded", "README.md"), "w") as f:
        f.write("# Seeded changes (each breaks a property while the existing suite passes)\n\n"
                "Produced by independent sub-agents from the property text only; confirmed in scratch worktrees (demo passes on the\n"
                "unchanged tree, fails with the change, 2834 tests pass with the change); then the quick checks were run against a tree with\n"
                "the change applied (tools/seed_eval.py: applied to /repo and undone; tools/seed_eval_par.py: scratch worktrees of /repo's HEAD).\n"
                "Changes that were superseded or not accepted are under seeded/obsolete/ with the reason.\n\n"
                "| seed | property | change | needs | caught by (exit 1) |\n|---|---|---|---|---|\n" + "\n".join(rows) + "\n")


if __name__ == "__main__":
    main()
