#!/bin/sh
# tools/sweep.sh <seed>... : run every quick check with other VERIF_SEED values against a clean scratch worktree (VERIF_REPO, default
# /tmp/clean) in separate work / evidence directories; prints one line per (check, seed). A violation here on the unchanged tree would
# be a flaky check.
repo=${VERIF_REPO:-/tmp/clean}
for sd in "$@"; do
  for id in C01 C02 C03 C04 C05 C06 C07 C08 C09 C10 C11 C12 C13 C14 C15 C16 C17 C18 C19 C20; do
    VERIF_REPO=$repo VERIF_SEED=$sd VERIF_WORK=/tmp/sweep_work VERIF_EVID=/tmp/sweep_evid ./check $id --tier quick > /tmp/sweep_$id.log 2>&1
    rc=$?
    echo "seed=$sd $id rc=$rc $(grep -c '^VIOLATION' /tmp/sweep_$id.log) :: $(grep -m1 'what:' /tmp/sweep_$id.log | cut -c1-200)"
  done
done
