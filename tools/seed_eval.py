#!/venv/bin/python
"""Apply every seeded change under /verif/seeded/<id>/patch.diff to /repo, run the listed checks (quick), undo; write
the outcome into seeded/<id>/meta.json and regenerate seeded/README.md.   usage: tools/seed_eval.py [id ...]"""
import json
import os
import subprocess
import sys

HERE = os.path.dirname(os.path.dirname(os.path.abspath(__file__)))
EXTRA = {"C20": ["C09"], "C02": ["C01"], "C04": ["C09"], "C17-2": ["C16"], "C05-2": ["C09"], "C20-2": ["C06"], "C02-2": [], "C04-2": [],
         "C16-2": ["C17"], "C06-2": ["C20"], "C06-3": ["C04"], "C08-3": ["C04"], "C05-3": [], "C20-3": ["C07"], "C17-3": ["C16"], "C03-3": ["C19"],
         "C19-3": ["C03"], "C01-3": ["C02"], "C02-3": ["C01"]}


def sh(cmd, **kw):
    return subprocess.run(cmd, shell=True, capture_output=True, text=True, **kw)


def main():
    ids = sys.argv[1:] or sorted(d for d in os.listdir(os.path.join(HERE, "seeded")) if os.path.isdir(os.path.join(HERE, "seeded", d)))
    assert sh("git -C /repo status --porcelain").stdout.strip() == "", "/repo is not clean"
    for sid in ids:
        d = os.path.join(HERE, "seeded", sid)
        meta = json.load(open(os.path.join(d, "meta.json")))
        r = sh(f"git -C /repo apply {d}/patch.diff")
        if r.returncode:
            print(sid, "patch does not apply", r.stderr[:200])
            continue
        results = {}
        try:
            for cid in [meta["property"]] + EXTRA.get(sid, EXTRA.get(meta["property"], [])):
                out = sh(f"cd {HERE} && ./check {cid} --tier quick", timeout=3000)
                viol = [l for l in out.stdout.splitlines() if l.startswith("VIOLATION")]
                what = [l.strip()[6:] for l in out.stdout.splitlines() if l.strip().startswith("what:")]
                results[cid] = {"exit": out.returncode, "violations": len(viol), "first": what[0][:300] if what else ""}
                print(sid, cid, "exit", out.returncode, len(viol), "violation lines;", (what[0][:140] if what else ""))
        finally:
            sh("git -C /repo checkout -- .")
        meta["checks_on_repo_with_change"] = results
        meta["caught_by"] = [c for c, v in results.items() if v["exit"] == 1]
        json.dump(meta, open(os.path.join(d, "meta.json"), "w"), indent=1)
    # table
    rows = []
    for sid in sorted(os.listdir(os.path.join(HERE, "seeded"))):
        mp = os.path.join(HERE, "seeded", sid, "meta.json")
        if not os.path.exists(mp):
            continue
        m = json.load(open(mp))
        rows.append(f"| {sid} | {m['property']} | {m['summary'][:150]} | {m['needs_to_manifest'][:150]} | {', '.join(m.get('caught_by', [])) or '-'} |")
    with open(os.path.join(HERE, "seeded", "README.md"), "w") as f:
        f.write("# Seeded changes (each breaks a property while the existing suite passes)\n\n"
                "Produced by independent sub-agents from the property text only; confirmed in scratch worktrees (demo passes on the\n"
                "unchanged tree, fails with the change, 2834 tests pass with the change); then applied to /repo, checks run, undone.\n\n"
                "| seed | property | change | needs | caught by (exit 1) |\n|---|---|---|---|---|\n" + "\n".join(rows) + "\n")
    assert sh("git -C /repo status --porcelain").stdout.strip() == "", "/repo left dirty"


if __name__ == "__main__":
    main()
