#!/bin/sh
# tools/try_seed.sh <worktree-with-change-applied> <check id>...   -- run checks against a scratch tree (does not touch /repo, nor
# /verif/.work and /verif/evidence: separate scratch directories, so it can run beside other runs)
wt=$1; shift
for id in "$@"; do
  VERIF_REPO=$wt VERIF_WORK=/tmp/try_work_${SEED_TAG}$id VERIF_EVID=/tmp/try_evid_${SEED_TAG}$id ./check $id --tier quick > /tmp/seed_${SEED_TAG}$id.log 2>&1
  echo "$id rc=$? viol=$(grep -c '^VIOLATION' /tmp/seed_${SEED_TAG}$id.log) :: $(grep -m2 'what:' /tmp/seed_${SEED_TAG}$id.log | tr '\n' ' ' | cut -c1-260)"
  rm -rf /tmp/try_work_${SEED_TAG}$id
done
