#!/bin/sh
# tools/try_seed.sh <worktree-with-change-applied> <check id>...   -- run checks against a scratch tree (does not touch /repo)
wt=$1; shift
for id in "$@"; do
  VERIF_REPO=$wt ./check $id --tier quick > /tmp/seed_${SEED_TAG}$id.log 2>&1
  echo "$id rc=$? viol=$(grep -c '^VIOLATION' /tmp/seed_${SEED_TAG}$id.log) :: $(grep -m2 'what:' /tmp/seed_${SEED_TAG}$id.log | tr '\n' ' ' | cut -c1-260)"
done
