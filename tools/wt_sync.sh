#!/bin/sh
# tools/wt_sync.sh <ID>... : move scratch worktree $SEED_WT/<ID> to /repo's HEAD and re-apply $SEED_OUT/<ID>/patch.diff
head=$(git -C /repo rev-parse HEAD)
for id in "$@"; do
  wt=${SEED_WT:-/tmp/wt}/$id; out=${SEED_OUT:-/tmp/wt_out}/$id
  git -C $wt checkout -q -- . && git -C $wt checkout -q --detach $head && git -C $wt apply $out/patch.diff && echo "$id synced" || echo "$id: FAILED"
done
