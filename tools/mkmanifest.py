#!/venv/bin/python
"""Regenerate MANIFEST.json from the table below (single source of truth for what is claimed)."""
import json
import os
import sys

HERE = os.path.dirname(os.path.dirname(os.path.abspath(__file__)))

BASELINE_OFF = ("cd /repo && env -u SECSGEM_VERIF /venv/bin/python -m pytest -ra -q -p no:cacheprovider --timeout=900 "
                "--continue-on-collection-errors")

CLAIMED = {
    "C18": dict(
        technique="TLA+ monitor SmAbs + code-shaped SmEngine checked by TLC; TLC-generated transition relation replayed "
                  "on the real engine; recorded executions (incl. two threads under a deterministic scheduler) judged by TLC",
        text="TLC explores the code-shaped engine model (every interleaving of two requesters, nested requests) against the "
             "monitor SmAbs for the shipped machines (introspected from the live objects) and generated hierarchical "
             "machines; every (machine, state, request) edge of the monitor is replayed on the real engine and every "
             "recorded observation is judged by TLC. Bounded model checking bound to the code by replay/validation.",
        note="SmAbs is my reading of the property; simrt shims are trusted to implement CPython primitive semantics; "
             "line-level schedules of the real engine are sampled, not exhausted",
        design="5/C18"),
    "C05": dict(
        technique="TLA+ monitor E37Mon/E37Session checked by TLC; its transition relation replayed on the real HsmsProtocol "
                  "under a deterministic scheduler (incl. PCT schedules for messages in flight at accept); every recorded "
                  "execution validated by TLC (E37Judge); thread-level TLA+ model HsmsEndpoint checked exhaustively by TLC and "
                  "bound to the code by event-trace validation (HsmsEndpointTrace)",
        text="The E37 connect/select model is a TLA+ monitor whose complete labelled transition relation TLC enumerates; every "
             "edge (shortest history), random walks and every (Connect, message-in-flight) pair under PCT/random thread "
             "schedules are executed on the real HsmsProtocol and each recorded step (frames, events, deliveries, state) is "
             "validated against the monitor by TLC. Histories exhaustive at transition granularity; schedules sampled. "
             "Connection establishment and the select procedure are additionally modelled one action per shared-state access "
             "(conn thread, receive path, dispatcher, select thread, peer); TLC checks that model for all interleavings and "
             "validates recorded executions of the real code (one event per access, captured with sys.settrace) as its behaviours.",
        note="FakeConnection mirrors TcpConnection's threads; T7/T8 not modelled (absent in code and property alphabet); "
             "linktest timer silenced in these histories",
        design="5/C05"),
    "C04": dict(
        technique="TLA+ codec HsmsFrame (theorems over a boundary universe, vectors replayed on secsgem.hsms) + code-shaped "
                  "framing model FrameStream checked by TLC + recorded segmentation runs of the real receive path validated "
                  "by TLC (FrameJudge)",
        text="E37 frame layout is an executable TLA+ definition; TLC proves round trip on ~12k boundary vectors which are "
             "replayed byte-exact against HsmsMessage/HsmsBlock. Reassembly: TLC explores every partition of bounded streams "
             "in the code-shaped framing model (safety + liveness); the real HsmsProtocol receive path is fed all partitions "
             "with <= 3 segments, byte-wise and random partitions under fifo/random/PCT schedules and TLC validates the "
             "deliveries recorded after every segment.",
        note="frames with SType outside the E37 table are outside the property; partitions of long streams are sampled; the "
             "receiver / dispatcher loops are additionally modelled (DispatcherLoops) and bound by trace validation",
        design="5/C04"),
    "C09": dict(
        technique="implementation-shaped TLA+ model HsmsClose (threads as processes; safety + liveness by TLC) + fault "
                  "scenarios at every byte offset executed on the real endpoint under a deterministic scheduler with wedge "
                  "detection, records validated by TLC (CloseJudge)",
        text="TLC checks that the close sequence as coded always finishes and ends clean for every cut of the inbound stream "
             "and every interleaving of connection, receiver and application thread (the original blocking loop is kept as a "
             "regression witness that TLC must refute). The real endpoint is driven through every byte offset of four streams "
             "x session state x {peer close, disable(), reconnect+select} under fifo/PCT/random schedules; virtual time makes "
             "'blocked forever' observable; each scenario record is validated by TLC. The hand-over of outbound blocks between sending "
             "threads, the receiver loop and the connection thread's Separate.req is the model SendHandover (CloseFinishes, "
             "NoStrandedBlock; the original early return after a failed send is a witness TLC must refute); 1-3 threads sending "
             "through the real HsmsProtocol over the real TCP classes while the peer leaves must end NOT CONNECTED with disable() returning. "
             "The restart of the listening / connection thread by the close handling against disable() is TcpServerRestart / "
             "TcpClientRestart (witnesses of fixes 8526f9b / 8a4dcbb); a client disabled while its close handling runs must not connect again.",
        note="FakeConnection mirrors TcpConnection's close sequence; kernel TCP behaviour is not part of this check; "
             "schedules sampled",
        category="fault_enumeration",
        design="5/C09"),
    "C06": dict(
        technique="implementation-shaped TLA+ model Transactions (callers, counter, response queues, dispatcher threads, peer) "
                  "checked by TLC over all interleavings + real caller threads under a deterministic scheduler (PCT, line-level "
                  "preemption) with the driver as peer; event traces validated by TLC against the monitor TxMon and, one event per "
                  "shared-state access, as behaviours of Transactions itself (TransactionsTrace)",
        text="TLC explores every interleaving of 3 callers, the peer (replies in any order/never, unsolicited primaries), the "
             "dispatcher and a reconnect in the code-shaped model (the original non-atomic counter and per-connection dispatcher "
             "are kept as regression witnesses TLC must refute). Real HsmsProtocol: 2-4 caller threads, replies permuted/late/"
             "missing, unsolicited primaries, reconnects, counter wrap-around, under PCT/random/fifo schedules with line-level "
             "preemption in the counter/queue/dispatcher code, instant replies while the requesting thread resumes late; every event "
             "trace is folded through TxMon by TLC, and the fine-grained event trace of every run (system bytes handed out, queue "
             "registered, request written, message taken, queue put, hand-over begin/end, queue removed) must be a behaviour of "
             "the Transactions model. Primaries of the peer that carry the system bytes of an open request (PeerCollide; witness: "
             "routing by system bytes alone) and a link lost inside an inbound frame before the reconnect are part of model and runs. The "
             "same promises are checked over SECS-I with both stations wanting the line at the same moment (callers judged by TxMon); the "
             "wedge of the unchanged library with three or more transfers at once is a known finding.",
        note="schedules of the real code are sampled (PCT depth 3), not exhausted; messages still queued for dispatch when the "
             "link drops are treated as in flight at link loss",
        design="5/C06"),
    "C07": dict(
        technique="nondeterministic TLA+ monitor E30CommMon/E30Comm checked by TLC; its transition relation replayed on real "
                  "GemHostHandler/GemEquipmentHandler in virtual time; every recorded step validated by TLC (E30CommJudge, subset "
                  "construction)",
        text="The E30 establish-communications model is a TLA+ monitor (EstablishedOnlyAfterExchange, RetryAfterDelay, "
             "NoCallbackUnlessCommunicating checked by TLC on all histories). One shortest history per monitor edge and random "
             "walks of 35 inputs (enable/disable, link up/lost, S1F13, S1F14 with COMMACK 0/1, other messages, timer expiries at "
             "exact virtual deadlines) run on real host and equipment handlers in both HSMS modes; TLC validates frames, COMMACK, "
             "events, callback invocations, timer spacing and state of every step.",
        note="timer expiry order is the virtual-time order (no racing of T3 against an arriving S1F14 at the same instant); "
             "stale S1F14 (non-matching system bytes) is accepted by the monitor as an exchange on the current link",
        design="5/C07"),
    "C08": dict(
        technique="TLA+ decision-table monitor ReplyMon (+ behaviour spec ReplyDiscipline checked by TLC); real host/equipment "
                  "handlers fed every catalogued S/F x W x body class and uncatalogued S/F numbers; each (inbound, answers) record "
                  "judged by TLC (ReplyJudge)",
        text="What must be answered is a TLA+ decision table over (callback class, W-bit, body class); TLC checks the behaviour "
             "spec built on it (one answer at most, none without request, independent of history). Real GemHostHandler and "
             "GemEquipmentHandler in COMMUNICATING receive all 134 catalogued functions x W x {well-formed, malformed, empty, "
             "trailing byte} and uncatalogued S/F pairs (thorough: all 128x256) in shuffled long sequences plus probe callbacks; "
             "TLC judges the outbound messages carrying each inbound message's system bytes.",
        note="callback class per S/F is read from the handler's public callback table; unrelated outbound traffic ignored",
        design="5/C08"),
    "C12": dict(
        technique="nondeterministic TLA+ monitor ReportMon / behaviour spec ReportGen checked by TLC; complete core transition "
                  "relation + random walks replayed on a real GemEquipmentHandler; every step validated by TLC (ReportJudge)",
        text="E5 semantics of S2F33/35/37, S6F15 and triggers over small id domains form a TLA+ monitor; TLC checks Integrity, "
             "RefusedChangesNothing and ReportWellFormed on all histories (16k states, 3M transitions) and dumps the complete "
             "core-alphabet relation (22k edges), all of which are replayed (covering walks) together with random walks over the "
             "147-request alphabet on a real equipment handler; acknowledge codes, decoded S6F16/S6F11 contents, aborts and the "
             "public report/link tables after each step are validated by TLC.",
        note="id domains are small (2+1 reports, 2+1 events, 2+1 variables); requests have at most two entries",
        design="5/C12"),
    "C11": dict(
        technique="TLA+ monitor E30ControlMon/E30Control checked by TLC; its transition relation replayed on a real "
                  "GemEquipmentHandler (driver as host and operator, virtual T3 for the unanswered probe); every step validated by "
                  "TLC (E30ControlJudge)",
        text="The E30 control model (all 8 initial configurations, remembered sub-state, ONLACK/OFLACK codes, collection events on "
             "transitions, control-state status variable) is a TLA+ monitor checked by TLC on all histories; one shortest history "
             "per monitor edge plus random walks run on a real equipment handler with the attempt-online probe answered, aborted "
             "or left unanswered; reply codes, S6F11 CEIDs, refusals, state and SV of each step are validated by TLC.",
        note="communication is established before each history; link loss during a history is C07's subject",
        design="5/C11"),
    "C13": dict(
        technique="nondeterministic TLA+ monitor GemDataMon/GemData checked by TLC; walks over its alphabet / transition relation "
                  "replayed on a real GemEquipmentHandler; every step validated by TLC (GemDataJudge)",
        text="Replies of S1F3/S1F11/S2F13/S2F29/S5F5/S5F7, all-or-nothing and bounds of S2F15, S5F3 and S5F1 reporting are a TLA+ "
             "monitor (1920 states, 232k transitions; ConstantsWithinBounds, AllOrNothing, AlarmReportIffEnabledChange checked by "
             "TLC). Random walks of 40 requests over the 121-request alphabet (thorough: 3000 walks of 60 requests) run "
             "on a real equipment handler with numeric and text ids; decoded replies, S5F1 reports and the constant/alarm tables "
             "after every step are validated by TLC. The predefined Clock variable is read at frozen equipment-clock instants "
             "(sub-second parts around every digit boundary) in TimeFormat 0/1/2 set through S2F15; ClockJudge (TLC) decides each reply. Every "
             "history of 4 (5) enable / disable / set / clear operations on one alarm is replayed as well.",
        note="two user SVs, four ECs, two alarms; value classes below/min/inside/max/above; other predefined SVs masked in the walks; "
             "the equipment's clock is replaced through the module-level datetime reference (falls back to the wall-clock window)",
        design="5/C13"),
    "C01": dict(
        technique="executable TLA+ reference codec E5Item; TLC proves round-trip/prefix-freeness/minimal-header on a boundary "
                  "universe (E5Universe) whose members are replayed as vectors on secs.variables; random values recorded from the "
                  "real encoder are judged by TLC (E5Judge)",
        text="SEMI E5 item encoding is an executable TLA+ definition (two's complement over byte limbs, JIS-8 table, length-byte "
             "rule). TLC proves the codec theorems on ~5k boundary items (all integer widths at min/max/+-1, critical and all "
             "single bytes, finite float patterns incl. FLT_MAX/DBL_MAX/subnormals, nested lists, element counts around 255/256 and "
             "65535/65536 for every format) and each is a byte-exact vector for the real types (typed and Dynamic decode with "
             "trailing bytes); seeded random items are encoded by the real code and judged by TLC. Reference-oracle use of TLC "
             "(no interleavings): bounded, weakest fit of the family.",
        note="the IEEE-754 value<->bit-pattern correspondence is CPython's struct; the 64-bit value space is sampled, boundary classes are exhaustive",
        design="5/C01"),
    "C02": dict(
        technique="TLA+ reference decoder E5Item: TLC proves that every non-minimal-length-byte variant of the universe denotes the "
                  "same item; variants replayed on the real decoders (typed, Dynamic, restricted Dynamic, nested); random valid "
                  "encodings confirmed by TLC and decoded by the real code",
        text="For every universe item each admissible number of length bytes (outer header and as list child) is generated and "
             "proved by TLC to decode to the item; the real decoders must accept each and re-encode canonically; a format code the "
             "receiving definition does not allow must be rejected; random items encoded with random admissible header sizes at "
             "every level extend this beyond the universe.",
        note="the IEEE-754 value<->bit-pattern correspondence is CPython's struct; the 64-bit value space is sampled, boundary classes are exhaustive; JIS-8 is decoded typed only (Dynamic has no JIS-8)",
        design="5/C02"),
    "C14": dict(
        technique="the same TLC-proved universe (E5Universe) + narrowest-integer rule E5Item!Narrowest replayed on the Item API; "
                  "random Item encodings judged by TLC (E5Judge)",
        text="Item API: encode, .value, Item.decode/re-encode for canonical and non-minimal encodings, constructor forms, "
             "length-byte boundaries and Item.from_value's narrowest-type choice on boundary integers are compared with the "
             "TLA+ reference; both APIs equal the same reference bytes, hence each other.",
        note="the IEEE-754 value<->bit-pattern correspondence is CPython's struct; the 64-bit value space is sampled, boundary classes are exhaustive",
        design="5/C14"),
    "C16": dict(
        technique="executable TLA+ reference SecsIBlock (split/checksum/join theorems and single-byte-corruption rejection proved by "
                  "TLC on a boundary universe) + reassembly interleaving model (Reassembly) + byte-exact vectors, corruption sweep "
                  "and interleaved block sequences on the real SecsIMessage/SecsIBlock/SecsIProtocol",
        text="E4 block format is an executable TLA+ definition; TLC proves Join(Split) = identity, numbering/E-bit rules, "
             "rejection of all single-byte corruptions for blocks with 0/1/244 data bytes, and every interleaving of three "
             "messages' blocks in the reassembly model. 540 header vectors, 9 boundary body lengths (byte-exact blocks), block "
             "counts up to 32767, ~4k corruptions of real blocks and random merges of four multi-block messages through the real "
             "dispatch path are compared with it; blocks whose checksum has a zero byte are corrupted with all 255 values of every byte.",
        note="checksum strength against multi-byte corruption is outside the property (single-byte alterations)",
        design="5/C16"),
    "C17": dict(
        technique="implementation-shaped TLA+ model SecsILine (two stations, chunked FIFOs, corruption) checked by TLC for safety and "
                  "liveness + two real SecsIProtocol stations over an in-memory line under a deterministic scheduler; write order, "
                  "send result and deliveries validated by TLC against reference blocks (SecsILineJudge over SecsIBlock)",
        text="TLC explores every chunking and corruption moment in the code-shaped line model (handshake order, success => "
             "delivered, NAK => not delivered, termination; the corrupted-length-byte variant is kept as witness of the known "
             "non-termination). Real host/equipment stations exchange messages of 0/1/244/245/600 bytes in both directions with "
             "whole-block, single-byte and random chunking and one altered byte at every position of short blocks / sampled "
             "positions of long ones; TLC validates the recorded write sequence against the E4 reference blocks, the send result "
             "and what was delivered.",
        note="contention (both sides sending) and T1-T4 / retry are outside the property's premise and absent from the code; after a "
             "framing error (altered length byte) only failure and non-delivery are required",
        design="5/C17"),
    "C15": dict(
        technique="token-level TLA+ reference SmlRef (self-consistency checked by TLC on all token strings <= 5/6) + real printer/"
                  "parser round trip against the TLC-proved E5 bytes + exhaustive token-string enumeration on the real parser with "
                  "every accepted string and every printed text judged by TLC (SmlJudge)",
        text="Round trip: every E5-universe item and seeded random items are printed by to_sml(), parsed back by the real parser and "
             "must re-encode to the TLC-proved bytes; the printed text's structure is validated by TLC against the item's "
             "structure. Rejection/termination: ALL token strings up to length 5 (thorough 6; 177k / 1.9M) over the 11-token "
             "alphabet plus single-token edits of valid SML run through the real parser under a watchdog; for every string it "
             "accepts TLC decides whether a closing bracket is missing or a type name unknown.",
        note="floats are compared through re-encoded bytes; the harness tokenizer defines the token view of a text",
        design="5/C15"),
    "C19": dict(
        technique="TLA+ transcription of docs/firststeps/sfdl.md (Sfdl: shape and key rules); TLC enumerates all definition trees to "
                  "depth 3 with their documented shapes and all missing-bracket / unknown-item mutants; each rendered in several text "
                  "layouts and replayed on the real variables.functions.generate",
        text="The documented grammar and shape rules are a TLA+ module; TLC enumerates 1884 definitions (depth <= 3, width <= 3, 4 data "
             "items, optional list names, distinct member keys) with expected shape and ~6k single missing '>' / unknown-name "
             "mutants; each definition is rendered with varied white space, line breaks, comments and compact layout and the real "
             "generator's List/Array structure, key order and leaf items are compared; every mutant must raise. Lexical level: SfdlLex "
             "model-checks the tokenizer's character loop against the documented rules for every text of up to 7 (8) characters "
             "(witness: comment end swallowed), SfdlSep enumerates every separator of up to 3 (4) characters the rules allow between "
             "two tokens and each is placed at every gap of 7 real definitions; pairs of definitions that differ only in where the line break "
             "ends a comment are read one after the other in both orders; elements of open lists are inspected as append / set create them.",
        note="the generator stays inside what the document defines (no empty lists, distinct keys, upper-case L)",
        design="5/C19"),
    "C03": dict(
        technique="catalogue constants regenerated from the tree (classes and functions.yaml) into CatalogueData.tla and checked by TLC "
                  "against spec/Catalogue.tla; structure-conforming values replayed through every function class, bodies judged by "
                  "TLC against the E5 reference (E5Judge), decode by S/F lookup compared",
        text="TLC checks unique S/F, agreement of Python classes and YAML (flags and structure), primary/secondary pairing with "
             "mirrored direction, reply-required => reply, F0 without data on constants regenerated at every run. For all 134 "
             "functions ~1.4k conforming values (baseline + one variation at a time: open lists 0/2 elements, every allowed type "
             "of every data item, boundary lengths) are encoded by the function class; TLC judges each body against E5Item; "
             "StreamsFunctions().decode by S/F from an HSMS header must give the same class, equal value, identical re-encode; plain "
             "values read back unchanged.",
        note="variations one at a time (no cross product), one representative value per type",
        design="5/C03"),
    "C10": dict(
        technique="implementation-shaped TLA+ model TcpSend (send loop vs bounded kernel buffer, short writes, reader pace, reset) "
                  "checked by TLC incl. liveness + the real TcpServerConnection/TcpClientConnection executed on a simulated "
                  "socket/select layer under a deterministic scheduler; peer byte streams validated by TLC (TcpJudge)",
        text="TLC checks that the send loop puts every byte of a message reported as sent on the stream exactly once and in order "
             "for every short-write/drain/reset interleaving (the original loop ignoring send()'s return value is the regression "
             "witness TLC must refute). The real TCP connection classes run on a simulated socket layer with capacities 1 B..64 KiB, "
             "short-write policies, reader pacings and message sizes 1 B..3 MiB (around the capacity and the 1 MiB packet split); "
             "what the peer reads is validated by TLC against the reported results. SendHandover models the hand-over of blocks to the "
             "receiver loop (ReportedSuccessMeansSent; witness: a wait that gives up counts as success); 1-3 threads send at the same "
             "time through the real HsmsProtocol while the peer drains, stalls longer than T3, or leaves.",
        note="kernel TCP behaviour is the simulated socket layer (assumption); real loopback sockets are not used",
        design="5/C10"),
    "C20": dict(
        technique="abstract TLA+ pair model GemPair (both HSMS roles, link delay, T5 reconnect, disable/enable cycles) checked by TLC "
                  "incl. the liveness property ReachCommunication + a real GemHostHandler and GemEquipmentHandler connected through "
                  "the real TCP classes on a simulated socket layer in virtual time; sessions validated by TLC (PairJudge)",
        text="TLC proves on the abstract pair that both sides eventually communicate whenever they stay enabled, for either role "
             "assignment and after disable/enable cycles. Real host and equipment handlers run together under a deterministic "
             "scheduler (fifo/random/PCT) over the real TcpClient/TcpServerConnection with 64 KiB and 64 B socket buffers, both role "
             "assignments and enable orders, with a session of 22 host service calls, collection events and a remote command, and "
             "disable/enable cycles of either side; time to reach communication, every returned value vs the equipment's tables "
             "and the received events are validated by TLC. A host request and an event report crossing on the link, and sessions in "
             "which both transaction counters start equal (same system bytes in both directions), are part of every session.",
        note="schedule space and session scripts are sampled; link latency zero (segmentation through small buffers); bound 60 "
             "virtual seconds",
        design="5/C20"),
}

NOT_YET = "check not built yet in this round (specification and harness in progress; see DESIGN.md section 9)"


def main():
    props = [json.loads(l) for l in open(os.path.join(HERE, "properties.jsonl"))]
    checks = []
    na = []
    for p in props:
        pid = p["id"]
        if pid in CLAIMED:
            c = CLAIMED[pid]
            checks.append({
                "property_id": pid,
                "quick_cmd": f"./check {pid} --tier quick",
                "thorough_cmd": f"./check {pid} --tier thorough",
                "evidence_file": f"/verif/evidence/{pid}.json",
                "replay_cmd_template": f"./check {pid} --replay {{path}}",
                "engine": "tlc+replay",
                "level_claimed": {"category": c.get("category", "model_checking"), "text": c["text"],
                                  "design_ref": c["design"]},
                "level_note": c["note"],
                "technique": c["technique"],
            })
        else:
            na.append({"property_id": pid, "reason": NOT_YET})
    man = {
        "version": 1,
        "setup_cmd": "mkdir -p .work evidence/replays && /venv/bin/python -m compileall -q harness && tla-sany spec/SmAbs.tla >/dev/null",
        "hooks": {"guard": "SECSGEM_VERIF", "enable": "no source hooks: the harness substitutes module references "
                  "(threading/queue/time/socket/select/random/datetime) from outside; SECSGEM_VERIF=1 is exported by ./check for "
                  "forward compatibility only", "baseline_off_cmd": BASELINE_OFF, "source_commits": [], "add_only": True},
        "engines": [{"name": "tlc+replay", "path": "/verif/check", "serves_properties": sorted(CLAIMED),
                     "kind_free_text": "TLA+ specifications under /verif/spec checked by TLC; behaviours generated by TLC are "
                     "replayed into the real secsgem objects (under the deterministic runtime harness/simrt.py where threads "
                     "are involved) and recorded executions are judged by TLC"}],
        "checks": checks,
        "not_applicable": na,
        "notes": "See DESIGN.md. known_findings.json lists genuine defects recorded rather than repaired and the fix: commits.",
    }
    with open(os.path.join(HERE, "MANIFEST.json"), "w") as f:
        json.dump(man, f, indent=1)
    print(f"claimed {len(checks)}, not_applicable {len(na)}")


if __name__ == "__main__":
    sys.exit(main())
