#!/bin/sh
# run every check of MANIFEST.json in the given tier; print one line per check
tier=${1:-quick}
for id in C01 C02 C03 C04 C05 C06 C07 C08 C09 C10 C11 C12 C13 C14 C15 C16 C17 C18 C19 C20; do
  start=$(date +%s)
  ./check $id --tier $tier > .work_$id.log 2>&1
  rc=$?
  end=$(date +%s)
  echo "$id rc=$rc $((end-start))s $(grep -c '^VIOLATION' .work_$id.log) violations; $(tail -1 .work_$id.log | cut -c1-150)"
done
